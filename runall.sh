#!/bin/bash
# runall.sh [quick|thorough] [jobs]: run every registered check on /repo's current tree, N at a time; one summary line per check.
# exit 0 iff every check exited 0.
cd "$(dirname "$0")"
tier=${1:-quick}; jobs=${2:-4}
mkdir -p .cache/runall
ids=$(python3 -c "import json; print(' '.join(c['property_id'] for c in json.load(open('MANIFEST.json'))['checks']))")
run_one() {
  id=$1; t0=$(date +%s)
  ./check $id --tier $tier > .cache/runall/$id.$tier.log 2>&1; rc=$?
  echo "$id rc=$rc secs=$(( $(date +%s) - t0 )) $(grep -E '^(VIOLATION|INCONCLUSIVE)' .cache/runall/$id.$tier.log | head -2 | cut -c1-160 | tr '\n' ' ')$(grep -c '^KNOWN-FINDING' .cache/runall/$id.$tier.log) known | $(tail -1 .cache/runall/$id.$tier.log | cut -c1-150)"
}
export -f run_one; export tier
echo $ids | tr ' ' '\n' | xargs -P $jobs -I{} bash -c 'run_one {}' | tee .cache/runall/summary.$tier.txt
! grep -qv "rc=0" .cache/runall/summary.$tier.txt
