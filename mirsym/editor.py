"""Editor-side world (C10 / C17): a symbolic loaded repository, the update chain
RepositoryEditor::from_repo -> setters -> add_target* -> sign, all run from MIR, with contract models for signing/serialisation."""
import z3, itertools
from client import *
from models import R as RX
import stdm
from stdm import VAL, V0, dr

KEY = z3.BitVecSort(8)
InT = z3.Function('InTargets', KEY, KEY, VAL)      # (role id, name id) -> id of the Target entry listed there, 0 = not listed
InX = z3.Function('InExtra', KEY, KEY, VAL)        # (document id, member-name id) -> id of the unknown member's value, 0 = absent
DOC_TARGETS, DOC_SNAPSHOT, DOC_TIMESTAMP = 0, 100, 101

_uid = itertools.count(1)
def leaf(kind, **kw): return Obj(kind, uid=next(_uid), **kw)

class Node:
    def __init__(self, rid, name, children): self.rid, self.name, self.children = rid, name, children

def mk_tree(shape):
    ctr = itertools.count(1)
    def mk(items): return [Node(next(ctr), n, mk(ch)) for n, ch in items]
    return Node(0, 'targets', mk(shape))

def all_nodes(node):
    out = [node]
    for c in node.children: out += all_nodes(c)
    return out

def mk_targets_doc(st, node, W):
    """Targets struct of one role of the loaded repository"""
    if node.children:
        roles = []
        for c in node.children:
            sub = mk_targets_doc(st, c, W)
            sigs = leaf('signatures', of=c.name)
            W['in_roles'][c.name] = {'rid': c.rid, 'sigs': sigs}
            signed = Adt('Signed<Targets>', None, {(None, F('Signed', 'signed')): sub, (None, F('Signed', 'signatures')): sigs})
            roles.append(st.alloc(Adt('DelegatedRole', None, {
                (None, F('DelegatedRole', 'name')): Obj('str', s=c.name), (None, F('DelegatedRole', 'keyids')): leaf('keyids'),
                (None, F('DelegatedRole', 'threshold')): z3.BitVec(f'thr_{c.name}', 64), (None, F('DelegatedRole', 'paths')): leaf('pathset'),
                (None, F('DelegatedRole', 'terminating')): z3.Bool(f'term_{c.name}'),
                (None, F('DelegatedRole', 'targets')): Adt('Option<Signed<Targets>>', 1, {('Some', 0): signed})})))
        dele = Adt('Option<Delegations>', 1, {('Some', 0): Adt('Delegations', None, {(None, F('Delegations', 'keys')): leaf('keytable'), (None, F('Delegations', 'roles')): Obj('vec', elems=roles)})})
    else:
        dele = Adt('Option<Delegations>', z3.If(z3.Bool(f'has_deleg_{node.name}'), BV64(1), BV64(0)) if node.rid == 0 else 0,
                   {('Some', 0): Adt('Delegations', None, {(None, F('Delegations', 'keys')): leaf('keytable'), (None, F('Delegations', 'roles')): Obj('vec', elems=[])})})
    rid = node.rid
    return Adt('Targets', None, {
        (None, F('Targets', 'spec_version')): Obj('str', s=None, spec_ok=z3.Bool(f'spec_ok_{node.name}')),
        (None, F('Targets', 'version')): z3.BitVec(f'ver_{node.name}', 64), (None, F('Targets', 'expires')): z3.Int(f'exp_{node.name}'),
        (None, F('Targets', 'targets')): Obj('fmap', f=lambda k, rid=rid: InT(IDV(rid), k)),
        (None, F('Targets', 'delegations')): dele,
        (None, F('Targets', '_extra')): Obj('fmap', f=lambda k, rid=rid: InX(IDV(rid), k))})

def simple_doc(kind, docid):
    return Adt(kind, None, {(None, F(kind, 'spec_version')): Obj('str', s=None, spec_ok=z3.Bool(f'spec_ok_{kind}')),
                            (None, F(kind, 'version')): z3.BitVec(f'ver_{kind}', 64), (None, F(kind, 'expires')): z3.Int(f'exp_{kind}'),
                            (None, F(kind, 'meta')): leaf('old_meta'), (None, F(kind, '_extra')): Obj('fmap', f=lambda k: InX(IDV(docid), k))})

def mk_world(st, shape):
    W = {'tree': mk_tree(shape), 'in_roles': {}, 'signed_roles': [], 'flags': []}
    top = mk_targets_doc(st, W['tree'], W)
    W['top_sigs'] = leaf('signatures', of='targets')
    W['in_top'] = deep_snapshot(st, top)
    rootdoc = Adt('Root', None, {(None, F('Root', 'consistent_snapshot')): z3.Bool('consistent_snapshot'), (None, F('Root', 'keys')): leaf('root_keys'), (None, F('Root', 'roles')): leaf('root_roles')})
    W['root'] = rootdoc
    repo = Adt('Repository', None, {
        (None, F('Repository', 'targets')): Adt('Signed<Targets>', None, {(None, F('Signed', 'signed')): top, (None, F('Signed', 'signatures')): W['top_sigs']}),
        (None, F('Repository', 'snapshot')): Adt('Signed<Snapshot>', None, {(None, F('Signed', 'signed')): simple_doc('Snapshot', DOC_SNAPSHOT), (None, F('Signed', 'signatures')): leaf('signatures', of='snapshot')}),
        (None, F('Repository', 'timestamp')): Adt('Signed<Timestamp>', None, {(None, F('Signed', 'signed')): simple_doc('Timestamp', DOC_TIMESTAMP), (None, F('Signed', 'signatures')): leaf('signatures', of='timestamp')}),
        (None, F('Repository', 'transport')): leaf('transport'), (None, F('Repository', 'limits')): leaf('limits'),
        (None, F('Repository', 'root')): Adt('Signed<Root>', None, {(None, F('Signed', 'signed')): rootdoc, (None, F('Signed', 'signatures')): leaf('signatures', of='root')})})
    W['repo'] = repo
    RE = 'RepositoryEditor'
    none = lambda: mk_none()
    W['editor0'] = Adt(RE, None, {
        (None, F(RE, 'signed_root')): Adt('SignedRole<Root>', None, {(None, F('SignedRole', 'signed')): Adt('Signed<Root>', None, {(None, F('Signed', 'signed')): rootdoc, (None, F('Signed', 'signatures')): leaf('signatures', of='root')}),
                                                                    (None, F('SignedRole', 'buffer')): leaf('buffer'), (None, F('SignedRole', 'sha256')): leaf('digest'), (None, F('SignedRole', 'length')): z3.BitVec('root_len', 64)}),
        **{(None, F(RE, f)): none() for f in ('snapshot_version', 'snapshot_expires', 'snapshot_extra', 'timestamp_version', 'timestamp_expires', 'timestamp_extra', 'targets_editor', 'signed_targets', 'transport', 'limits')}})
    return W

def deep_snapshot(st, v):
    """independent copy of an input value for later comparison (Vec cells copied)"""
    class _I:  # deep_clone only needs mat() for Unknowns, which inputs do not contain
        pass
    return stdm.deep_clone(None, st, v)

# ------------------------------------------------------------------ structural comparison
def same(sa, a, sb, b, out, where='$'):
    """appends to `out` z3 constraints (or python False with a reason) that make a and b equal"""
    if isinstance(a, Unknown) or isinstance(b, Unknown):
        if a is not b: out.append((False, f'{where}: unknown vs {b!r}'))
        return
    if isinstance(a, Ref) and isinstance(b, Ref):
        return same(sa, sa.heap[a.cid] if not a.path else None, sb, sb.heap[b.cid] if not b.path else None, out, where + '*')
    if isinstance(a, Adt) and isinstance(b, Adt):
        da, db = a.discr, b.discr
        if da is not None or db is not None:
            if isinstance(da, int) and isinstance(db, int):
                if da != db: out.append((False, f'{where}: variant {da} vs {db}')); return
            else:
                ta = BV64(da) if isinstance(da, int) else da; tb = BV64(db) if isinstance(db, int) else db
                if ta is None or tb is None: out.append((False, f'{where}: discriminant missing')); return
                out.append((ta == tb, f'{where}: variant'))
        keys = set(a.fields) | set(b.fields)
        for k in sorted(keys, key=repr):
            if isinstance(da, int) and k[0] is not None and 'Option' in a.ty and ((da == 0) or k[0] != 'Some'): continue
            if k not in a.fields or k not in b.fields:
                if isinstance(k[1], str): continue      # bookkeeping pseudo-fields
                out.append((False, f'{where}.{k}: present on one side only')); continue
            same(sa, a.fields[k], sb, b.fields[k], out, f'{where}.{k[1] if k[0] is None else k}')
        return
    if isinstance(a, Obj) and isinstance(b, Obj):
        if a.kind != b.kind: out.append((False, f'{where}: {a.kind} vs {b.kind}')); return
        if a.kind == 'fmap':
            k = z3.BitVec(fresh_name('anykey'), 8)
            out.append((a.d['f'](k) == b.d['f'](k), f'{where}: map contents')); return
        if a.kind == 'vec' and 'elems' in a.d:
            if len(a.d['elems']) != len(b.d['elems']): out.append((False, f'{where}: {len(a.d["elems"])} vs {len(b.d["elems"])} elements')); return
            for i, (x, y) in enumerate(zip(a.d['elems'], b.d['elems'])): same(sa, sa.heap[x], sb, sb.heap[y], out, f'{where}[{i}]')
            return
        if 'uid' in a.d or 'uid' in b.d:
            if a.d.get('uid') != b.d.get('uid'): out.append((False, f'{where}: a different {a.kind} object'))
            return
        if a.kind == 'str':
            if a.d.get('s') != b.d.get('s') or a.d.get('spec_ok') is not b.d.get('spec_ok'): out.append((False, f'{where}: string differs'))
            return
        for k in set(a.d) | set(b.d):
            same(sa, a.d.get(k), sb, b.d.get(k), out, f'{where}.{k}')
        return
    if z3.is_expr(a) or z3.is_expr(b):
        try: out.append((a == b, f'{where}: value'))
        except Exception: out.append((False, f'{where}: incomparable terms'))
        return
    if a != b: out.append((False, f'{where}: {a!r} vs {b!r}'))

def conj(out):
    if any(c is False for c, _ in out): return z3.BoolVal(False)
    return z3.And([c for c, _ in out] + [z3.BoolVal(True)])

# ------------------------------------------------------------------ models
def editor_models(I, W):
    def m_editor_new(I_, s, fr, c, a, d, de, rb): return leaf_future('ready', val=mk_ok(stdm.deep_clone(I_, s, W['editor0'])))
    def m_str_eq(I_, s, fr, c, a, d, de, rb):
        x = dr(I_, s, a[0]); y = dr(I_, s, a[1])
        if x.d.get('spec_ok') is not None: return x.d['spec_ok']
        if x.d.get('s') is not None and y.d.get('s') is not None: return z3.BoolVal(x.d['s'] == y.d['s'])
        raise Stuck(f'string comparison {x!r} == {y!r}')
    def m_to_string(I_, s, fr, c, a, d, de, rb): return clone(dr(I_, s, a[0]))
    def m_rng(I_, s, fr, c, a, d, de, rb): return Obj('rng')
    def mk_signed_role(s, role, sigs, how):
        n = len(W['signed_roles']); tag = f'sr{n}'
        rec = {'tag': tag, 'how': how}
        W['signed_roles'].append(rec)
        sr = Adt('SignedRole', None, {(None, F('SignedRole', 'signed')): Adt('Signed', None, {(None, F('Signed', 'signed')): role, (None, F('Signed', 'signatures')): sigs}),
                                      (None, F('SignedRole', 'buffer')): Obj('buffer', tag=tag), (None, F('SignedRole', 'sha256')): Obj('sha256', tag=tag),
                                      (None, F('SignedRole', 'length')): z3.BitVec(f'len_{tag}_{next(_uid)}', 64), (None, 'tag'): tag})
        return sr
    def m_sr_new(I_, s, fr, c, a, d, de, rb):
        return leaf_future('signed_role_new', role=mat(I_, s, a[0]), key_holder=dr(I_, s, a[1]), callee=c)
    def op_sr_new(I_, s, fut):
        ok = z3.Bool(fresh_name('keys_suffice'))
        sr = mk_signed_role(s, fut.d['role'], Obj('signatures', fresh=True, tag=fresh_name('sig')), 'new')
        s.events.append(('SignedRole::new', fut.d['callee']))
        return Forks([(ok, mk_ready(mk_ok(sr)), None), (z3.Not(ok), mk_ready(mk_err(error('SigningKeysNotFound'))), None)])
    LEAF_OPS['signed_role_new'] = op_sr_new
    def m_sr_from_signed(I_, s, fr, c, a, d, de, rb):
        sg = mat(I_, s, a[0])
        s.events.append(('SignedRole::from_signed', c))
        return mk_ok(mk_signed_role(s, sg.fields[(None, F('Signed', 'signed'))], sg.fields[(None, F('Signed', 'signatures'))], 'from_signed'))
    def m_validate(I_, s, fr, c, a, d, de, rb):
        ok = z3.Bool(fresh_name('paths_valid'))
        return Forks([(ok, mk_ok(unit()), None), (z3.Not(ok), mk_err(error('schema/InvalidPath')), None)])
    def m_to_vec(I_, s, fr, c, a, d, de, rb): return dr(I_, s, a[0])
    def m_into_decoded(I_, s, fr, c, a, d, de, rb): return Obj('decoded', of=mat(I_, s, a[0]))
    def m_try_into(I_, s, fr, c, a, d, de, rb): return mk_ok(mat(I_, s, a[0]))
    def m_map_err(I_, s, fr, c, a, d, de, rb):
        v = mat(I_, s, a[0]); dd = discr_of(I_, s, v)
        return mk_result(ok=get_field(I_, s, v, 'Ok', 0), err=error('mapped'), discr=dd)
    return [(RX(r'^RepositoryEditor::new::<'), m_editor_new), (RX(r'^<std::string::String as PartialEq<&str>>::eq$'), m_str_eq),
            (RX(r'^<str as (ToString>::to_string|ToOwned>::to_owned)$'), m_to_string), (RX(r'^SystemRandom::new$'), m_rng),
            (RX(r'^SignedRole::<.*>::new$'), m_sr_new), (RX(r'^SignedRole::<.*>::from_signed$'), m_sr_from_signed), (RX(r'^Targets::validate$'), m_validate),
            (RX(r'^std::slice::<impl \[u8\]>::to_vec$'), m_to_vec), (RX(r'^<Vec<u8> as Into<Decoded<Hex>>>::into$'), m_into_decoded),
            (RX(r'as TryInto<TargetName>>::try_into$'), m_try_into), (RX(r'^std::result::Result::<TargetName, E>::map_err::<'), m_map_err)] + stdm.STD_MODELS

def editor_fn(I, name):
    for n, fs in I.funcs.items():
        if n.endswith('>::' + name) and 'editor/mod.rs' in n: return fs[0]
    raise Stuck('RepositoryEditor::' + name + ' not found in the MIR')

def step(I, states, fn, argf, keep=lambda s: True, generics=None):
    """run `fn` on every state; argf(state) -> args.  Returns (continuing states, finished-with-error states)"""
    out = []
    for s in states:
        I.push_call(s, fn, argf(s), None, None, generics=generics)
        done = []; I.run(s, done.append)
        out += done
    return out

def fn_by_sig(I, suffix, first_arg):
    for n, fs in I.funcs.items():
        if n.endswith(suffix) and fs[0].args.startswith(first_arg): return fs[0]
    raise Stuck(f'{suffix} ({first_arg}) not found in the MIR')

def program_reference(W, k):
    """value the top-level targets map should hold for name k after the program (0 = not listed)"""
    want = InT(IDV(0), k)
    for op in W.get('program', []):
        if op[0] == 'add': want = z3.If(k == op[1], op[2], want)
        elif op[0] == 'remove': want = z3.If(k == op[1], V0(), want)
        elif op[0] == 'clear': want = V0()
    return want

def run_update(I, shape, nadd, then_write=False, program=None):
    """from_repo -> versions/expirations -> nadd x add_target -> sign [-> SignedRepository::write].  Returns (W, list of (state, stage, tag, value))"""
    st = State(); st.env['fs'] = {}
    W = mk_world(st, shape)
    saved = list(I.models); I.models[:0] = editor_models(I, W) + install_format_models()
    finished = []
    try:
        repo_cell = st.alloc(W['repo'])
        ctor = editor_fn(I, 'from_repo')
        st.frames.append(ModelFrame(h_async_driver, {'phase': 0, 'ctor': ctor, 'args': order_args(ctor, {'root_path': Obj('path', key='root.json'), 'repo': W['repo']}), 'generics': {'P': '&str'}}))
        done = []; I.run(st, done.append)
        live = []
        for s in done:
            tag, val = classify(s.result)
            if tag != 'Ok': finished.append((s, 'from_repo', tag, None)); continue
            s.env['ed'] = s.alloc(val); live.append(s)
        W['new'] = [(z3.BitVec(f'addk{i}', 8), z3.BitVec(f'addv{i}', 16)) for i in range(nadd)]
        ed = lambda s: Ref(s.env['ed'])
        def chain(live, name, argf, generics=None):
            nxt = []
            for s in step(I, live, editor_fn(I, name), argf, generics=generics):
                r = s.result
                if isinstance(r, Adt) and r.discr is not None and not (isinstance(r.discr, int) and r.discr == 0) and ('Err', 0) in r.fields and 'Result' in r.ty:
                    finished.append((s, name, 'Err', None)); continue
                nxt.append(s)
            return nxt
        live = chain(live, 'targets_version', lambda s: [ed(s), z3.BitVec('new_targets_version', 64)])
        live = chain(live, 'targets_expires', lambda s: [ed(s), z3.Int('new_targets_expires')])
        live = chain(live, 'snapshot_version', lambda s: [ed(s), z3.BitVec('new_snapshot_version', 64)])
        live = chain(live, 'snapshot_expires', lambda s: [ed(s), z3.Int('new_snapshot_expires')])
        live = chain(live, 'timestamp_version', lambda s: [ed(s), z3.BitVec('new_timestamp_version', 64)])
        live = chain(live, 'timestamp_expires', lambda s: [ed(s), z3.Int('new_timestamp_expires')])
        # the editing program: by default `nadd` additions; otherwise the given list of ('add' | 'remove' | 'clear') operations over symbolic names
        prog = program if program is not None else ['add'] * nadd
        W['program'] = []
        ai = 0
        for i, op in enumerate(prog):
            if op == 'add':
                if ai < len(W['new']): k, v = W['new'][ai]
                else:
                    k, v = z3.BitVec(f'addk{ai}', 8), z3.BitVec(f'addv{ai}', 16); W['new'].append((k, v))
                ai += 1
                for s in live: s.pc.append(v != 0)
                W['program'].append(('add', k, v))
                live = chain(live, 'add_target', lambda s, k=k, v=v: [ed(s), Adt('TargetName', None, {(None, 'nid'): k}), Adt('Target', None, {(None, 'vid'): v})], generics={'T': 'TargetName', 'E': 'Infallible'})
            elif op == 'remove':
                k = z3.BitVec(f'remk{i}', 8); W['program'].append(('remove', k))
                live = chain(live, 'remove_target', lambda s, k=k: [ed(s), Ref(s.alloc(Adt('TargetName', None, {(None, 'nid'): k})))])
            elif op == 'clear':
                W['program'].append(('clear',))
                live = chain(live, 'clear_targets', lambda s: [ed(s)])
            else: raise Stuck('unknown program operation ' + op)
        out = []
        for s in live:
            editor_val = s.heap[s.env['ed']]
            s.frames.append(ModelFrame(h_async_driver, {'phase': 0, 'ctor': editor_fn(I, 'sign'), 'args': [editor_val, Ref(s.alloc(Obj('vec', elems=[])))], 'generics': None}))
            done = []; I.run(s, done.append)
            for s2 in done:
                tag, val = classify(s2.result)
                if tag != 'Ok' or not then_write:
                    finished.append((s2, 'sign', tag, val)); continue
                wfn = fn_by_sig(I, '>::write', '_1: &SignedRepository')
                s2.env['signed_repo'] = val
                s2.frames.append(ModelFrame(h_async_driver, {'phase': 0, 'ctor': wfn, 'args': [Ref(s2.alloc(val)), Obj('path', key='out')], 'generics': {'P': '&str'}}))
                done2 = []; I.run(s2, done2.append)
                for s3 in done2:
                    tag3, _ = classify(s3.result)
                    finished.append((s3, 'write', tag3, s3.env['signed_repo']))
    finally:
        I.models[:] = saved
    return W, finished

def install_format_models():
    import streams
    return [(RX(r'^core::fmt::rt::Argument::<.*>::new_display::<'), streams.m_fmt_arg), (RX(r'^Arguments::<.*>::new::<'), streams.m_fmt_args_new), (RX(r'^std::fmt::format$'), streams.m_format)]
