"""Contract models for calls leaving the repository (prototype subset)."""
import re, z3
from sym import *

def R(p): return re.compile(p)

def mk_result(ok=None, err=None, discr=None, ty='Result'):
    f = {}
    if ok is not None: f[('Ok', 0)] = ok
    if err is not None: f[('Err', 0)] = err
    return Adt(ty, discr, f)
def mk_ok(v): return mk_result(ok=v, discr=0)
def mk_err(e): return mk_result(err=e, discr=1)
def mk_some(v): return Adt('Option', 1, {('Some', 0): v})
def mk_none(): return Adt('Option', 0, {})
def mk_ready(v): return Adt('Poll', 0, {('Ready', 0): v})
def unit(): return Adt('()')
def error(kind, **kw): return Obj('error', ekind=kind, **kw)

def discr_of(I, st, v):
    """discriminant term (z3 BV64 or int) of an enum value, creating it if needed"""
    if isinstance(v, Unknown): raise Stuck('discr_of unknown; materialise first')
    if v.discr is None:
        v.discr = z3.BitVec(fresh_name('d'), 64)
        n = I.enums.get(ty_head(v.ty))
        if n: st.pc.append(z3.ULT(v.discr, len(n)))
    return v.discr

def get_field(I, st, v, variant, idx, ty='?'):
    key = (variant, idx)
    if key not in v.fields: v.fields[key] = Unknown(ty)
    return v.fields[key]

def mat(I, st, v):
    return I.materialize(st, v) if isinstance(v, Unknown) else v

def deref(I, st, v):
    v = mat(I, st, v)
    if isinstance(v, Ref): return I.deref_load(st, v)
    return v

def selector_name(callee):
    m = re.search(r'(\w+)Snafu', callee)
    return m.group(1) if m else '?'

# ------------------------------------------------------------------ plumbing
def m_identity(I, st, fr, callee, args, dty, dest, ret_bb): return args[0]
def m_unit(I, st, fr, callee, args, dty, dest, ret_bb): return unit()

def m_pin_new(I, st, fr, callee, args, dty, dest, ret_bb):
    return Adt('Pin', None, {(None, 0): args[0]})

def m_try_branch(I, st, fr, callee, args, dty, dest, ret_bb):
    v = mat(I, st, args[0])
    if ty_head(v.ty) == 'Option' or callee.startswith('<std::option::Option'):
        d = discr_of(I, st, v)
        nd = (1 - d) if isinstance(d, int) else z3.If(d == 1, z3.BitVecVal(0, 64), z3.BitVecVal(1, 64))
        return Adt('ControlFlow', nd, {('Continue', 0): get_field(I, st, v, 'Some', 0), ('Break', 0): mk_none()})
    d = discr_of(I, st, v)
    return Adt('ControlFlow', d, {('Continue', 0): get_field(I, st, v, 'Ok', 0),
                                  ('Break', 0): mk_err(get_field(I, st, v, 'Err', 0))})

def m_from_residual(I, st, fr, callee, args, dty, dest, ret_bb):
    if callee.startswith('<std::option::Option'): return mk_none()
    v = mat(I, st, args[0])
    if ty_head(v.ty) == 'Option': return mk_none()
    return mk_err(get_field(I, st, v, 'Err', 0))

def m_context(I, st, fr, callee, args, dty, dest, ret_bb):
    """ResultExt::context / with_context / OptionExt::context: discriminant preserved, error wrapped.
    with_context closures are NOT executed (they only build snafu selectors)."""
    v = mat(I, st, args[0]); kind = selector_name(callee)
    if 'OptionExt' in callee:
        d = discr_of(I, st, v)
        nd = (1 - d) if isinstance(d, int) else z3.If(d == 1, z3.BitVecVal(0, 64), z3.BitVecVal(1, 64))
        return mk_result(ok=get_field(I, st, v, 'Some', 0), err=error(kind), discr=nd)
    d = discr_of(I, st, v)
    return mk_result(ok=get_field(I, st, v, 'Ok', 0), err=error(kind, source=get_field(I, st, v, 'Err', 0)), discr=d)

def m_fail(I, st, fr, callee, args, dty, dest, ret_bb):
    sel = mat(I, st, args[0]) if args else None
    return mk_err(error(selector_name(callee), sel=sel))
def m_build(I, st, fr, callee, args, dty, dest, ret_bb):
    return error(selector_name(callee), sel=mat(I, st, args[0]) if args else None)

def m_is_ok(I, st, fr, callee, args, dty, dest, ret_bb):
    v = deref(I, st, args[0]); d = discr_of(I, st, v)
    want = 0 if callee.endswith('is_ok') else 1
    return z3.BoolVal(d == want) if isinstance(d, int) else (d == want)

def m_option_map(I, st, fr, callee, args, dty, dest, ret_bb):
    v = mat(I, st, args[0]); d = discr_of(I, st, v)
    clos = args[1]
    fn = I.resolve_closure(clos.ty if isinstance(clos, (Adt, Unknown)) else '')
    if fn is None: raise Stuck('closure for Option::map not found: ' + repr(clos))
    out = []
    for want in (0, 1):
        if isinstance(d, int):
            if d != want: continue
            s2 = st
        else:
            s2 = st.clone(); s2.pc.append(d == want)
            if not I.feasible(s2): continue
        if want == 0:
            I.finish_call(s2, dest, ret_bb, mk_none())
        else:
            v2 = mat(I, s2, I.operand(s2, s2.frames[-1], ('copy', dest)) ) if False else v
            payload = get_field(I, s2, v, 'Some', 0)
            I.push_call(s2, fn, [clos, clone(payload)], dest, ret_bb, on_return=lambda I_, s_, val: mk_some(val))
        out.append(s2)
    return States(out)

# ------------------------------------------------------------------ leaf futures
def leaf_future(op, **kw): return Obj('leaf_future', op=op, **kw)

def m_poll_leaf(I, st, fr, callee, args, dty, dest, ret_bb):
    pin = mat(I, st, args[0])
    if not (isinstance(pin, Adt) and (None, 0) in pin.fields): return SKIP
    fut_ref = pin.fields[(None, 0)]
    fut = deref(I, st, fut_ref)
    if isinstance(fut, Adt) and 'Pin' in fut.ty and (None, 0) in fut.fields: fut = deref(I, st, fut.fields[(None, 0)])
    if not (isinstance(fut, Obj) and fut.kind == 'leaf_future'):
        return SKIP
    op = fut.d['op']
    return LEAF_OPS[op](I, st, fut)

LEAF_OPS = {}

def op_ready(I, st, fut): return mk_ready(fut.d['val'])
LEAF_OPS['ready'] = op_ready

# ------------------------------------------------------------------ file system
def path_key(I, st, p):
    p = deref(I, st, p)
    if isinstance(p, Obj) and p.kind == 'path': return p.d['key']
    while isinstance(p, Ref): p = I.deref_load(st, p)
    if isinstance(p, Obj) and p.kind == 'path': return p.d['key']
    if isinstance(p, Obj) and p.kind == 'str':
        if p.d.get('s') is not None: return p.d['s']
        return ''.join(x if isinstance(x, str) else '{%s}' % x for x in p.d.get('pieces', []))
    raise Stuck(f'path_key of {p!r}')

def m_path_join(I, st, fr, callee, args, dty, dest, ret_bb):
    return Obj('path', key=path_key(I, st, args[0]) + '/' + path_key(I, st, args[1]))

def op_fs_read(I, st, fut):
    key = fut.d['key']; fs = st.env['fs']
    present, content = fs.get(key, (z3.BoolVal(False), None))
    st.events.append(('fs.read', key))
    alts = [(present, mk_ready(mk_ok(Obj('vec', content=content))), None),
            (z3.Not(present), mk_ready(mk_err(Obj('ioerror', ek=0))), None)]
    if st.env.get('io_faults'):
        alts.append((z3.Bool(fresh_name('ioerr')), mk_ready(mk_err(Obj('ioerror', ek=39))), None))
    return Forks(alts)
LEAF_OPS['fs_read'] = op_fs_read

def op_fs_write(I, st, fut):
    key = fut.d['key']; content = fut.d['content']
    def ok(s2):
        s2.env['fs'][key] = (z3.BoolVal(True), content); s2.events.append(('fs.write', key, content))
    def bad(s2):
        s2.env['fs'][key] = (z3.BoolVal(True), Obj('truncated', of=content)); s2.events.append(('fs.write_failed', key))
    alts = [(None, mk_ready(mk_ok(unit())), ok)]
    if st.env.get('io_faults'):
        alts = [(z3.Not(z3.Bool(fresh_name('wfail'))), mk_ready(mk_ok(unit())), ok), (None, mk_ready(mk_err(Obj('ioerror', ek=39))), bad)]
    return Forks(alts)
LEAF_OPS['fs_write'] = op_fs_write

def m_fs_read(I, st, fr, callee, args, dty, dest, ret_bb):
    return leaf_future('fs_read', key=path_key(I, st, args[0]))
def m_fs_write(I, st, fr, callee, args, dty, dest, ret_bb):
    v = deref(I, st, args[1])
    return leaf_future('fs_write', key=path_key(I, st, args[0]), content=v.d.get('content') if isinstance(v, Obj) else v)

def m_io_kind(I, st, fr, callee, args, dty, dest, ret_bb):
    e = deref(I, st, args[0])
    return Adt('ErrorKind', e.d['ek'] if isinstance(e, Obj) else None, {})

# ------------------------------------------------------------------ serde
def m_to_vec(I, st, fr, callee, args, dty, dest, ret_bb):
    return mk_ok(Obj('vec', content=Obj('json', val=clone(deref(I, st, args[0])))))

def m_from_slice(I, st, fr, callee, args, dty, dest, ret_bb):
    v = deref(I, st, args[0])
    content = v.d.get('content') if isinstance(v, Obj) else None
    m = re.search(r'from_slice::<[^,]*, (.+)>$', callee); ty = m.group(1) if m else (dty or '?')
    if isinstance(content, Obj) and content.kind == 'json':
        return mk_ok(clone(content.d['val']))
    if isinstance(content, Obj) and content.kind == 'file':
        # initial file content: parse result is a function of the file identity (cached)
        cache = st.env.setdefault('parse', {})
        k = (content.d['name'], ty)
        if k not in cache:
            cache[k] = (z3.Bool(f"parses!{content.d['name']}"), content.d['parsed'] if content.d.get('parsed') is not None else Unknown(ty, f"parsed!{content.d['name']}"))
        ok, val = cache[k]
        return Forks([(ok, mk_ok(val), None), (z3.Not(ok), mk_err(Obj('serde_error')), None)])
    return Forks([(None, mk_err(Obj('serde_error')), None)])

# ------------------------------------------------------------------ time
def instant(I, st, v):
    v = deref(I, st, v)
    if isinstance(v, Unknown): v = I.materialize(st, v)
    return v
def m_dt_cmp(I, st, fr, callee, args, dty, dest, ret_bb):
    a, b = instant(I, st, args[0]), instant(I, st, args[1])
    op = callee.rsplit('::', 1)[1]
    st.events.append(('dtcmp', op, a, b))
    return {'le': a <= b, 'lt': a < b, 'ge': a >= b, 'gt': a > b, 'eq': a == b, 'ne': a != b}[op]   # signed
def m_now(I, st, fr, callee, args, dty, dest, ret_bb):
    t = z3.Int(fresh_name('now')); st.events.append(('now', t)); return t   # instants: only ordered, never computed with => mathematical integers

# ------------------------------------------------------------------ sync
def m_arc_deref(I, st, fr, callee, args, dty, dest, ret_bb):
    a = deref(I, st, args[0])
    if isinstance(a, Obj) and a.kind in ('arc', 'guard'): return Ref(a.d['cell'])
    if isinstance(a, Unknown) or isinstance(a, Adt):
        m = re.match(r'^<(?:std::sync::)?Arc<(.*)> as Deref>::deref$', callee)
        cid = st.alloc(Unknown(m.group(1) if m else '?'))
        return Ref(cid)
    raise Stuck('arc deref of ' + repr(a))
def m_lock(I, st, fr, callee, args, dty, dest, ret_bb):
    l = deref(I, st, args[0])
    cell = l.d['cell'] if isinstance(l, Obj) and 'cell' in l.d else st.alloc(Unknown('?'))
    return leaf_future('ready', val=Obj('guard', cell=cell))

def install(I):
    I._extra_states = []
    M = I.models
    M += [
        (R(r'IntoFuture>::into_future$'), m_identity),
        (R(r'^Pin::<.*>::new_unchecked$'), m_pin_new),
        (R(r'as Try>::branch$'), m_try_branch),
        (R(r'as FromResidual<.*>>::from_residual$'), m_from_residual),
        (R(r'(ResultExt|OptionExt)<.*>>::(context|with_context)::<'), m_context),
        (R(r'Snafu(::<.*>)?::fail(::<.*>)?$'), m_fail),
        (R(r'Snafu(::<.*>)?::build$'), m_build),
        (R(r'Result::<.*>::map_err::<.*Into<.*>>::into\}>$'), m_identity),
        (R(r'Result::<.*>::(is_ok|is_err)$'), m_is_ok),
        (R(r'Option::<.*>::map::<'), m_option_map),
        (R(r'^std::mem::drop::<'), m_unit),
        (R(r'^must_use::<'), m_identity),
        (R(r'tokio::sync::(Mutex|RwLock)::<.*>::(lock|read|write)$'), m_lock),
        (R(r'Future>::poll$'), m_poll_leaf),
        (R(r'^<(std::sync::)?Arc<.*> as Deref>::deref$'), m_arc_deref),
        (R(r'^<tokio::sync::(RwLockReadGuard|RwLockWriteGuard|MutexGuard)<.*> as Deref>::deref$'), m_arc_deref),
        (R(r'^<(Vec<.*>|std::string::String|std::path::PathBuf) as Deref>::deref$'), m_identity),
        (R(r'^std::path::Path::join::<'), m_path_join),
        (R(r'^tokio::fs::read::<'), m_fs_read),
        (R(r'^tokio::fs::write::<'), m_fs_write),
        (R(r'^std::io::Error::kind$'), m_io_kind),
        (R(r'^to_vec::<'), m_to_vec),
        (R(r'^from_slice::<'), m_from_slice),
        (R(r'^<DateTime<Utc> as PartialOrd>::(le|lt|ge|gt)$'), m_dt_cmp),
        (R(r'^Utc::now$'), m_now),
    ]
