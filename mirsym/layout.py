"""Field order of repo structs and variant order of repo enums, read from /repo's current sources.
MIR numbers fields/variants in declaration order; harnesses name them and look the number up here,
so a re-ordering in the source is followed instead of silently mis-wiring a harness."""
import os, re
import dump

_cache = {}

def _strip(src):
    src = re.sub(r'//[^\n]*', '', src)
    src = re.sub(r'/\*.*?\*/', '', src, flags=re.S)
    return src

def _split_top(body):
    out, depth, cur = [], 0, ''
    for ch in body:
        if ch in '({[<': depth += 1
        elif ch in ')}]>': depth -= 1
        if ch == ',' and depth == 0: out.append(cur); cur = ''
        else: cur += ch
    if cur.strip(): out.append(cur)
    return out

def _match_brace(s, i):
    d = 0
    for j in range(i, len(s)):
        if s[j] == '{': d += 1
        elif s[j] == '}':
            d -= 1
            if d == 0: return j
    return len(s) - 1

def scan():
    if _cache: return _cache
    structs, enums = {}, {}
    for crate in ('tough/src', 'olpc-cjson/src', 'tuftool/src'):
        for root, _, files in os.walk(os.path.join(dump.REPO, crate)):
            for f in sorted(files):
                if not f.endswith('.rs'): continue
                rel = os.path.relpath(os.path.join(root, f), dump.REPO)
                src = _strip(open(os.path.join(root, f)).read())
                for m in re.finditer(r'\b(struct|enum)\s+(\w+)\s*(?:<[^{;(]*>)?\s*(?:where[^{]*)?\{', src):
                    kind, name = m.group(1), m.group(2)
                    j = _match_brace(src, m.end() - 1)
                    body = src[m.end():j]
                    body = re.sub(r'#\[[^\]]*\]', '', body)      # attributes (no nested brackets in this repo's field attrs)
                    body = re.sub(r'#\[[^\]]*\([^)]*\)[^\]]*\]', '', body)
                    names = []
                    for part in _split_top(body):
                        mm = re.match(r'\s*(?:pub(?:\([^)]*\))?\s+)?(\w+)', part)
                        if mm: names.append(mm.group(1))
                    (structs if kind == 'struct' else enums).setdefault(name, []).append((rel, names))
    _cache['structs'], _cache['enums'] = structs, enums
    return _cache

def fields(name, file_hint=None):
    c = scan()['structs'].get(name)
    if not c: raise KeyError('struct ' + name)
    if file_hint:
        for rel, n in c:
            if file_hint in rel: return n
    return c[0][1]

def F(struct, field, file_hint=None):
    """MIR field index of struct.field"""
    return fields(struct, file_hint).index(field)

def variants(name, file_hint=None):
    c = scan()['enums'].get(name)
    if not c: raise KeyError('enum ' + name)
    if file_hint:
        for rel, n in c:
            if file_hint in rel: return n
    return c[0][1]

def all_enums():
    return {k: v[0][1] for k, v in scan()['enums'].items() if len(v) == 1}

if __name__ == '__main__':
    import sys
    print(fields(sys.argv[1]) if sys.argv[1] in scan()['structs'] else variants(sys.argv[1]))
