"""Generic contract models for std Option / Vec / HashMap / Clone, used by the editor-side checks (C10, C17, C19, C20).

HashMap values are modelled functionally:
  Obj('fmap', f=<python closure: key term -> value term>)   for maps whose keys are identified by a z3 key id (TargetName, unknown member names);
      value 0 = absent.  new = \\k.0, insert(m,k0,v) = \\k. k==k0 ? v : m(k), extend(m,o) = \\k. o(k)!=0 ? o(k) : m(k)
  Obj('smap', entries=[(key object, value)])                 for small maps with program-built string keys (snapshot / timestamp meta)
"""
import z3, re
from sym import *
from models import *

BV64 = lambda v: z3.BitVecVal(v, 64)
VAL = z3.BitVecSort(16)
def V0(): return z3.BitVecVal(0, 16)

def dr(I, s, v):
    v = mat(I, s, v)
    while isinstance(v, Ref): v = mat(I, s, I.deref_load(s, v))
    return v

def deep_clone(I, s, v):
    """clone that also copies the heap cells behind Vec elements (Rust's Clone is deep for owned containers)"""
    if isinstance(v, Unknown): v = mat(I, s, v)
    if isinstance(v, Adt):
        return Adt(v.ty, v.discr, {k: deep_clone(I, s, x) for k, x in v.fields.items()})
    if isinstance(v, Obj):
        if v.kind == 'vec' and 'elems' in v.d:
            return Obj('vec', **{**{k: x for k, x in v.d.items() if k != 'elems'}, 'elems': [s.alloc(deep_clone(I, s, s.heap[c])) for c in v.d['elems']]})
        return Obj(v.kind, **{k: deep_clone(I, s, x) if isinstance(x, (Adt, Obj, Unknown)) else clone(x) for k, x in v.d.items()})
    return clone(v)

def m_clone_deep(I, s, fr, c, a, d, de, rb): return deep_clone(I, s, dr(I, s, a[0]))

# ------------------------------------------------------------------ Option
def opt_parts(I, s, o):
    o = mat(I, s, o); return o, discr_of(I, s, o)

def m_opt_as_ref(I, s, fr, c, a, d, de, rb):
    r = mat(I, s, a[0])
    if not isinstance(r, Ref): raise Stuck('Option::as_ref on non-ref')
    o = dr(I, s, r); dd = discr_of(I, s, o)
    return Adt('Option', dd, {('Some', 0): Ref(r.cid, list(r.path) + [('f', 'Some', 0, '?')])})

def m_opt_unwrap_or_default(I, s, fr, c, a, d, de, rb):
    o, dd = opt_parts(I, s, a[0])
    if 'HashMap' in c: dflt = Obj('fmap', f=lambda k: V0())
    elif 'Vec' in c: dflt = Obj('vec', elems=[])
    else: raise Stuck('unwrap_or_default for ' + c)
    if isinstance(dd, int): return get_field(I, s, o, 'Some', 0) if dd == 1 else dflt
    some = get_field(I, s, o, 'Some', 0)
    return Forks([(dd == 1, some, None), (dd == 0, dflt, None)])

def m_opt_is_some(I, s, fr, c, a, d, de, rb):
    o = dr(I, s, a[0]); dd = discr_of(I, s, o); want = 1 if c.endswith('is_some') else 0
    return z3.BoolVal(dd == want) if isinstance(dd, int) else (dd == want)

def m_opt_ok_or(I, s, fr, c, a, d, de, rb):
    o, dd = opt_parts(I, s, a[0])
    nd = (1 - dd) if isinstance(dd, int) else z3.If(dd == 1, BV64(0), BV64(1))
    return mk_result(ok=get_field(I, s, o, 'Some', 0), err=mat(I, s, a[1]), discr=nd)

def m_opt_take(I, s, fr, c, a, d, de, rb):
    r = mat(I, s, a[0]); o = dr(I, s, r)
    I.deref_store(s, r, mk_none()); return o

def m_opt_get_or_insert_with(I, s, fr, c, a, d, de, rb):
    r = mat(I, s, a[0]); o = dr(I, s, r); dd = discr_of(I, s, o)
    def fill(s2):
        if 'HashMap' in c: I.deref_store(s2, r, mk_some(Obj('fmap', f=lambda k: V0())))
        elif 'Vec' in c: I.deref_store(s2, r, mk_some(Obj('vec', elems=[])))
        else: raise Stuck('get_or_insert_with for ' + c)
    ref = Ref(r.cid, list(r.path) + [('f', 'Some', 0, '?')])
    if isinstance(dd, int):
        if dd == 0: fill(s)
        return ref
    return Forks([(dd == 1, ref, None), (dd == 0, ref, fill)])

def m_opt_unwrap(I, s, fr, c, a, d, de, rb):
    o, dd = opt_parts(I, s, a[0])
    if isinstance(dd, int):
        if dd == 1: return get_field(I, s, o, 'Some', 0)
        s.result = Obj('panic', msg='unwrap on None'); s.frames = []; return States([s])
    s.pc.append(dd == 1); return get_field(I, s, o, 'Some', 0)

# ------------------------------------------------------------------ Vec
def m_vec_new(I, s, fr, c, a, d, de, rb): return Obj('vec', elems=[])
def m_vec_push(I, s, fr, c, a, d, de, rb):
    v = dr(I, s, a[0]); v.d['elems'] = v.d['elems'] + [s.alloc(mat(I, s, a[1]))]; return unit()
def m_vec_extend(I, s, fr, c, a, d, de, rb):
    v = dr(I, s, a[0]); o = dr(I, s, a[1])
    v.d['elems'] = v.d['elems'] + list(o.d['elems']); return unit()
def m_vec_append(I, s, fr, c, a, d, de, rb):
    v = dr(I, s, a[0]); o = dr(I, s, a[1])
    v.d['elems'] = v.d['elems'] + list(o.d['elems']); o.d['elems'] = []; return unit()
def m_vec_is_empty(I, s, fr, c, a, d, de, rb):
    v = dr(I, s, a[0]); return z3.BoolVal(len(v.d['elems']) == 0)
def m_vec_len(I, s, fr, c, a, d, de, rb):
    v = dr(I, s, a[0]); return BV64(len(v.d['elems']))
def m_vec_iter(I, s, fr, c, a, d, de, rb):
    v = mat(I, s, a[0])
    return Obj('iter', vec=v if isinstance(v, Ref) else s_alloc_ref(s, v), pos=0, owned=not isinstance(v, Ref))
def s_alloc_ref(s, v): return Ref(s.alloc(v))
def m_iter_next(I, s, fr, c, a, d, de, rb):
    it = dr(I, s, a[0]); vec = dr(I, s, it.d['vec']); elems = vec.d['elems']
    if it.d['pos'] < len(elems):
        cell = elems[it.d['pos']]; it.d['pos'] += 1
        return mk_some(s.heap[cell] if it.d.get('owned') else Ref(cell))
    return mk_none()

# ------------------------------------------------------------------ HashMap
def m_fmap_new(I, s, fr, c, a, d, de, rb):
    if re.search(r'HashMap::<std::string::String, Metafile>', c): return Obj('smap', entries=[])
    return Obj('fmap', f=lambda k: V0())
def key_term(I, s, k):
    k = dr(I, s, k)
    if isinstance(k, Adt) and (None, 'nid') in k.fields: return k.fields[(None, 'nid')]
    if isinstance(k, Obj) and 'nid' in k.d: return k.d['nid']
    raise Stuck(f'map key without id: {k!r}')
def val_term(I, s, v):
    v = dr(I, s, v)
    if isinstance(v, Obj) and 'vid' in v.d: return v.d['vid']
    if isinstance(v, Adt) and (None, 'vid') in v.fields: return v.fields[(None, 'vid')]
    raise Stuck(f'map value without id: {v!r}')
def m_map_insert(I, s, fr, c, a, d, de, rb):
    m = dr(I, s, a[0])
    if m.kind == 'smap':
        m.d['entries'] = m.d['entries'] + [(dr(I, s, a[1]), mat(I, s, a[2]))]; return mk_none()
    k0 = key_term(I, s, a[1]); v = val_term(I, s, a[2]); old = m.d['f']
    m.d['f'] = lambda k: z3.If(k == k0, v, old(k))
    s.events.append(('map.insert', k0, v))
    return Adt('Option', z3.If(old(k0) != 0, BV64(1), BV64(0)), {('Some', 0): Obj('opaque')})
def m_map_extend(I, s, fr, c, a, d, de, rb):
    m = dr(I, s, a[0]); o = dr(I, s, a[1]); f, g = m.d['f'], o.d['f']
    m.d['f'] = lambda k: z3.If(g(k) != 0, g(k), f(k)); return unit()
def m_map_remove(I, s, fr, c, a, d, de, rb):
    m = dr(I, s, a[0]); k0 = key_term(I, s, a[1]); old = m.d['f']
    m.d['f'] = lambda k: z3.If(k == k0, V0(), old(k))
    return Adt('Option', z3.If(old(k0) != 0, BV64(1), BV64(0)), {('Some', 0): Obj('opaque')})

def m_map_clear(I, s, fr, c, a, d, de, rb):
    m = dr(I, s, a[0]); m.d['f'] = lambda k: V0(); return unit()
def m_opt_map_or(I, s, fr, c, a, d, de, rb):
    """Option::map_or(default, f): run the closure from MIR when Some"""
    o = mat(I, s, a[0]); dd = discr_of(I, s, o); dflt = mat(I, s, a[1]); clos = mat(I, s, a[2])
    fn = I.resolve_closure(clos.ty if isinstance(clos, (Adt, Unknown)) else '')
    if fn is None: raise Stuck('closure for Option::map_or not found')
    out = []
    for want in (0, 1):
        if isinstance(dd, int):
            if dd != want: continue
            s2 = s
        else:
            if not I.feasible(s, extra=(dd == want)): continue
            s2 = s.clone(); s2.pc.append(dd == want)
        if want == 0: I.finish_call(s2, de, rb, dflt)
        else: I.push_call(s2, fn, [clos, get_field(I, s2, mat(I, s2, a[0]) if s2 is s else o, 'Some', 0)], de, rb)
        out.append(s2)
    return States(out)
def m_log_off(I, s, fr, c, a, d, de, rb): return z3.BoolVal(False)
def m_log_level(I, s, fr, c, a, d, de, rb): return Adt('LevelFilter', 0, {})

STD_MODELS = [
    (R(r'^HashMap::<.*>::clear$'), m_map_clear), (R(r'^std::option::Option::<.*>::map_or::<'), m_opt_map_or),
    (R(r'^<Level as PartialOrd<LevelFilter>>::le$'), m_log_off), (R(r'^(log::)?max_level$'), m_log_level),
    (R(r'^<(HashMap<.*>|Vec<.*>|std::option::Option<.*>|schema::Signed<.*>|Root|KeyHolder|Delegations|Targets|DelegatedRole|schema::Target|TargetName|std::string::String|Box<dyn .*>|Limits|DateTime<Utc>|Decoded<.*>|Value|std::path::PathBuf|Url) as Clone>::clone$'), m_clone_deep),
    (R(r'^std::option::Option::<.*>::(as_ref|as_mut)$'), m_opt_as_ref),
    (R(r'^std::option::Option::<.*>::unwrap_or_default$'), m_opt_unwrap_or_default),
    (R(r'^std::option::Option::<.*>::(is_some|is_none)$'), m_opt_is_some),
    (R(r'^std::option::Option::<.*>::ok_or::<'), m_opt_ok_or),
    (R(r'^std::option::Option::<.*>::take$'), m_opt_take),
    (R(r'^std::option::Option::<.*>::get_or_insert_with::<'), m_opt_get_or_insert_with),
    (R(r'^std::option::Option::<.*>::unwrap$'), m_opt_unwrap),
    (R(r'^Vec::<.*>::new$'), m_vec_new), (R(r'^Vec::<.*>::push$'), m_vec_push), (R(r'^<Vec<.*> as Extend<.*>>::extend::<Vec<'), m_vec_extend),
    (R(r'^Vec::<.*>::append$'), m_vec_append), (R(r'^Vec::<.*>::is_empty$'), m_vec_is_empty), (R(r'^Vec::<.*>::len$'), m_vec_len),
    (R(r'^<&Vec<.*> as IntoIterator>::into_iter$'), m_vec_iter), (R(r'^<Vec<.*> as IntoIterator>::into_iter$'), m_vec_iter), (R(r'^core::slice::<impl \[.*\]>::iter$'), m_vec_iter),
    (R(r'^<std::slice::Iter<.*> as Iterator>::next$'), m_iter_next), (R(r'^<std::vec::IntoIter<.*> as Iterator>::next$'), m_iter_next),
    (R(r'^HashMap::<.*>::new$'), m_fmap_new), (R(r'^HashMap::<.*>::insert$'), m_map_insert), (R(r'^<HashMap<.*> as Extend<.*>>::extend::<HashMap<'), m_map_extend),
    (R(r'^HashMap::<.*>::remove::<'), m_map_remove),
]
