"""History composition: per-function path summaries -> SMT relations -> k-cycle histories in one query.

A cycle is load_root ; load_timestamp ; load_snapshot ; load_targets over a shared datastore state
(slots timestamp.json / snapshot.json / targets.json = (present, parses, doc id)).  Each function's summary
(list of client.Path over parameter variables) is instantiated per cycle by substitution of its parameters.
"""
import itertools, z3
from client import *

def _consts(e, acc, seen):
    """uninterpreted constants occurring in e"""
    stack = [e]
    while stack:
        x = stack.pop()
        i = x.get_id()
        if i in seen: continue
        seen.add(i)
        if z3.is_const(x) and x.decl().kind() == z3.Z3_OP_UNINTERPRETED:
            acc[x.decl().name()] = x
        else:
            stack.extend(x.children())

def flat_params(P):
    out = []
    def walk(v):
        if isinstance(v, z3.ExprRef): out.append(v)
        elif isinstance(v, (list, tuple)):
            for x in v: walk(x)
        elif isinstance(v, dict):
            for x in v.values(): walk(x)
    walk(dict(P))
    return out

def slot_after(path, fname, pre):
    """post-state triple of datastore file `fname` on this path"""
    present, content = path.fs.get('/ds/' + fname, (z3.BoolVal(False), None))
    if content is None: return (z3.BoolVal(False), z3.BoolVal(False), pre[2])
    if content.kind == 'json': return (z3.BoolVal(True), z3.BoolVal(True), doc_id(content.d['val']))
    if content.kind == 'truncated': return (z3.BoolVal(True), z3.BoolVal(False), pre[2])
    if content.kind == 'file': return (present, content.d['parses'], doc_id(content.d['parsed']))
    raise Stuck('slot content ' + content.kind)

class FnSummary:
    def __init__(self, name, paths, P):
        self.name, self.P = name, P
        self.paths = [p for p in paths if p.cls != 'panic']
        self.params = {x.decl().name(): x for x in flat_params(P) if z3.is_const(x) and x.decl().kind() == z3.Z3_OP_UNINTERPRETED}
        # per path: free constants that are not parameters (fresh values created during execution)
        self.locals = []
        for p in self.paths:
            acc, seen = {}, set()
            for c in p.pc: _consts(c, acc, seen)
            self.locals.append({n: v for n, v in acc.items() if n not in self.params})

    def inst(self, tag, bind):
        """instantiate for one cycle.  bind: parameter-name -> term (unbound parameters become fresh per-cycle variables).
        returns (formula, ok Bool var, out id var, post slot vars, err-kind info)"""
        sub = []
        for n, v in self.params.items():
            if n in bind: sub.append((v, bind[n]))
            else: sub.append((v, z3.Const(f'{n}@{tag}', v.sort())))
        ok = z3.Bool(f'ok_{self.name}@{tag}'); out = z3.BitVec(f'out_{self.name}@{tag}', 8)
        older = z3.Bool(f'older_{self.name}@{tag}')      # rejected with OlderMetadata
        post = {f: (z3.Bool(f'post_{self.name}_{f}_present@{tag}'), z3.Bool(f'post_{self.name}_{f}_parses@{tag}'), z3.BitVec(f'post_{self.name}_{f}_id@{tag}', 8)) for f in DSFILES}
        disj = []
        for i, p in enumerate(self.paths):
            ren = sub + [(v, z3.Const(f'{n}@{tag}', v.sort())) for n, v in self.locals[i].items()]
            S = lambda t: z3.substitute(t, *ren)
            conj = [S(c) for c in p.pc]
            conj.append(ok == z3.BoolVal(p.ok))
            conj.append(older == z3.BoolVal('OlderMetadata' in p.cls))
            if p.ok: conj.append(out == S(doc_id(p.payload)))
            for f in DSFILES:
                pre = self.P.ds[f]
                a = slot_after(p, f, pre)
                conj += [post[f][0] == S(a[0]), post[f][1] == S(a[1])]
                conj.append(z3.Implies(S(a[0]), post[f][2] == S(a[2])))
            disj.append(z3.And(conj))
        return z3.Or(disj), ok, out, post, older

def bind_ds(S, pre):
    b = {}
    for f in DSFILES:
        for x, t in zip(S.P.ds[f], pre[f]): b[x.decl().name()] = t
    return b

class Cycle:
    """one update cycle as an SMT relation over (pre datastore, environment of the cycle)"""
    def __init__(self, sums, tag, pre, shipped=None, hop_ids=None):
        root_s, ts_s, sn_s, tg_s = sums
        self.tag = tag
        f = []
        # ---- load_root
        b = bind_ds(root_s, pre)
        if shipped is not None: b[root_s.P.shipped.decl().name()] = shipped
        if hop_ids is not None:
            for h, t in zip(root_s.P.hop, hop_ids): b[h.decl().name()] = t
        fr, ok_r, rid, post_r, older_r = root_s.inst(tag, b); f.append(fr)
        self.shipped = shipped if shipped is not None else z3.Const(f'{root_s.P.shipped.decl().name()}@{tag}', root_s.P.shipped.sort())
        self.hops = hop_ids if hop_ids is not None else [z3.Const(f'{h.decl().name()}@{tag}', h.sort()) for h in root_s.P.hop]
        # ---- load_timestamp
        b = bind_ds(ts_s, post_r); b[ts_s.P.root.decl().name()] = rid
        ft, ok_t, tid, post_t, older_t = ts_s.inst(tag, b)
        # ---- load_snapshot
        b = bind_ds(sn_s, post_t); b[sn_s.P.root.decl().name()] = rid; b[sn_s.P.ts.decl().name()] = tid
        fs_, ok_s, sid, post_s, older_s = sn_s.inst(tag, b)
        # ---- load_targets
        b = bind_ds(tg_s, post_s); b[tg_s.P.root.decl().name()] = rid; b[tg_s.P.sn.decl().name()] = sid
        fg, ok_g, gid, post_g, older_g = tg_s.inst(tag, b)
        # a failing step ends the cycle: later steps do not run (state unchanged)
        def same(a, c): return z3.And([z3.And(a[x][0] == c[x][0], a[x][1] == c[x][1], a[x][2] == c[x][2]) for x in DSFILES])
        f.append(z3.If(ok_r, ft, z3.And(z3.Not(ok_t), z3.Not(older_t), same(post_t, post_r))))
        f.append(z3.If(ok_t, fs_, z3.And(z3.Not(ok_s), z3.Not(older_s), same(post_s, post_t))))
        f.append(z3.If(ok_s, fg, z3.And(z3.Not(ok_g), z3.Not(older_g), same(post_g, post_s))))
        f += [z3.Implies(ok_t, ok_r), z3.Implies(ok_s, ok_t), z3.Implies(ok_g, ok_s)]
        self.formula = z3.And(f)
        self.ok = ok_g; self.ok_root, self.ok_ts, self.ok_sn = ok_r, ok_t, ok_s
        self.root, self.ts, self.sn, self.tg = rid, tid, sid, gid
        self.post = post_g; self.pre = pre
        self.post_root = post_r
        self.older = z3.Or(older_t, older_s, older_g)
        self.older_any = z3.Or(older_r, older_t, older_s, older_g)
        self.older_ts, self.older_sn, self.older_tg = older_t, older_s, older_g
        def pv(S, x): return z3.Const(f'{x.decl().name()}@{tag}', x.sort())
        self.chunks = [tuple(pv(root_s, x) for x in ch) for hc in root_s.P.hop_chunks for ch in hc] + \
                      [tuple(pv(S_, x) for x in ch) for S_ in (ts_s, sn_s, tg_s) for ch in S_.P.chunks]
        self.limits = [pv(S_, S_.P.maxsz) for S_ in (root_s, ts_s, sn_s, tg_s)]
        self.served = {'ts': pv(ts_s, ts_s.P.served), 'sn': pv(sn_s, sn_s.P.served), 'tg': pv(tg_s, tg_s.P.served)}
        self.env = {'ts': {k: pv(ts_s, ts_s.P[k]) for k in ('served_parses', 'fetch_err')},
                    'sn': {k: pv(sn_s, sn_s.P[k]) for k in ('served_parses', 'fetch_err')},
                    'tg': {k: pv(tg_s, tg_s.P[k]) for k in ('served_parses', 'fetch_err')},
                    'root': {'hop_fetch_err': [pv(root_s, x) for x in root_s.P.hop_fetch_err], 'hop_parses': [pv(root_s, x) for x in root_s.P.hop_parses],
                             'shipped_parses': pv(root_s, root_s.P.shipped_parses), 'max_updates': pv(root_s, root_s.P.max_updates)}}

class _Empty(dict):
    def __missing__(self, f): return (z3.BoolVal(False), z3.BoolVal(False), z3.BitVecVal(0, 8))
EMPTY_DS = _Empty()

def build_summaries(I, hops=1, io_faults=False, klens=((1, 1),), safe=False):
    """summaries for a history check: clock disabled (enforcement off) so that only the rollback machinery is in play.
    If the code touches datastore files other than the three trust files (temporary files ...), those become slots of the
    datastore state too and the summaries are rebuilt over the extended state."""
    for attempt in range(3):
        sums = []; extra = set()
        for name, pf, sf in (('root', root_params, summarize_load_root), ('ts', ts_params, summarize_load_timestamp),
                             ('sn', sn_params, summarize_load_snapshot), ('tg', tg_params, summarize_load_targets)):
            P = pf(hops, 1, 'h' + name) if name == 'root' else pf(1, 'h' + name)
            P['lkt_present'] = z3.BoolVal(False)
            if not safe: P['safe'] = z3.BoolVal(False)
            P['join_fails'] = z3.BoolVal(False)
            kw = {'io_faults': io_faults}
            if name == 'root': kw['klens'] = klens
            if name == 'tg': kw['no_deleg'] = True
            paths = sf(I, P, **kw)
            for p in paths:
                for k in p.fs:
                    f = k[len('/ds/'):] if k.startswith('/ds/') else None
                    if f and f not in DSFILES and f != 'latest_known_time.json' and '{' not in f: extra.add(f)
            sums.append(FnSummary(name, paths, P))
        if not extra: return sums
        DSFILES.extend(sorted(extra))
    return sums
