"""MIR text (rustc -Zunpretty=mir, nightly 1.97) -> python structures.  Prototype."""
import re, sys, collections

class Func:
    def __init__(s, name, args, ret):
        s.name, s.args, s.ret = name, args, ret
        s.locals = {}      # '_N' -> type string
        s.debug = {}       # debug name -> place text
        s.blocks = {}      # 'bbN' -> Block
        s.text = ''
class Block:
    def __init__(s, name, cleanup):
        s.name, s.cleanup, s.stmts, s.term = name, cleanup, [], None

# ---------- lexical helpers ------------------------------------------------
OPEN, CLOSE = '([{<', ')]}>'

def split_top(s, sep=','):
    """split s at top-level separators (not inside brackets/strings)."""
    out, depth, cur, i, n = [], 0, [], 0, len(s)
    while i < n:
        c = s[i]
        if c == '"':
            j = i + 1
            while j < n and s[j] != '"':
                if s[j] == '\\': j += 1
                j += 1
            cur.append(s[i:j+1]); i = j + 1; continue
        if c in '([{': depth += 1
        elif c in ')]}': depth -= 1
        elif c == '<' and _is_generic_open(s, i): depth += 1
        elif c == '>' and depth > 0 and _is_generic_close(s, i): depth -= 1
        if c == sep and depth == 0:
            out.append(''.join(cur).strip()); cur = []
        else:
            cur.append(c)
        i += 1
    last = ''.join(cur).strip()
    if last: out.append(last)
    return out

def _is_generic_open(s, i):
    # '<' is a generic bracket unless surrounded by spaces (comparison never appears in MIR text as infix)
    return True
def _is_generic_close(s, i):
    return not (i > 0 and s[i-1] in '-=')   # '->' and '=>' are not closers

def match_paren(s, i):
    """s[i] is an opener; return index of matching closer (round/square/curly only; <> tracked loosely)."""
    depth, n = 0, len(s)
    j = i
    while j < n:
        c = s[j]
        if c == '"':
            j += 1
            while j < n and s[j] != '"':
                if s[j] == '\\': j += 1
                j += 1
        elif c in '([{': depth += 1
        elif c in ')]}':
            depth -= 1
            if depth == 0: return j
        j += 1
    raise ValueError('unbalanced: ' + s[i:i+80])

# ---------- places -----------------------------------------------------------
# place AST: ('local','_5') | ('deref',p) | ('field',p,idx,type) | ('downcast',p,variant) | ('index',p,operandtext) | ('constindex',p,text)
def parse_place(s, i=0):
    s_ = s
    if s[i] == '(':
        if s[i+1] == '*':
            p, j = parse_place(s, i + 2)
            assert s[j] == ')', s[i:]
            p, j = ('deref', p), j + 1
        else:
            inner, j = parse_place(s, i + 1)
            if s.startswith(' as ', j):
                k = match_paren(s, i)
                p, j = ('downcast', inner, s[j+4:k]), k + 1
            elif s[j] == '.':
                k = match_paren(s, i)
                m = re.match(r'\.(\d+): ', s[j:])
                p, j = ('field', inner, int(m.group(1)), s[j+m.end():k]), k + 1
            else:
                raise ValueError('place? ' + s[i:i+100])
    else:
        m = re.match(r'_\d+', s[i:])
        if not m: raise ValueError('place? ' + s[i:i+100])
        p, j = ('local', m.group(0)), i + m.end()
    # postfix
    while j < len(s) and s[j] == '[':
        k = match_paren(s, j)
        inner = s[j+1:k]
        if re.match(r'_\d+$', inner): p = ('index', p, inner)
        else: p = ('constindex', p, inner)
        j = k + 1
    return p, j

def place_of(s):
    p, j = parse_place(s.strip())
    if j != len(s.strip()): raise ValueError('trailing in place: ' + s)
    return p

# ---------- operands / rvalues ----------------------------------------------
def parse_operand(t):
    t = t.strip()
    if t.startswith('no_retag '): t = t[9:]
    if t.startswith('copy '): return ('copy', place_of(t[5:]))
    if t.startswith('move '): return ('move', place_of(t[5:]))
    if t.startswith('const '): return ('const', t[6:])
    # bare fn item or other path used as operand
    return ('const', t)

BINOPS = {'Add','Sub','Mul','Div','Rem','BitXor','BitAnd','BitOr','Shl','Shr','Eq','Lt','Le','Ne','Ge','Gt','Cmp','Offset',
          'AddWithOverflow','SubWithOverflow','MulWithOverflow','AddUnchecked','SubUnchecked','MulUnchecked','ShlUnchecked','ShrUnchecked'}
UNOPS = {'Not','Neg','PtrMetadata'}

def parse_rvalue(t):
    t = t.strip()
    m = re.match(r'&(raw (const|mut) |mut |fake \w+ )?', t)
    if t.startswith('&') and not t.startswith('&&'):
        kind = (m.group(1) or '').strip()
        rest = t[m.end():]
        try: return ('ref', kind, place_of(rest))
        except ValueError: pass
    m = re.match(r'(\w+)\(', t)
    if m and t.endswith(')'):
        name = m.group(1)
        inner = t[m.end():-1]
        if name in BINOPS:
            a, b = split_top(inner)
            return ('binop', name, parse_operand(a), parse_operand(b))
        if name in UNOPS: return ('unop', name, parse_operand(inner))
        if name == 'discriminant': return ('discr', place_of(inner))
        if name == 'Len': return ('len', place_of(inner))
        if name == 'CopyForDeref': return ('use', ('copy', place_of(inner)))
        if name == 'ShallowInitBox': return ('opaque', t)
    # cast:  <operand> as <type> (<Kind>)
    m = re.match(r'^((?:no_retag )?(?:copy|move|const) .+) as (.+) \((\w+(?:\(.*\))?)\)$', t)
    if m:
        try: return ('cast', m.group(3), parse_operand(m.group(1)), m.group(2))
        except ValueError: pass
    if t.startswith(('copy ', 'move ', 'const ', 'no_retag ')):
        return ('use', parse_operand(t))
    # aggregates
    if t.startswith('(') and t.endswith(')') and match_paren(t, 0) == len(t) - 1:
        inner = t[1:-1].rstrip(',')
        return ('tuple', [parse_operand(x) for x in split_top(inner)] if inner.strip() else [])
    if t.startswith('[') and t.endswith(']'):
        inner = t[1:-1]
        parts = split_top(inner, ';')
        if len(parts) == 2: return ('repeat', parse_operand(parts[0]), parts[1])
        return ('array', [parse_operand(x) for x in split_top(inner)])
    # struct / closure / coroutine literal:  PATH { f: op, ... }
    if t.endswith('}'):
        k = t.rfind(' { ')
        # find the opening brace that matches the last '}'
        depth = 0
        for idx in range(len(t) - 1, -1, -1):
            if t[idx] == '}': depth += 1
            elif t[idx] == '{':
                depth -= 1
                if depth == 0: break
        head, body = t[:idx].strip(), t[idx+1:-1].strip()
        if head and not head.endswith('@'):
            fields = []
            for f in split_top(body):
                fm = re.match(r'(\w+): (.*)$', f, re.S)
                if not fm: break
                fields.append((fm.group(1), parse_operand(fm.group(2))))
            else:
                return ('struct', head, fields)
        if body == '' or True:
            pass
    # closure / unit-like literals with no captures, e.g. {closure@file:1:2: 3:4}
    if t.startswith('{') and t.endswith('}'): return ('struct', t, [])
    # enum variant / tuple struct ctor:  PATH(op, ...)   or unit PATH
    if t.endswith(')'):
        # find matching '(' of final ')'
        depth = 0
        for idx in range(len(t) - 1, -1, -1):
            if t[idx] == ')': depth += 1
            elif t[idx] == '(':
                depth -= 1
                if depth == 0: break
        head, inner = t[:idx], t[idx+1:-1]
        return ('variant', head, [parse_operand(x) for x in split_top(inner)])
    return ('variant', t, [])

# ---------- statements / terminators ----------------------------------------
def parse_targets(t):
    # "[return: bb1, unwind: bb2]" | "[0: bb1, otherwise: bb2]" | "bb3" | "unwind continue"
    t = t.strip()
    d = {}
    if t.startswith('['):
        for part in split_top(t[1:-1]):
            if ':' in part:
                k, v = part.split(':', 1)
                d[k.strip()] = v.strip()
            else:
                k, _, v = part.partition(' ')
                d[k.strip()] = v.strip()
    elif t.startswith('bb'):
        d['return'] = t
    else:
        d['unwind'] = t.replace('unwind ', '')
    return d

def parse_line(line):
    """returns ('stmt', ...) or ('term', ...)"""
    t = line.strip()
    if t.endswith(';'): t = t[:-1]
    if t == 'return': return ('term', ('return',))
    if t == 'unreachable': return ('term', ('unreachable',))
    if t.startswith('resume') or t.startswith('terminate') or t == 'abort': return ('term', ('resume',))
    if t.startswith('goto -> '): return ('term', ('goto', t[8:].strip()))
    if t.startswith('switchInt('):
        k = match_paren(t, 9)
        return ('term', ('switch', parse_operand(t[10:k]), parse_targets(t[k+1:].replace('->', '', 1))))
    if t.startswith('drop('):
        k = match_paren(t, 4)
        return ('term', ('drop', place_of(t[5:k]), parse_targets(t[k+1:].replace('->', '', 1))))
    if t.startswith('assert('):
        k = match_paren(t, 6)
        args = split_top(t[7:k])
        cond = args[0]
        neg = cond.startswith('!')
        return ('term', ('assert', parse_operand(cond[1:] if neg else cond), not neg, args[1], parse_targets(t[k+1:].replace('->', '', 1))))
    if t.startswith(('StorageLive(', 'StorageDead(', 'nop', 'FakeRead(', 'PlaceMention(', 'AscribeUserType(', 'Retag(', 'Coverage', 'ConstEvalCounter', 'Deinit(', 'assume(', 'BackwardIncompatibleDropHint')):
        return ('stmt', ('nop', t))
    if t.startswith('discriminant('):
        k = match_paren(t, 12)
        return ('stmt', ('setdiscr', place_of(t[13:k]), t[k+1:].replace('=', '', 1).strip()))
    # call terminator?  contains ' -> [return' / ' -> unwind' / ' -> bb'
    m = re.search(r'\) -> (\[.*\]|unwind .*|bb\d+)$', t)
    if m:
        head = t[:m.start()+1]
        targets = parse_targets(m.group(1))
        # dest = callee(args)   |  callee(args)
        dest = None
        eq = find_assign_eq(head)
        if eq is not None:
            dest = place_of(head[:eq]); head = head[eq+3:]
        # callee(args): find '(' matching the last ')'
        depth = 0
        for idx in range(len(head) - 1, -1, -1):
            if head[idx] == ')': depth += 1
            elif head[idx] == '(':
                depth -= 1
                if depth == 0: break
        callee, args = head[:idx].strip(), head[idx+1:-1]
        return ('term', ('call', dest, callee, [parse_operand(a) for a in split_top(args)], targets))
    eq = find_assign_eq(t)
    if eq is not None:
        return ('stmt', ('assign', place_of(t[:eq]), parse_rvalue(t[eq+3:])))
    raise ValueError('unparsed: ' + t[:200])

def find_assign_eq(t):
    """index of ' = ' that ends the leading place (place text is balanced)."""
    try:
        p, j = parse_place(t, 0)
    except Exception:
        return None
    if t.startswith(' = ', j): return j
    return None

def split_name_type(t):
    """'NAME: TYPE' -> (NAME, TYPE) splitting at the first ': ' outside brackets"""
    depth = 0
    for i, c in enumerate(t):
        if c in '([{<': depth += 1
        elif c in ')]}': depth -= 1
        elif c == '>' and i > 0 and t[i-1] not in '-=': depth -= 1
        elif c == ':' and depth == 0 and t[i:i+2] == ': ':
            return t[:i], t[i+2:]
    return t, ''

# ---------- file level -------------------------------------------------------
FN_RE = re.compile(r'^fn (.+?)\((.*)\) -> (.+) \{$')

def parse_file(path):
    funcs, consts, allocs = {}, {}, {}
    errors = collections.Counter()
    lines = open(path).read().split('\n')
    i, n = 0, len(lines)
    while i < n:
        ln = lines[i]
        if ln.startswith('fn '):
            m = FN_RE.match(ln)
            start = i
            # find end: line == '}'
            j = i + 1
            while j < n and lines[j] != '}': j += 1
            body = lines[i+1:j]
            if m:
                f = Func(m.group(1), m.group(2), m.group(3))
                f.text = '\n'.join(lines[start:j+1])
                parse_body(f, body, errors)
                funcs.setdefault(f.name, []).append(f)
            else:
                errors['fnhdr: ' + ln[:80]] += 1
            i = j + 1; continue
        if (ln.startswith('const ') or ln.startswith('static ')) and ln.rstrip().endswith(';'):
            m1 = re.match(r'^(?:const|static(?: mut)?) (.+) = (.*);$', ln)
            if m1:
                nm, ty = split_name_type(m1.group(1)); consts[nm] = ('inline', ty, m1.group(2))
            i += 1; continue
        if ln.startswith('const ') or ln.startswith('static '):
            m = re.match(r'^(?:const|static(?: mut)?) (.+) = \{$', ln)
            j = i + 1
            while j < n and lines[j] != '}': j += 1
            if m:
                nm, ty = split_name_type(m.group(1))
                f = Func(nm, '', ty)
                parse_body(f, lines[i+1:j], errors)
                consts[nm] = f
            i = j + 1; continue
        m = re.match(r'^(alloc\d+) \((?:static: ([\w:]+), )?.*size: (\d+).*\) \{\}$', ln)
        if m:
            allocs[m.group(1)] = {'static': m.group(2), 'size': int(m.group(3)), 'data': []}
            i += 1; continue
        m = re.match(r'^(alloc\d+) \((?:static: ([\w:]+), )?.*size: (\d+).*\) \{$', ln)
        if m:
            j = i + 1
            data = []
            while j < n and lines[j] != '}':
                data.append(lines[j]); j += 1
            allocs[m.group(1)] = {'static': m.group(2), 'size': int(m.group(3)), 'data': data}
            i = j + 1; continue
        m = re.match(r'^(alloc\d+) \((fn|static): (.+)\)$', ln)
        if m:
            allocs[m.group(1)] = {'static': m.group(3), 'size': 0, 'data': []}
            i += 1; continue
        i += 1
    return funcs, consts, allocs, errors

def parse_body(f, body, errors):
    cur = None
    for raw in body:
        t = raw.strip()
        if not t or t.startswith('//'): continue
        m = re.match(r'let (mut )?(_\d+): (.*);$', t)
        if m and cur is None:
            f.locals[m.group(2)] = m.group(3); continue
        m = re.match(r'debug (\S+) => (.*);$', t)
        if m and cur is None:
            f.debug.setdefault(m.group(1), m.group(2)); continue
        if cur is None and (t.startswith('scope ') or t == '}'): continue
        m = re.match(r'(bb\d+)( \(cleanup\))?: \{$', t)
        if m:
            cur = Block(m.group(1), bool(m.group(2))); f.blocks[cur.name] = cur; continue
        if t == '}':
            cur = None; continue
        if cur is None: continue
        try:
            kind, x = parse_line(t)
        except Exception as e:
            errors[type(e).__name__ + ': ' + re.sub(r'\d+', 'N', t)[:90]] += 1
            kind, x = 'stmt', ('unparsed', t)
        if kind == 'stmt': cur.stmts.append(x)
        else: cur.term = x
    # args
    for a in split_top(f.args):
        m = re.match(r'(_\d+): (.*)$', a, re.S)
        if m: f.locals[m.group(1)] = m.group(2)

if __name__ == '__main__':
    funcs, consts, allocs, errors = parse_file(sys.argv[1])
    nst = sum(len(b.stmts) + 1 for fs in funcs.values() for f in fs for b in f.blocks.values())
    print(len(funcs), 'fns', len(consts), 'consts', len(allocs), 'allocs', nst, 'stmts+terms;', sum(errors.values()), 'errors')
    for k, v in errors.most_common(40): print(v, k)
    kinds = collections.Counter()
    for fs in funcs.values():
        for f in fs:
            for b in f.blocks.values():
                for s in b.stmts:
                    kinds[s[0] + (':' + s[2][0] if s[0] == 'assign' else '')] += 1
                if b.term: kinds['T:' + b.term[0]] += 1
                else: kinds['T:NONE'] += 1
    print(kinds.most_common())
