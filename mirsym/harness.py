"""Per-check plumbing: MIR acquisition, obligation bookkeeping, verdicts, evidence, replay."""
import hashlib, json, os, re, subprocess, sys, time
import z3
import dump
from sym import Interp, State, Stuck

VERIF = os.path.dirname(os.path.dirname(os.path.abspath(__file__)))
REPO = dump.REPO
EVID = os.path.join(VERIF, 'evidence')
REPLAYS = os.path.join(EVID, 'replays')

ENUMS = {
    'DatastorePath': ['Path', 'TempDir'],
    'RoleType': ['Root', 'Snapshot', 'Targets', 'Timestamp', 'DelegatedTargets'],
    'ExpirationEnforcement': ['Safe', 'Unsafe'],
    'TransportErrorKind': ['UnsupportedUrlScheme', 'FileNotFound', 'Other'],
    'Prefix': ['None', 'Digest'],
    'PathSet': ['Paths', 'PathHashPrefixes'],
    'CharEscape': ['Quote', 'ReverseSolidus', 'Solidus', 'Backspace', 'FormFeed', 'LineFeed', 'CarriageReturn', 'Tab', 'AsciiControl'],
    'Ordering': ['Less', 'Equal', 'Greater'],
}

def enum_order_from_source(name, relpath):
    """variant order of a repo enum, read from the current source (so a re-ordering is followed)"""
    try:
        src = open(os.path.join(REPO, relpath)).read()
    except OSError:
        return None
    m = re.search(r'enum\s+%s\s*\{(.*?)\n\}' % re.escape(name), src, re.S)
    if not m: return None
    body = re.sub(r'//[^\n]*', '', m.group(1)); body = re.sub(r'#\[[^\]]*\]', '', body)
    out = []
    depth = 0; cur = ''
    for ch in body:
        if ch in '({[': depth += 1
        elif ch in ')}]': depth -= 1
        if ch == ',' and depth == 0:
            out.append(cur); cur = ''
        else: cur += ch
    out.append(cur)
    names = []
    for v in out:
        mm = re.match(r'\s*(\w+)', v)
        if mm: names.append(mm.group(1))
    return names or None

SOURCE_ENUMS = [('RoleType', 'tough/src/schema/mod.rs'), ('ExpirationEnforcement', 'tough/src/lib.rs'),
                ('TransportErrorKind', 'tough/src/transport.rs'), ('Prefix', 'tough/src/lib.rs'),
                ('DatastorePath', 'tough/src/datastore.rs'), ('PathSet', 'tough/src/schema/mod.rs')]

class Inconclusive(Exception): pass

class Run:
    def __init__(self, pid, tier='quick', seed=0, technique=''):
        self.pid, self.tier, self.seed = pid, tier, seed
        self.t0 = time.time()
        self.interps = {}
        self.mir_info = []
        self.functions = {}        # name -> sha256 of MIR text (functions actually executed)
        self.obl = []              # dicts: name, result, seconds
        self.counterexamples = []  # dicts
        self.reach_list = []
        self.samples = []
        self.assumptions = []
        self.bounds = {}
        self.models_used = set()
        self.notes = []
        self.solver_s = 0.0
        self.paths = 0
        self.inconclusive = []
        self.known_printed = []
        self.violations = []
        self.replayed = 0
        self.differential = {'scenarios': 0, 'agree': 0}
        # per-query cap; generous so that a loaded machine does not turn a decidable query into `unknown` (unknown is never a pass)
        self.timeout_ms = int(os.environ.get('VERIF_QUERY_TIMEOUT_MS', 120000 if tier == 'quick' else 600000))
        z3.set_param('smt.random_seed', seed % (2**31))
        z3.set_param('sat.random_seed', seed % (2**31))
        self.cvc5_checked = 0
        self.cvc5_disagree = 0
        self.exported = []

    # ---------------------------------------------------------------- MIR
    def interp(self, crate, also=()):
        """interpreter over the MIR of `crate` (plus the MIR of the crates in `also`, e.g. tuftool + tough)"""
        key = crate if not also else crate + '+' + '+'.join(also)
        if key in self.interps: return self.interps[key]
        path, info = dump.dump(crate)
        self.mir_info.append(info)
        extra_paths = []
        for c in also:
            p2, i2 = dump.dump(c); self.mir_info.append(i2); extra_paths.append(p2)
        enums = dict(ENUMS)
        import layout
        enums.update(layout.all_enums())          # every enum of the three crates, variant order read from the current source
        for name, rel in SOURCE_ENUMS:
            o = enum_order_from_source(name, rel)
            if o: enums[name] = o
        I = Interp([path] + extra_paths, enums=enums, solver_timeout=self.timeout_ms)
        I.repo_root = REPO
        I.error_variants = enum_order_from_source('Error', 'tough/src/error.rs') or []
        I.run_ctx = self
        # integrity: every `fn ` line of the dump must have become a function
        nfn = sum(1 for pp in [path] + extra_paths for l in open(pp) if l.startswith('fn '))
        got = sum(len(v) for v in I.funcs.values())
        if nfn != got: raise Inconclusive(f'MIR parser lost functions: {nfn} in dump, {got} parsed')
        if I.parse_errors:
            self.notes.append(f'{crate}: {sum(I.parse_errors.values())} unparsed MIR lines (not in executed functions unless Stuck)')
        self.interps[key] = I
        self._mir_paths = getattr(self, '_mir_paths', {}); self._mir_paths[crate] = path
        return I

    def mir_path(self, crate):
        self.interp(crate)
        return self._mir_paths[crate]

    def note_function(self, f):
        if f.name not in self.functions:
            self.functions[f.name] = hashlib.sha256(f.text.encode()).hexdigest()[:16]

    # ---------------------------------------------------------------- solving
    def _solve(self, assertions):
        s = z3.Solver(); s.set('timeout', self.timeout_ms)
        s.set('random_seed', self.seed % (2**31))
        for a in assertions: s.add(a)
        t = time.time(); r = s.check(); self.solver_s += time.time() - t
        return r, s

    def obligation(self, name, pc, formula, decode=None, group=None, tainted=None):
        """assert formula under path condition pc; unsat(pc & !formula) = holds.
        returns True if holds.  A sat result records a counterexample (decoded by `decode(model)`)."""
        t = time.time()
        key = tuple(id(c) for c in pc)
        if getattr(self, '_ps_key', None) != key:
            s = z3.Solver(); s.set('timeout', self.timeout_ms); s.set('random_seed', self.seed % (2**31))
            for c in pc: s.add(c)
            self._ps_key, self._ps, self._ps_pc = key, s, list(pc)     # keep pc alive so ids stay unique
        s = self._ps
        s.push(); s.add(z3.Not(formula))
        t1 = time.time(); r = s.check(); self.solver_s += time.time() - t1
        rec = {'name': name, 'result': str(r), 's': round(time.time() - t, 3)}
        if group: rec['group'] = group
        self.obl.append(rec)
        if self.tier == 'thorough' or len(self.exported) < 40:
            self.exported.append((name, s.to_smt2(), str(r)))
        if r == z3.unsat:
            s.pop(); return True
        if r == z3.unknown:
            # one retry in a fresh solver with a different seed and four times the budget before giving up
            s.pop()
            s2 = z3.Solver(); s2.set('timeout', self.timeout_ms * 4); s2.set('random_seed', (self.seed + 7919) % (2**31))
            for c in pc: s2.add(c)
            s2.add(z3.Not(formula))
            t1 = time.time(); r = s2.check(); self.solver_s += time.time() - t1
            rec['result'] = str(r); rec['retried'] = True
            if r == z3.unsat: return True
            if r == z3.unknown:
                self.inconclusive.append(f'solver unknown on "{name}" ({s2.reason_unknown()})'); return False
            m = s2.model(); s = None
        else:
            m = s.model()
        cx = {'obligation': name, 'group': group or name, 'tainted': list(tainted or [])}
        if decode is not None:
            try: cx['scenario'] = decode(m)
            except Exception as e:
                cx['scenario'] = None; cx['decode_error'] = repr(e)
        else:
            cx['model'] = {str(d): str(m[d]) for d in m.decls() if d.arity() == 0}
        self.counterexamples.append(cx)
        if s is not None: s.pop()
        return False

    def reach(self, name, pc, formula=None):
        """vacuity witness: pc (& formula) must be satisfiable"""
        r, s = self._solve(list(pc) + ([formula] if formula is not None else []))
        self.reach_list.append({'name': name, 'result': str(r)})
        if r != z3.sat:
            self.inconclusive.append(f'vacuity witness "{name}" is {r}: harness does not reach what it claims to cover')
        return r == z3.sat, (s.model() if r == z3.sat else None)

    def reach_any(self, name, pcs, formula=None):
        """vacuity witness over a set of paths: at least one must satisfy formula"""
        for pc in pcs:
            r, s = self._solve(list(pc) + ([formula] if formula is not None else []))
            if r == z3.sat:
                self.reach_list.append({'name': name, 'result': 'sat'}); return True
        self.reach_list.append({'name': name, 'result': 'unsat'})
        self.inconclusive.append(f'vacuity witness "{name}" unsatisfiable on all {len(pcs)} candidate paths')
        return False

    def check_interp_clean(self, I, label=''):
        hv = I.stats.get('havoc') or {}
        new = {k: v for k, v in hv.items() if k not in getattr(self, '_havoc_seen', {})}
        if new:
            self._havoc_seen = dict(hv)
            self.inconclusive.append(f'{label}: calls without a model were havoc\'d (results on those paths are not trusted): ' + ', '.join(sorted(new))[:400])
        st = I.stats.get('stuck')
        if st:
            kinds = sorted(set(f'{a} @ {b}:{c}' for a, b, c in st))
            self.inconclusive.append(f'{label}: interpreter stuck on {len(st)} path(s): ' + '; '.join(kinds[:4]))
            I.stats['stuck'] = []
        return not st

    # ---------------------------------------------------------------- cvc5 cross-check
    def cross_check(self, limit=None):
        """re-decide exported queries with cvc5 (binary); disagreement => inconclusive.
        At most VERIF_CVC5_MAX (default 400) queries, spread evenly over the exported ones, 8 solver processes at a time."""
        import shutil, tempfile
        from concurrent.futures import ThreadPoolExecutor
        if not shutil.which('cvc5'): self.notes.append('cvc5 binary not found; cross-check skipped'); return
        cap = int(os.environ.get('VERIF_CVC5_MAX', '400'))
        todo = self.exported if limit is None else self.exported[:limit]
        if len(todo) > cap:
            step = len(todo) / cap; todo = [todo[int(k * step)] for k in range(cap)]
            self.notes.append(f'cvc5 cross-check: {cap} of {len(self.exported)} exported queries (evenly spread)')
        def one(item):
            name, smt, zres = item
            with tempfile.NamedTemporaryFile('w', suffix='.smt2', dir=os.path.join(VERIF, '.cache'), delete=False) as f:
                f.write('(set-logic ALL)\n' + smt + '\n'); fn = f.name
            t = time.time()
            try:
                p = subprocess.run(['cvc5', '--lang', 'smt2', '--tlimit', str(self.timeout_ms), fn], capture_output=True, text=True, timeout=self.timeout_ms / 1000 + 10)
                out = p.stdout.strip().split('\n')[0] if p.stdout.strip() else 'error'
                if '(error' in p.stdout or '(error' in p.stderr: out = 'error'
            except subprocess.TimeoutExpired:
                out = 'timeout'
            finally:
                os.unlink(fn)
            return name, zres, out, time.time() - t
        with ThreadPoolExecutor(max_workers=8) as ex:
            for name, zres, out, dt in ex.map(one, todo):
                self.solver_cvc5_s = getattr(self, 'solver_cvc5_s', 0.0) + dt
                self.cvc5_checked += 1
                if out in ('sat', 'unsat') and zres in ('sat', 'unsat') and out != zres:
                    self.cvc5_disagree += 1
                    self.inconclusive.append(f'z3 ({zres}) and cvc5 ({out}) disagree on "{name}"')

    # ---------------------------------------------------------------- replay
    def replay_bin(self):
        """build the replay crate against /repo's current tree; returns path of the binary"""
        if getattr(self, '_replay_bin', None): return self._replay_bin
        env = dict(os.environ); env.update({'CARGO_TARGET_DIR': os.path.join(VERIF, '.cache', 'stable'), 'CARGO_NET_OFFLINE': 'true'})
        env.pop('RUSTUP_TOOLCHAIN', None)
        lock = os.path.join(VERIF, 'replay', 'Cargo.lock')
        t = time.time()
        r = subprocess.run(['cargo', 'build', '--offline', '--release', '-q'], cwd=os.path.join(VERIF, 'replay'), env=env, capture_output=True, text=True)
        if r.returncode != 0:
            raise Inconclusive('replay crate does not build against the current tree: ' + r.stderr[-1500:])
        self.replay_build_s = round(time.time() - t, 1)
        self._replay_bin = os.path.join(VERIF, '.cache', 'stable', 'release', 'replay')
        return self._replay_bin

    def replay(self, op, scenario, timeout=120):
        """run one scenario natively; returns parsed JSON result"""
        b = self.replay_bin()
        p = subprocess.run([b, op], input=json.dumps(scenario), capture_output=True, text=True, timeout=timeout)
        self.replayed += 1
        if p.returncode != 0:
            raise Inconclusive(f'replay {op} failed rc={p.returncode}: {p.stderr[-800:]}')
        line = [l for l in p.stdout.strip().split('\n') if l.startswith('{')][-1]
        return json.loads(line)

    # ---------------------------------------------------------------- verdict
    def known_findings(self):
        try: return json.load(open(os.path.join(VERIF, 'known_findings.json')))
        except OSError: return {'findings': [], 'fixed': []}

    def report_violation(self, what, scenario, finding_key=None):
        """called by a property module once a counterexample has been reproduced natively"""
        kf = [f for f in self.known_findings().get('findings', []) if f['property'] == self.pid and finding_key and f.get('key') == finding_key]
        if kf:
            if finding_key not in self.known_printed:
                self.known_printed.append(finding_key)
                print(f'KNOWN-FINDING: property={self.pid} {kf[0]["what"]}')
            return
        os.makedirs(REPLAYS, exist_ok=True)
        n = len(self.violations) + 1
        path = os.path.join(REPLAYS, f'{self.pid}-{n}.json')
        json.dump({'property': self.pid, 'what': what, 'scenario': scenario}, open(path, 'w'), indent=1, default=str)
        self.violations.append({'what': what, 'replay': path})
        print(f'VIOLATION property={self.pid} replay={path}')
        print(f'  {what}')

    def save_unreproduced(self, scenario, predicted=None, real=None):
        """keep a scenario on which encoding and native run disagree (diagnosis of the model, never a verdict); returns its path"""
        os.makedirs(REPLAYS, exist_ok=True)
        self._nunrep = getattr(self, '_nunrep', 0) + 1
        path = os.path.join(REPLAYS, f'{self.pid}-unreproduced-{self._nunrep}.json')
        json.dump({'property': self.pid, 'what': 'encoding and native run disagree (model diagnosis)', 'scenario': scenario, 'predicted': predicted, 'observed': real}, open(path, 'w'), indent=1, default=str)
        return path

    def finish(self, level='other', explanation='', rule='', extra=None):
        wall = round(time.time() - self.t0, 2)
        nun = sum(1 for o in self.obl if o['result'] == 'unsat'); nsat = sum(1 for o in self.obl if o['result'] == 'sat')
        nunk = sum(1 for o in self.obl if o['result'] == 'unknown')
        # fall-back replay: counterexamples exist, none was reproduced by the property's own decoder -> directed conformance scenarios of the
        # matching kind decide whether the real library misbehaves (a deviation is a reproduced violation; agreement leaves the run inconclusive)
        kinds = getattr(self, 'fallback_kinds', None)
        if kinds and nsat and not self.violations and not self.known_printed and any('counterexample' in x or 'violation of' in x for x in self.inconclusive):
            try:
                import menu
                if menu.run(self, set(kinds), 'fall-back replay of unreproduced counterexamples'):
                    self.inconclusive = [x for x in self.inconclusive if not ('counterexample' in x or 'violation of' in x)]
            except Exception as e:
                self.notes.append('fall-back menu failed: ' + repr(e)[:200])
        if nsat and not self.violations and not self.inconclusive and not self.known_printed:
            self.inconclusive.append(f'{nsat} obligation(s) have counterexamples in the encoding but none was replayed/reported')
        cov = {
            'explanation': explanation,
            'evaluations': len(self.obl) + len(self.reach_list),
            'distinct_nontrivial': self.paths,
            'rule': rule or 'evaluations = SMT queries discharged (obligations + vacuity witnesses); distinct_nontrivial = feasible symbolic paths of the encoded functions that reached an oracle',
            'samples': self.samples[:12] or [{'note': 'no sample recorded'}],
            'obligations': len(self.obl), 'discharged': nun, 'sat': nsat, 'unknown': nunk,
            'vacuity_witnesses': self.reach_list,
            'functions_encoded': self.functions,
            'mir': self.mir_info,
            'bounds': self.bounds,
            'models_used': sorted(self.models_used),
            'havoc_callees': {c: dict(I.stats.get('havoc', {})) for c, I in self.interps.items() if I.stats.get('havoc')},
            'solver_seconds': {'z3': round(self.solver_s + sum(I.solver_s for I in self.interps.values()), 2), 'cvc5': round(getattr(self, 'solver_cvc5_s', 0.0), 2)},
            'slowest_queries': [{'name': o['name'], 's': o['s'], 'retried': bool(o.get('retried'))} for o in sorted(self.obl, key=lambda o: -o['s'])[:5]],
            'query_cap_s': self.timeout_ms / 1000.0,
            'loop_bound': {'max_entries_of_one_block_per_activation_seen': max([I.stats.get('max_block_visits', 0) for I in self.interps.values()] + [0]), 'cut_at': max([I.max_block_visits for I in self.interps.values()] + [0])},
            'feasibility_queries': sum(I.nqueries for I in self.interps.values()),
            'cvc5_cross_checked': self.cvc5_checked, 'cvc5_disagreements': self.cvc5_disagree,
            'replayed_scenarios': self.replayed, 'differential': self.differential,
            'known_findings_printed': self.known_printed,
            'inconclusive': self.inconclusive, 'notes': self.notes,
            'obligation_groups': _group_counts(self.obl),
        }
        if extra: cov.update(extra)
        ev = {'property_id': self.pid, 'tier': self.tier, 'seed': self.seed, 'level': level, 'coverage': cov,
              'assumptions': self.assumptions, 'wall_s': wall, 'violations': len(self.violations)}
        os.makedirs(EVID, exist_ok=True)
        tmp = os.path.join(EVID, f'.{self.pid}.{os.getpid()}.tmp')
        json.dump(ev, open(tmp, 'w'), indent=1, default=str)
        os.replace(tmp, os.path.join(EVID, f'{self.pid}.json'))
        if self.violations:
            print(f'{self.pid}: {len(self.violations)} violation(s); {nun}/{len(self.obl)} obligations discharged; {wall}s'); return 1
        if self.inconclusive:
            for r in self.inconclusive[:10]: print(f'INCONCLUSIVE property={self.pid} reason={r}')
            return 2
        print(f'{self.pid}: holds within bounds — {nun}/{len(self.obl)} obligations unsat, {len(self.reach_list)} vacuity witnesses sat, '
              f'{self.paths} paths, {len(self.functions)} functions from MIR, {wall}s' + (f'; known findings: {len(self.known_printed)}' if self.known_printed else ''))
        return 0

def _group_counts(obl):
    g = {}
    for o in obl:
        k = o.get('group') or o['name']
        d = g.setdefault(k, {'unsat': 0, 'sat': 0, 'unknown': 0}); d[o['result']] = d.get(o['result'], 0) + 1
    return g
