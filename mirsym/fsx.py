"""File-system model with fault and crash points (POSIX semantics at the granularity tokio::fs exposes).

state:  st.env['fs'][path] = (present: Bool term, content)      content kinds: json / file / truncated / None
flags:  st.env['io_faults']    every call may fail with an I/O error (ENOSPC / EIO), leaving what was done so far
        st.env['crash_points'] the process may die after any step of any call (the path ends with result `crash`)
`tokio::fs::write` = open(O_CREAT|O_TRUNC) then write (two steps, as strace shows for the real library);
`rename` is atomic; a freshly created or truncated file is `truncated` (present, does not parse).
"""
import z3
from sym import *
from models import *

def _flags(st): return bool(st.env.get('io_faults')), bool(st.env.get('crash_points'))
def _ioerr(ek=39): return mk_ready(mk_err(Obj('ioerror', ek=ek)))
def _set(key, val, ev=None):
    def f(s2):
        s2.env['fs'] = dict(s2.env['fs']); s2.env['fs'][key] = val
        if ev: s2.events.append(ev)
    return f
def _ev(ev):
    def f(s2): s2.events.append(ev)
    return f
def B(n): return z3.Bool(fresh_name(n))

def op_fs_write(I, st, fut):
    key = fut.d['key']; content = fut.d['content']
    faults, crash = _flags(st)
    trunc = (z3.BoolVal(True), Obj('truncated', of=content))
    full = (z3.BoolVal(True), content)
    def done(s2):
        _set(key, full)(s2); s2.events.append(('fs.open_trunc', key)); s2.events.append(('fs.write', key, content))
    alts = []
    if faults:
        alts.append((B('open_fail'), _ioerr(), _ev(('fs.open_failed', key))))
        alts.append((B('write_fail'), _ioerr(), lambda s2: (_set(key, trunc)(s2), s2.events.append(('fs.open_trunc', key)), s2.events.append(('fs.write_failed', key)))))
    if crash:
        alts.append((B('crash_after_trunc'), CRASH, lambda s2: (_set(key, trunc)(s2), s2.events.append(('fs.open_trunc', key)), s2.events.append(('crash', 'after open_trunc ' + key)))))
        alts.append((B('crash_after_write'), CRASH, lambda s2: (done(s2), s2.events.append(('crash', 'after write ' + key)))))
    alts.append((None, mk_ready(mk_ok(unit())), done))
    return Forks(alts)

def op_fs_remove(I, st, fut):
    key = fut.d['key']; faults, crash = _flags(st)
    present, content = st.env['fs'].get(key, (z3.BoolVal(False), None))
    gone = (z3.BoolVal(False), None)
    alts = []
    if faults: alts.append((B('rm_fail'), _ioerr(), _ev(('fs.unlink_failed', key))))
    if crash: alts.append((z3.And(present, B('crash_after_unlink')), CRASH, lambda s2: (_set(key, gone)(s2), s2.events.append(('fs.unlink', key)), s2.events.append(('crash', 'after unlink ' + key)))))
    alts.append((present, mk_ready(mk_ok(unit())), _set(key, gone, ('fs.unlink', key))))
    alts.append((z3.Not(present), mk_ready(mk_err(Obj('ioerror', ek=0))), None))
    return Forks(alts)

def op_fs_rename(I, st, fut):
    src, dst = fut.d['src'], fut.d['dst']; faults, crash = _flags(st)
    present, content = st.env['fs'].get(src, (z3.BoolVal(False), None))
    def mv(s2):
        fs = dict(s2.env['fs']); fs[dst] = (z3.BoolVal(True), content); fs[src] = (z3.BoolVal(False), None); s2.env['fs'] = fs
        s2.events.append(('fs.rename', src, dst))
    alts = []
    if faults: alts.append((B('rename_fail'), _ioerr(), _ev(('fs.rename_failed', src, dst))))
    if crash: alts.append((z3.And(present, B('crash_after_rename')), CRASH, lambda s2: (mv(s2), s2.events.append(('crash', 'after rename ' + dst)))))
    alts.append((present, mk_ready(mk_ok(unit())), mv))
    alts.append((z3.Not(present), mk_ready(mk_err(Obj('ioerror', ek=0))), None))
    return Forks(alts)

def op_file_create(I, st, fut):
    """File::create (O_TRUNC) / File::create_new (O_EXCL)"""
    key = fut.d['key']; excl = fut.d.get('excl'); faults, crash = _flags(st)
    present, content = st.env['fs'].get(key, (z3.BoolVal(False), None))
    empty = (z3.BoolVal(True), Obj('truncated', of=None))
    handle = Obj('file_handle', key=key)
    alts = []
    if faults: alts.append((B('create_fail'), _ioerr(), _ev(('fs.create_failed', key))))
    if excl:
        alts.append((present, mk_ready(mk_err(Obj('ioerror', ek=12))), _ev(('fs.create_exists', key))))      # AlreadyExists
        if crash: alts.append((z3.And(z3.Not(present), B('crash_after_create')), CRASH, lambda s2: (_set(key, empty)(s2), s2.events.append(('crash', 'after create ' + key)))))
        alts.append((z3.Not(present), mk_ready(mk_ok(handle)), _set(key, empty, ('fs.create_new', key))))
    else:
        if crash: alts.append((B('crash_after_create'), CRASH, lambda s2: (_set(key, empty)(s2), s2.events.append(('crash', 'after create ' + key)))))
        alts.append((None, mk_ready(mk_ok(handle)), _set(key, empty, ('fs.open_trunc', key))))
    return Forks(alts)

def op_file_write_all(I, st, fut):
    key = fut.d['key']; content = fut.d['content']; faults, crash = _flags(st)
    full = (z3.BoolVal(True), content)
    alts = []
    if faults: alts.append((B('write_fail'), _ioerr(), _ev(('fs.write_failed', key))))
    if crash: alts.append((B('crash_after_write'), CRASH, lambda s2: (_set(key, full)(s2), s2.events.append(('fs.write', key, content)), s2.events.append(('crash', 'after write ' + key)))))
    def ok(s2):
        # tokio::fs::File buffers the data and writes it on the blocking pool: write_all returning Ok does not mean the bytes are in the file yet
        _set(key, full, ('fs.write', key, content))(s2)
        s2.env['pending'] = dict(s2.env.get('pending') or {}); s2.env['pending'][key] = True
    alts.append((None, mk_ready(mk_ok(unit())), ok))
    return Forks(alts)

def op_file_flush(I, st, fut):
    faults, crash = _flags(st); key = fut.d.get('key')
    def done(s2):
        s2.env['pending'] = dict(s2.env.get('pending') or {}); s2.env['pending'].pop(key, None); s2.events.append(('fs.flush', key))
    alts = []
    if faults: alts.append((B('flush_fail'), _ioerr(), None))
    alts.append((None, mk_ready(mk_ok(unit())), done))
    return Forks(alts)

def m_fs_write(I, st, fr, callee, args, dty, dest, ret_bb):
    v = deref(I, st, args[1])
    return leaf_future('fs_write', key=path_key(I, st, args[0]), content=v.d.get('content') if isinstance(v, Obj) else v)
def m_fs_remove(I, st, fr, callee, args, dty, dest, ret_bb): return leaf_future('fs_remove', key=path_key(I, st, args[0]))
def m_fs_rename(I, st, fr, callee, args, dty, dest, ret_bb): return leaf_future('fs_rename', src=path_key(I, st, args[0]), dst=path_key(I, st, args[1]))
def m_file_create(I, st, fr, callee, args, dty, dest, ret_bb): return leaf_future('file_create', key=path_key(I, st, args[0]), excl='create_new' in callee)
def _handle(I, st, v):
    h = deref(I, st, v)
    while isinstance(h, Ref): h = I.deref_load(st, h)
    if isinstance(h, Adt):
        for x in h.fields.values():
            if isinstance(x, Obj) and x.kind == 'file_handle': return x
    if isinstance(h, Obj) and h.kind == 'file_handle': return h
    raise Stuck('not a file handle: ' + repr(h)[:60])
def m_file_write_all(I, st, fr, callee, args, dty, dest, ret_bb):
    h = _handle(I, st, args[0]); v = deref(I, st, args[1])
    while isinstance(v, Ref): v = I.deref_load(st, v)
    return leaf_future('file_write_all', key=h.d['key'], content=v.d.get('content') if isinstance(v, Obj) else v)
def m_file_flush(I, st, fr, callee, args, dty, dest, ret_bb):
    try: key = _handle(I, st, args[0]).d['key']
    except Stuck: key = None
    return leaf_future('file_flush', key=key)
def m_path_with_extension(I, st, fr, callee, args, dty, dest, ret_bb):
    p = path_key(I, st, args[0]); e = path_key(I, st, args[1])
    stem = p.rsplit('.', 1)[0] if '.' in p.rsplit('/', 1)[-1] else p
    return Obj('path', key=stem + '.' + e)
def m_path_identity(I, st, fr, callee, args, dty, dest, ret_bb):
    return Obj('path', key=path_key(I, st, args[0]))

def install_fsx(I):
    LEAF_OPS.update({'fs_write': op_fs_write, 'fs_remove': op_fs_remove, 'fs_rename': op_fs_rename, 'file_create': op_file_create,
                     'file_write_all': op_file_write_all, 'file_flush': op_file_flush})
    I.models[:0] = [
        (R(r'^tokio::fs::write::<'), m_fs_write), (R(r'^tokio::fs::remove_file::<'), m_fs_remove), (R(r'^tokio::fs::rename::<'), m_fs_rename),
        (R(r'^tokio::fs::File::(create|create_new)::<'), m_file_create),
        (R(r'AsyncWriteExt>::write_all'), m_file_write_all), (R(r'AsyncWriteExt>::(flush|shutdown)'), m_file_flush), (R(r'^tokio::fs::File::(sync_all|sync_data)$'), m_file_flush),
        (R(r'^std::path::Path::with_extension::<'), m_path_with_extension), (R(r'^<std::path::PathBuf as Deref>::deref$'), m_path_identity),
        (R(r'^std::path::Path::to_path_buf$'), m_path_identity), (R(r'^<std::path::PathBuf as AsRef<std::path::Path>>::as_ref$'), m_path_identity),
    ]
