"""C20 native driver: random sequences of `tuftool root` subcommands against the real binary (built from /repo's current tree),
checked after every invocation by an independent reader (replay op root_check) and a reference model of the file."""
import json, os, random, shutil, subprocess, tempfile

ROLES = ['root', 'snapshot', 'targets', 'timestamp']

def build_tuftool(verif):
    env = dict(os.environ); env.update({'CARGO_TARGET_DIR': os.path.join(verif, '.cache', 'tuftool'), 'CARGO_NET_OFFLINE': 'true'}); env.pop('RUSTUP_TOOLCHAIN', None)
    r = subprocess.run(['cargo', 'build', '-p', 'tuftool', '--offline', '-q'], cwd='/repo', env=env, capture_output=True, text=True)
    if r.returncode != 0: raise RuntimeError('tuftool does not build: ' + r.stderr[-1500:])
    return os.path.join(verif, '.cache', 'tuftool', 'debug', 'tuftool')

class Model:
    """what root.json should contain"""
    def __init__(s): s.exists = False
    def init(s, version):
        s.exists = True; s.version = version; s.keys = set(); s.roles = {r: {'threshold': 1507, 'keyids': []} for r in ROLES}; s.sigs = []; s.sig_origin = {}
    def clear(s): s.sigs = []; s.sig_origin = {}

def run_sequence(tuftool, replay, seed, length, log):
    rng = random.Random(seed)
    work = tempfile.mkdtemp(prefix='c20-')
    try:
        keys = replay('gen_keyfiles', {'dir': work, 'n': 3})['keys']
        nkeys = rng.randint(1, 3)
        keys = rng.sample(keys, min(len(keys), nkeys + 1))[:max(1, nkeys)] if rng.random() < 0.7 else keys[:nkeys]
        root = os.path.join(work, 'root.json')
        M = Model(); problems = []
        saved_roots = []
        def check_file(): return replay('root_check', {'path': root})
        def sha_of_file():
            try: return open(root, 'rb').read()
            except FileNotFoundError: return None
        for step in range(length):
            before = sha_of_file()
            ino_before = os.stat(root).st_ino if os.path.exists(root) else None
            if not M.exists: cmd = 'init'
            else: cmd = rng.choice(['add-key'] * 3 + ['remove-key', 'set-threshold', 'set-threshold', 'set-version', 'bump-version', 'expire', 'sign', 'sign', 'sign', 'cross-sign'])
            args = None; changing = True; expect_fail = None; desc = cmd
            if cmd == 'init':
                v = rng.choice([None, 1, 7, 2**32]); args = ['init', root] + (['--version', str(v)] if v else []); desc = f'init version={v}'
            elif cmd == 'add-key':
                k = rng.choice(keys); rs = rng.sample(ROLES, rng.randint(1, 3)) if rng.random() < 0.8 else ['root']
                args = ['add-key', root, '-k', k['path']] + sum((['-r', r] for r in rs), []); desc = f'add-key {k["id"][:8]} roles={rs}'
            elif cmd == 'remove-key':
                k = rng.choice(keys); role = rng.choice([None] + ROLES)
                args = ['remove-key', root, k['id']] + ([role] if role else []); desc = f'remove-key {k["id"][:8]} role={role}'
            elif cmd == 'set-threshold':
                r = rng.choice(ROLES); t = rng.choice([1, 1, 2, 3]); args = ['set-threshold', root, r, str(t)]; desc = f'set-threshold {r} {t}'
            elif cmd == 'set-version':
                v = rng.choice([1, 2, 2**32, rng.randint(1, 2**32)]); args = ['set-version', root, str(v)]; desc = f'set-version {v}'
            elif cmd == 'bump-version':
                args = ['bump-version', root]
            elif cmd == 'expire':
                d = rng.randint(1, 400); args = ['expire', root, f'in {d} days']; desc = f'expire in {d} days'
            elif cmd in ('sign', 'cross-sign'):
                ks = rng.sample(keys, rng.randint(1, len(keys))); ign = rng.random() < 0.3
                cross = None
                if cmd == 'cross-sign':
                    if not saved_roots: continue
                    cross = rng.choice(saved_roots)
                args = ['sign', root] + sum((['-k', k['path']] for k in ks), []) + (['-i'] if ign else []) + (['--cross-sign', cross] if cross else [])
                desc = f'sign keys={[k["id"][:8] for k in ks]} ignore_threshold={ign} cross_sign={bool(cross)}'; changing = False
            p = subprocess.run([tuftool, 'root'] + args, capture_output=True, text=True, timeout=120)
            log.append(f'{desc} -> exit {p.returncode}')
            after = sha_of_file()
            if p.returncode != 0:
                if after != before:
                    problems.append({'class': 'error-changed-file', 'what': f'step {step + 1} `{desc}` exited {p.returncode} ({p.stderr.strip()[-160:]}) but root.json changed'})
                continue
            if ino_before is not None and after != before and os.stat(root).st_ino == ino_before:
                problems.append({'class': 'not-atomic-replace', 'what': f'`{desc}` rewrote root.json in place (same inode, new content): the file is not replaced atomically, an interruption leaves a truncated root.json'})
            st = check_file()
            if not st.get('parses'):
                problems.append({'class': 'unparseable', 'what': f'after `{desc}` (exit 0) root.json does not parse: {st.get("error")}'}); break
            if not st.get('keyids_ok'):
                problems.append({'class': 'key-ids', 'what': f'after `{desc}` a key table identifier is not the digest of its key'})
            # ---- reference model
            if cmd == 'init':
                M.init(int(args[args.index('--version') + 1]) if '--version' in args else 1)
            elif cmd == 'add-key':
                M.keys.add(k['id'])
                for r in rs:
                    if k['id'] not in M.roles[r]['keyids']: M.roles[r]['keyids'].append(k['id'])
                M.clear()
            elif cmd == 'remove-key':
                for r in ([role] if role else ROLES):
                    if k['id'] in M.roles[r]['keyids']: M.roles[r]['keyids'].remove(k['id'])
                if not role: M.keys.discard(k['id'])
                M.clear()
            elif cmd == 'set-threshold': M.roles[r]['threshold'] = t; M.clear()
            elif cmd == 'set-version': M.version = v; M.clear()
            elif cmd == 'bump-version': M.version += 1; M.clear()
            elif cmd == 'expire': M.clear()
            if changing and cmd != 'init':
                if st['signatures']:
                    problems.append({'class': 'stale-signatures', 'what': f'`{desc}` changed the content but left {len(st["signatures"])} signature(s) in the file'})
            if cmd != 'init' or True:
                if st['version'] != M.version: problems.append({'class': 'content', 'what': f'after `{desc}` version is {st["version"]}, expected {M.version}'})
                for r in ROLES:
                    got = st['roles'].get(r, {'threshold': None, 'keyids': None})
                    if got['threshold'] != M.roles[r]['threshold'] or got['keyids'] != M.roles[r]['keyids']:
                        problems.append({'class': 'content', 'what': f'after `{desc}` role {r} is {got}, expected {M.roles[r]}'})
                if set(st['keys']) != M.keys: problems.append({'class': 'content', 'what': f'after `{desc}` the key table holds {sorted(x[:8] for x in st["keys"])}, expected {sorted(x[:8] for x in M.keys)}'})
            if cmd in ('sign', 'cross-sign'):
                if not ign and not cross and not st['self_verifies']:
                    problems.append({'class': 'sign-not-self-verifying', 'what': f'`{desc}` succeeded without --ignore-threshold and without --cross-sign, but the root does not verify under its own root keys and threshold '
                                                                                    f'(root role: {st["roles"].get("root")}, signatures by {[x[:8] for x in st["signatures"]]})'})
            if rng.random() < 0.4 and M.exists:
                cp = os.path.join(work, f'saved-{step}.json'); shutil.copy(root, cp); saved_roots.append(cp)
            if problems: break
        return problems
    finally:
        shutil.rmtree(work, ignore_errors=True)

def directed(tuftool, replay):
    """the replay of the solver's `self-verifies` counterexample: a signature left by an earlier --cross-sign run is by a key of the OTHER root;
    a later plain `sign` with fewer own keys than the threshold must not report success"""
    work = tempfile.mkdtemp(prefix='c20d-')
    log = []
    def t(*args):
        p = subprocess.run([tuftool, 'root'] + list(args), capture_output=True, text=True, timeout=120)
        log.append(' '.join(os.path.basename(a) if a.startswith(work) else a for a in args) + f' -> exit {p.returncode}'); return p.returncode
    try:
        keys = replay('gen_keyfiles', {'dir': work, 'n': 3})['keys']; A, B, C = keys[0]['path'], keys[1]['path'], keys[2]['path']
        old, new = os.path.join(work, 'old.json'), os.path.join(work, 'new.json')
        t('init', old); t('add-key', old, '-k', C, '-r', 'root', '-r', 'snapshot', '-r', 'targets', '-r', 'timestamp')
        for r in ROLES: t('set-threshold', old, r, '1')
        t('sign', old, '-k', C)
        t('init', new); t('add-key', new, '-k', A, '-r', 'root', '-r', 'snapshot', '-r', 'targets', '-r', 'timestamp'); t('add-key', new, '-k', B, '-r', 'root')
        t('add-key', new, '-k', C, '-r', 'targets')      # the old root key stays in the new root's key table (for another role): its signature is still not a root signature
        t('set-threshold', new, 'root', '2')
        for r in ROLES[1:]: t('set-threshold', new, r, '1')
        t('sign', new, '-k', C, '--cross-sign', old, '-i')
        rc = t('sign', new, '-k', A)
        st = replay('root_check', {'path': new})
        problems = []
        # second scenario: the same (non-deterministic, RSA) key signs twice; one key must never count twice towards the threshold
        rsa = [k['path'] for k in keys if k['path'].endswith('.pem')]
        if rsa:
            K = rsa[0]; other = A
            two = os.path.join(work, 'two.json')
            t('init', two); t('add-key', two, '-k', K, '-r', 'root', '-r', 'snapshot', '-r', 'targets', '-r', 'timestamp'); t('add-key', two, '-k', other, '-r', 'root')
            t('set-threshold', two, 'root', '2')
            for r in ROLES[1:]: t('set-threshold', two, r, '1')
            t('sign', two, '-i', '-k', K)
            rc2 = t('sign', two, '-k', K)
            st2 = replay('root_check', {'path': two})
            if rc2 == 0 and not st2.get('self_verifies'):
                problems.append({'class': 'sign-not-self-verifying', 'sequence': list(log), 'what': f'signing twice with the same RSA key: the second `sign -k K` (no --ignore-threshold) exited 0 although the root needs 2 root signatures and '
                                 f'only one key signed (signatures by {[x[:8] for x in st2["signatures"]]})'})
            if len(st2.get('signatures', [])) != len(set(st2.get('signatures', []))):
                problems.append({'class': 'duplicate-signature-entries', 'sequence': list(log), 'what': f'root.json lists the same key id twice under signatures: {[x[:8] for x in st2["signatures"]]}'})
        # third scenario: a key that is already in the key table (listed for targets) is added to the root role of a signed file:
        # the content changes (root's key ids), so the signatures must go
        three = os.path.join(work, 'three.json')
        t('init', three); t('add-key', three, '-k', A, '-r', 'root', '-r', 'snapshot', '-r', 'targets', '-r', 'timestamp'); t('add-key', three, '-k', B, '-r', 'targets')
        for r in ROLES: t('set-threshold', three, r, '1')
        t('sign', three, '-k', A)
        before3 = replay('root_check', {'path': three})
        rc3 = t('add-key', three, '-k', B, '-r', 'root')
        st3 = replay('root_check', {'path': three})
        if rc3 == 0 and st3.get('parses') and st3['roles'].get('root', {}).get('keyids') != before3['roles'].get('root', {}).get('keyids') and st3.get('signatures'):
            problems.append({'class': 'stale-signatures', 'sequence': list(log), 'what': f'`add-key` of a key that is already in the key table to the root role changed the root key ids but left {len(st3["signatures"])} signature(s) in the file'})
        # fourth scenario: a root.json NOT produced by tuftool, whose key table spells a key differently from tuftool's own encoding (PEM with a
        # trailing newline, as in the simple-rsa fixture: equal as a key, different as text, hence a different key id). Every subcommand that
        # exits 0 must leave a parseable file whose key table identifiers are correct, and adding that very key again must not corrupt the table.
        fixture = '/repo/tough/tests/data/simple-rsa/root.json'
        pem = [k['path'] for k in keys if k['path'].endswith('snakeoil.pem')]
        if os.path.exists(fixture) and pem:
            for tag, cmds in (('add-key of the listed key to targets', [('add-key', '@', '-k', pem[0], '-r', 'targets')]),
                              ('add-key of the listed key to root, then bump-version and sign', [('add-key', '@', '-k', pem[0], '-r', 'root'), ('bump-version', '@'), ('sign', '@', '-k', pem[0], '-i')]),
                              ('add-key of another key, then of the listed key', [('add-key', '@', '-k', A, '-r', 'snapshot'), ('add-key', '@', '-k', pem[0], '-r', 'snapshot'), ('set-version', '@', '7')]),
                              ('remove-key and re-add of the listed key', [('remove-key', '@', '#id'), ('add-key', '@', '-k', pem[0], '-r', 'root', '-r', 'snapshot', '-r', 'targets', '-r', 'timestamp'), ('expire', '@', 'in 3 days')])):
                four = os.path.join(work, 'four.json'); shutil.copy(fixture, four)
                st0 = replay('root_check', {'path': four})
                if not (st0.get('parses') and st0.get('keyids_ok')): break
                for c in cmds:
                    args = [four if a == '@' else (st0['keys'][0] if a == '#id' else a) for a in c]
                    rc4 = t(*args)
                    st4 = replay('root_check', {'path': four})
                    if rc4 == 0 and not (st4.get('parses') and st4.get('keyids_ok')):
                        problems.append({'class': 'foreign-encoding-key-table', 'sequence': list(log[-len(cmds) - 1:]), 'what': f'starting from the simple-rsa fixture root (key spelled as PEM with a trailing newline), {tag}: `{c[0]}` exited 0 and left a file that '
                                         + ('does not parse: ' + str(st4.get('error'))[:200] if not st4.get('parses') else 'lists a key under an identifier that is not the digest of its content')})
                        break
                    if rc4 != 0:
                        st5 = replay('root_check', {'path': four})
                        if not st5.get('parses'):
                            problems.append({'class': 'foreign-encoding-key-table', 'sequence': list(log[-len(cmds) - 1:]), 'what': f'{tag}: `{c[0]}` failed and left an unparseable file'}); break
                if problems: break
        if problems: return problems
        if rc == 0 and not st.get('self_verifies'):
            return [{'class': 'sign-not-self-verifying', 'sequence': log, 'what': f'`sign -k <one of two root keys>` (no --ignore-threshold, no --cross-sign) exited 0 although the root needs 2 root signatures and carries only one by its own keys '
                                                                                     f'(signatures by {[x[:8] for x in st["signatures"]]}, root role {st["roles"].get("root")}): the signature kept from the earlier --cross-sign run was counted'}]
        return []
    finally:
        shutil.rmtree(work, ignore_errors=True)

def sweep(tuftool, replay, seed, nseq, length=12):
    out = {'sequences': 0, 'invocations': 0, 'problems': []}
    for i in range(nseq):
        log = []
        pr = run_sequence(tuftool, replay, seed * 100003 + i, length, log)
        out['sequences'] += 1; out['invocations'] += len(log)
        for p in pr:
            p['sequence'] = log; p['seed'] = seed; p['index'] = i; out['problems'].append(p)
        if len(out['problems']) >= 6: break
    return out
