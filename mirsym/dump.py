"""Emit rustc MIR text for the repository crates from /repo's *current working tree*.

The dump is regenerated whenever the content hash of the crate's sources (and of the sources of
the workspace crates it depends on) changes; an unchanged tree re-uses the dump produced from
exactly those bytes.  Dependency objects live in /verif/.cache/nightly (built by setup).
"""
import hashlib, os, re, subprocess, sys, time, fcntl

REPO = os.environ.get('VERIF_REPO', '/repo')
VERIF = os.path.dirname(os.path.dirname(os.path.abspath(__file__)))
CACHE = os.path.join(VERIF, '.cache')
MIRDIR = os.path.join(CACHE, 'mir')

# name -> (package, target args, feature args, source dirs hashed)
CRATES = {
    'tough':      ('tough', ['--lib'], [], ['tough/src', 'tough/Cargo.toml', 'olpc-cjson/src']),
    'tough-http': ('tough', ['--lib'], ['--features', 'http'], ['tough/src', 'tough/Cargo.toml', 'olpc-cjson/src']),
    'olpc-cjson': ('olpc-cjson', ['--lib'], [], ['olpc-cjson/src', 'olpc-cjson/Cargo.toml']),
    'tuftool':    ('tuftool', ['--bin', 'tuftool'], [], ['tuftool/src', 'tuftool/Cargo.toml', 'tough/src', 'tough/Cargo.toml', 'olpc-cjson/src']),
}

def tree_hash(paths):
    h = hashlib.sha256()
    for p in paths:
        full = os.path.join(REPO, p)
        if os.path.isfile(full):
            h.update(p.encode()); h.update(open(full, 'rb').read()); continue
        for root, dirs, files in sorted(os.walk(full)):
            dirs.sort()
            for f in sorted(files):
                fp = os.path.join(root, f)
                h.update(os.path.relpath(fp, REPO).encode()); h.update(b'\0')
                h.update(open(fp, 'rb').read()); h.update(b'\0')
    h.update(open(os.path.join(REPO, 'Cargo.lock'), 'rb').read())
    return h.hexdigest()[:20]

def dump(crate, verbose=False):
    """returns (path of MIR text, info dict)"""
    pkg, tgt, feat, srcs = CRATES[crate]
    os.makedirs(MIRDIR, exist_ok=True)
    hsh = tree_hash(srcs)
    out = os.path.join(MIRDIR, f'{crate}-{hsh}.mir')
    info = {'crate': crate, 'source_hash': hsh, 'cached': True, 'seconds': 0.0}
    if os.path.exists(out) and os.path.getsize(out) > 1000:
        return out, info
    lock = open(os.path.join(MIRDIR, f'.{crate}.lock'), 'w')
    fcntl.flock(lock, fcntl.LOCK_EX)
    try:
        if os.path.exists(out) and os.path.getsize(out) > 1000:
            return out, info
        t0 = time.time()
        env = dict(os.environ)
        env.update({'CARGO_TARGET_DIR': os.path.join(CACHE, 'nightly'), 'CARGO_NET_OFFLINE': 'true',
                    'RUSTUP_TOOLCHAIN': 'nightly', 'RUSTFLAGS': env.get('VERIF_RUSTFLAGS', '')})
        cmd = ['cargo', 'rustc', '--offline', '-p', pkg] + tgt + feat + ['--', '-Zunpretty=mir',
               '-C', 'debug-assertions=off', '-C', 'overflow-checks=on', '-Awarnings',
               '--cfg', f'verif_src="{hsh}"', '--check-cfg', 'cfg(verif_src, values(any()))']
        r = subprocess.run(cmd, cwd=REPO, env=env, capture_output=True, text=True)
        if r.returncode != 0 or len(r.stdout) < 1000:
            sys.stderr.write(r.stderr[-4000:])
            raise RuntimeError(f'MIR emission failed for {crate} (rc={r.returncode}, {len(r.stdout)} bytes)')
        tmp = out + f'.{os.getpid()}.tmp'
        open(tmp, 'w').write(r.stdout)
        os.replace(tmp, out)
        # keep only the three newest dumps per crate
        pat = re.compile(re.escape(crate) + r'-[0-9a-f]{20}\.mir$')
        olds = sorted((f for f in os.listdir(MIRDIR) if pat.match(f)),
                      key=lambda f: os.path.getmtime(os.path.join(MIRDIR, f)))
        for f in olds[:-3]:
            try: os.remove(os.path.join(MIRDIR, f))
            except OSError: pass
        info.update(cached=False, seconds=round(time.time() - t0, 1))
        return out, info
    finally:
        fcntl.flock(lock, fcntl.LOCK_UN)

if __name__ == '__main__':
    for c in (sys.argv[1:] or list(CRATES)):
        p, i = dump(c)
        print(p, i, os.path.getsize(p))
