"""Symbolic MIR interpreter core (prototype)."""
import re, itertools, copy, sys, time, collections, os
import z3
from parse import parse_file, split_top, Func

# --------------------------------------------------------------------------- values
_ctr = itertools.count()
def fresh_name(p): return f'{p}!{next(_ctr)}'

INT_W = {'u8':8,'i8':8,'u16':16,'i16':16,'u32':32,'i32':32,'u64':64,'i64':64,'usize':64,'isize':64,'u128':128,'i128':128,'char':32}
STD_ENUMS = {
    'Result': ['Ok','Err'], 'Option': ['None','Some'], 'ControlFlow': ['Continue','Break'],
    'Poll': ['Ready','Pending'], 'Cow': ['Borrowed','Owned'],
}

class Adt:
    """struct / enum / tuple / coroutine value.  fields: {(variant|None, idx|name): value}"""
    __slots__ = ('ty','discr','fields')
    def __init__(s, ty, discr=None, fields=None):
        s.ty, s.discr, s.fields = ty, discr, ({} if fields is None else fields)
    def clone(s):
        return Adt(s.ty, s.discr, {k: clone(v) for k, v in s.fields.items()})
    def __repr__(s): return f'Adt<{s.ty[:40]}|{s.discr}|{ {k:v for k,v in s.fields.items()} }>'

class Unknown:
    """lazily materialised symbolic value of a given type"""
    __slots__ = ('ty','name')
    def __init__(s, ty, name=None): s.ty, s.name = ty.strip(), name or fresh_name('u')
    def clone(s): return s
    def __repr__(s): return f'?{s.name}:{s.ty[:30]}'

class Ref:
    __slots__ = ('cid','path')
    def __init__(s, cid, path=()): s.cid, s.path = cid, tuple(path)
    def clone(s): return s
    def __repr__(s): return f'&c{s.cid}{list(s.path)}'

class Obj:
    """model object (opaque library value) with python payload dict"""
    def __init__(self, kind, **kw): self.kind, self.d = kind, kw
    def clone(self): return Obj(self.kind, **{k: clone(v) for k, v in self.d.items()})
    def __repr__(self): return "Obj<%s %s>" % (self.kind, self.d)

def clone(v):
    if isinstance(v, (Adt, Obj)): return v.clone()
    if isinstance(v, list): return [clone(x) for x in v]
    if isinstance(v, dict): return {k: clone(x) for k, x in v.items()}
    return v   # z3 terms, python scalars, Ref, Unknown are immutable

def strip_generics(p):
    out, d = [], 0
    for c in p:
        if c == '<': d += 1
        elif c == '>': d -= 1
        elif d == 0: out.append(c)
    return ''.join(out).replace('::::', '::').rstrip(':')

def ty_head(ty):
    ty = ty.strip()
    while ty.startswith('&'): ty = ty[1:].lstrip()
    if ty.startswith('mut '): ty = ty[4:]
    return strip_generics(ty).split('::')[-1]

def is_int_ty(t): return t.strip() in INT_W
def z3_of_type(ty, name):
    t = ty.strip()
    if t in INT_W: return z3.BitVec(name, INT_W[t])
    if t == 'bool': return z3.Bool(name)
    h = ty_head(t)
    if h in ('NonZero',):
        m = re.search(r'NonZero<(\w+)>', t); return z3.BitVec(name, INT_W.get(m.group(1), 64) if m else 64)
    if h == 'DateTime': return z3.Int(name)
    return None

# --------------------------------------------------------------------------- state
class Frame:
    def __init__(s, func, locals_, ret_dest=None, ret_bb=None, on_return=None, tag=None):
        s.func, s.locals, s.block, s.idx = func, locals_, 'bb0', 0
        s.ret_dest, s.ret_bb, s.on_return, s.tag = ret_dest, ret_bb, on_return, tag
    def clone(s):
        f = Frame(s.func, dict(s.locals), s.ret_dest, s.ret_bb, s.on_return, s.tag)
        f.block, f.idx = s.block, s.idx
        f.generics = getattr(s, 'generics', {})
        if 'visits' in s.__dict__: f.visits = dict(s.visits)
        return f

class ModelFrame:
    """python-implemented re-entrant driver on the frame stack (cloneable)"""
    def __init__(s, handler, data, ret_dest=None, ret_bb=None, on_return=None):
        s.handler, s.data, s.ret_dest, s.ret_bb, s.on_return = handler, data, ret_dest, ret_bb, on_return
        s.func = None; s.tag = None
    def clone(s):
        return ModelFrame(s.handler, clone(s.data), s.ret_dest, s.ret_bb, s.on_return)

class State:
    def __init__(s):
        s.heap, s.frames, s.pc, s.events, s.taint, s.steps = {}, [], [], [], [], 0
        s.env = {}       # model-owned environment (fs, clock, ...)
        s.result = None
    def clone(s):
        t = State()
        t.heap = {k: clone(v) for k, v in s.heap.items()}
        t.frames = [f.clone() for f in s.frames]
        t.pc, t.events, t.taint, t.steps = list(s.pc), list(s.events), list(s.taint), s.steps
        t.env = clone(s.env)
        return t
    def alloc(s, v):
        cid = next(_ctr); s.heap[cid] = v; return cid

class Stuck(Exception): pass

# --------------------------------------------------------------------------- interpreter
class Interp:
    def __init__(self, mirfiles, enums=None, structs=None, solver_timeout=20000):
        self.funcs, self.consts, self.allocs = {}, {}, {}
        self.parse_errors = collections.Counter()
        self.solver_s = 0.0
        self.run_ctx = None
        self.allocs_by_file = []
        for fi, mf in enumerate(mirfiles):
            f, c, a, e = parse_file(mf)
            self.parse_errors.update(e)
            for k, v in f.items():
                for fn_ in v: fn_.file_idx = fi
                self.funcs.setdefault(k, []).extend(v)
            for v in c.values():
                if isinstance(v, Func): v.file_idx = fi
            self.consts.update(c); self.allocs.update(a); self.allocs_by_file.append(a)   # alloc numbers are per dump: look them up through the using function's file
        self.enums = dict(STD_ENUMS); self.enums.update(enums or {})
        self.structs = structs or {}
        self.models = []         # (regex, handler)
        self.solver = z3.Solver(); self.solver.set('timeout', solver_timeout); self.solver_timeout = solver_timeout
        self._asserted = []
        self.nqueries = 0
        self.max_steps = 200000
        self.max_block_visits = int(os.environ.get('VERIF_LOOP_BOUND', '400'))
        self.loop_bound = 8
        self.stats = {'paths': 0, 'pruned': 0, 'havoc': {}}
        self.by_method = {}
        for name in self.funcs:
            self.by_method.setdefault(name.split('::')[-1] if not name.endswith('}') else name, []).append(name)

    # ---- feasibility
    def feasible(self, st, extra=None):
        """is st.pc (& extra) satisfiable?  The solver keeps the previously asserted prefix (one push level per
        conjunct) so that a DFS step only asserts what changed."""
        self.nqueries += 1
        asserted = self._asserted
        pc = st.pc
        n = 0
        m = min(len(asserted), len(pc))
        while n < m and asserted[n] is pc[n]: n += 1
        if len(asserted) > n:
            self.solver.pop(len(asserted) - n); del asserted[n:]
        for c in pc[n:]:
            self.solver.push(); self.solver.add(c); asserted.append(c)
        if extra is not None:
            self.solver.push(); self.solver.add(extra)
        t = time.time()
        r = self.solver.check()
        self.solver_s += time.time() - t
        if extra is not None: self.solver.pop()
        if r == z3.unknown:
            # one retry in a fresh (non-incremental) solver with another seed and four times the budget: the incremental solver degrades on long
            # prefixes and a loaded machine eats the wall-clock budget; unknown after that is Stuck (=> INCONCLUSIVE), never a pass
            why = self.solver.reason_unknown()
            s2 = z3.Solver(); s2.set('timeout', int(getattr(self, 'solver_timeout', 120000) or 120000) * 4); s2.set('random_seed', 7919)
            for c in pc: s2.add(c)
            if extra is not None: s2.add(extra)
            t = time.time(); r = s2.check(); self.solver_s += time.time() - t
            self.stats['feasibility_retries'] = self.stats.get('feasibility_retries', 0) + 1
            if r == z3.unknown: raise Stuck('feasibility query unknown: ' + why + ' / ' + s2.reason_unknown())
        return r != z3.unsat

    # ---- values
    def materialize(self, st, v, ty_hint=None):
        """Unknown -> concrete representation (z3 var, Adt, Ref)"""
        if not isinstance(v, Unknown): return v
        t = v.ty
        z = z3_of_type(t, v.name)
        if z is not None: return z
        if t.startswith('&'):
            inner = t[1:].lstrip()
            inner = re.sub(r"^'\w+ ", '', inner)
            if inner.startswith('mut '): inner = inner[4:]
            cid = st.alloc(Unknown(inner, v.name + '.*'))
            return Ref(cid)
        if t == '()': return Adt('()')
        return Adt(t, None, {})

    def as_z3(self, st, v, width=None):
        if isinstance(v, Unknown):
            v = self.materialize(st, v)
        if isinstance(v, bool): return z3.BoolVal(v)
        if isinstance(v, int): return z3.BitVecVal(v, width or 64)
        if isinstance(v, (z3.ExprRef,)): return v
        raise Stuck(f'not scalar: {v!r}')

    # ---- places
    def _resolve(self, st, frame, place):
        """-> (cid, path) where path is list of ('f',variant,idx,ty) / ('i',k)"""
        k = place[0]
        if k == 'local':
            name = place[1]
            if name not in frame.locals:
                frame.locals[name] = st.alloc(Unknown(frame.func.locals.get(name, '?'), f'{frame.func.name[-20:]}.{name}') if False else None)
            return frame.locals[name], []
        if k == 'deref':
            v = self.load(st, frame, place[1])
            if isinstance(v, Unknown):
                v = self.materialize(st, v); self.store(st, frame, place[1], v)
            if isinstance(v, Adt) and (('Box' in v.ty) or ('Pin' in v.ty)) and (None, 0) in v.fields:
                v = v.fields[(None, 0)]
            if isinstance(v, Obj) and v.kind in ('str', 'alloc', 'path'):
                # a `&str` / `&[u8]` / `&Path` constant is represented by the pointee itself: re-borrowing it (`&(*c)`) points at a cell holding it
                return st.alloc(v), []
            if not isinstance(v, Ref): raise Stuck(f'deref of non-ref {v!r} in {frame.func.name}')
            return v.cid, list(v.path)
        if k == 'field':
            base = place[1]; variant = None
            if base[0] == 'downcast': variant, base = base[2], base[1]
            cid, path = self._resolve(st, frame, base)
            return cid, path + [('f', variant, place[2], place[3])]
        if k == 'downcast':
            return self._resolve(st, frame, place[1])
        if k in ('index', 'constindex'):
            cid, path = self._resolve(st, frame, place[1])
            return cid, path + [('i', place[2])]
        raise Stuck('place kind ' + k)

    def _walk(self, st, cid, path, create=True):
        """returns (container, key) for final step, materialising along the way"""
        cur_get = lambda: st.heap[cid]
        cur_set = lambda v: st.heap.__setitem__(cid, v)
        for step in path:
            v = cur_get()
            if v is None: raise Stuck('read of uninitialised cell')
            if isinstance(v, Unknown):
                v = self.materialize(st, v); cur_set(v)
            if step[0] == 'f':
                _, variant, idx, fty = step
                if isinstance(v, Ref):   # auto-deref should not happen
                    raise Stuck('field of ref')
                if not isinstance(v, Adt): raise Stuck(f'field {idx} of {v!r}')
                key = (variant, idx)
                if key not in v.fields:
                    # named-field aliasing via struct table
                    v.fields[key] = Unknown(fty)
                def mk(v=v, key=key): return (lambda: v.fields[key]), (lambda x: v.fields.__setitem__(key, x))
                cur_get, cur_set = mk()
            else:
                raise Stuck('index projection not supported in prototype')
        return cur_get, cur_set

    def load(self, st, frame, place):
        cid, path = self._resolve(st, frame, place)
        g, s = self._walk(st, cid, path)
        v = g()
        if v is None: raise Stuck(f'uninit read {place} in {frame.func.name}')
        return v
    def store(self, st, frame, place, val):
        if place[0] == 'local' and place[1] not in frame.locals:
            frame.locals[place[1]] = st.alloc(val); return
        cid, path = self._resolve(st, frame, place)
        if not path:
            st.heap[cid] = val; return
        g, s = self._walk(st, cid, path)
        s(val)
    def ref_to(self, st, frame, place):
        if place[0] == 'local' and place[1] not in frame.locals:
            frame.locals[place[1]] = st.alloc(Unknown(frame.func.locals.get(place[1], '?')))
        cid, path = self._resolve(st, frame, place)
        return Ref(cid, path)
    def deref_load(self, st, ref):
        if isinstance(ref, Unknown): ref = self.materialize(st, ref)
        g, s = self._walk(st, ref.cid, list(ref.path)); v = g()
        if isinstance(v, Unknown):
            v2 = self.materialize(st, v)
            if v2 is not v: s(v2)
            return v2
        return v
    def deref_store(self, st, ref, val):
        if not ref.path: st.heap[ref.cid] = val; return
        g, s = self._walk(st, ref.cid, list(ref.path)); s(val)

    # ---- constants
    def const(self, st, frame, text, ty_hint=None):
        t = text.strip()
        m = re.match(r'^(-?\d+)_(\w+)$', t)
        if m: return z3.BitVecVal(int(m.group(1)), INT_W[m.group(2)])
        if t in ('true', 'false'): return z3.BoolVal(t == 'true')
        if t == '()': return Adt('()')
        if t.startswith('ZeroSized: '): return Adt(t[len('ZeroSized: '):], None, {})
        if t.startswith('"'): return Obj('str', s=bytes(t[1:-1], 'utf8').decode('unicode_escape'))
        if t.startswith('b"'): return Obj('bytes', b=eval(t))
        m = re.match(r"^'(.*)'$", t)
        if m: return z3.BitVecVal(ord(bytes(m.group(1), 'utf8').decode('unicode_escape')), 32)
        if '::promoted[' in t:
            # a promoted constant always belongs to the function that uses it
            idx = re.search(r'::promoted\[(\d+)\]$', t).group(1)
            cf = self.consts.get(frame.func.name + '::promoted[' + idx + ']') if frame is not None and frame.func is not None else None
            if cf is None: cf = self.consts.get(t)
            if cf is None: raise Stuck('promoted const not found: ' + t + ' in ' + (frame.func.name if frame is not None else '?'))
            return self.eval_const_fn(st, cf, frame)
        m = re.match(r'^\{(alloc\d+): (.*)\}$', t)
        if m:
            fi = getattr(frame.func, 'file_idx', None) if frame is not None and getattr(frame, 'func', None) is not None else None
            a = (self.allocs_by_file[fi] if fi is not None else self.allocs).get(m.group(1))
            return Obj('alloc', name=m.group(1), static=(a or {}).get('static'), ty=m.group(2), data=(a or {}).get('data'))
        m = re.match(r'^<([\w:]+) as ([\w:]+)>::(\w+)$', t)
        if m:
            ty = m.group(1)
            ty = getattr(frame, 'generics', {}).get(ty, ty) if frame is not None else ty
            want = ty_head(ty)
            for k2, v2 in self.consts.items():
                if k2.endswith('::' + m.group(3)) and '<impl at' in k2 and isinstance(v2, Func):
                    st_, tr_ = self.find_impl_self(k2)
                    if st_ == want and (tr_ is None or ty_head(tr_) == ty_head(m.group(2))):
                        return self.eval_const_fn(st, v2, frame)
            return Obj('assoc_const', ty=ty, trait=m.group(2), name=m.group(3))
        # a named constant item of the crate: evaluate its MIR body
        cf = self.consts.get(t)
        if isinstance(cf, Func): return self.eval_const_fn(st, cf, frame)
        # enum unit variant written as const?  else treat as fn item / opaque
        return Obj('item', path=t)

    def eval_const_fn(self, st, cf, frame):
        fr = Frame(cf, {}); fr.generics = getattr(frame, 'generics', {})
        blk = cf.blocks['bb0']
        for _ in range(50):
            for s_ in blk.stmts:
                if s_[0] == 'assign':
                    dty = cf.locals.get(s_[1][1]) if s_[1][0] == 'local' else None
                    self.store(st, fr, s_[1], self.rvalue(st, fr, s_[2], dty))
            if blk.term[0] == 'goto': blk = cf.blocks[blk.term[1]]; continue
            if blk.term[0] == 'return': return self.load(st, fr, ('local', '_0'))
            if blk.term[0] == 'call':
                # const fn calls inside constant items: only those with a registered (pure) python evaluator
                _, dest, callee, argops, targets = blk.term
                for rx, pyfn in getattr(self, 'const_calls', []):
                    if rx.search(callee):
                        val = pyfn(self, st, [self.operand(st, fr, o) for o in argops])
                        if dest is not None: self.store(st, fr, dest, val)
                        blk = cf.blocks[targets['return']]; break
                else:
                    raise Stuck('const fn call in constant item without evaluator: ' + callee[:80])
                continue
            raise Stuck('const body terminator ' + blk.term[0])
        raise Stuck('const body too long')

    def operand(self, st, frame, op):
        k = op[0]
        if k == 'const': return self.const(st, frame, op[1])
        v = self.load(st, frame, op[1])
        if k == 'copy': return clone(v)
        return v   # move: keep storage (we do not model moved-out)

    # ---- aggregates
    def variant_index(self, enum, variant):
        vs = self.enums.get(enum)
        if vs is None or variant not in vs: return None
        return vs.index(variant)

    def rvalue(self, st, frame, rv, dest_ty):
        k = rv[0]
        if k == 'use': return self.operand(st, frame, rv[1])
        if k == 'ref': return self.ref_to(st, frame, rv[2])
        if k == 'discr':
            v = self.load(st, frame, rv[1])
            if isinstance(v, Unknown):
                v = self.materialize(st, v); self.store(st, frame, rv[1], v)
            if isinstance(v, Obj) and v.kind == 'error' and getattr(self, 'error_variants', None) and v.d.get('ekind') in self.error_variants:
                return z3.BitVecVal(self.error_variants.index(v.d['ekind']), 64)       # modelled error value: variant order read from the current source
            if not isinstance(v, Adt): raise Stuck(f'discriminant of {v!r}')
            if v.discr is None:
                v.discr = z3.BitVec(fresh_name('d'), 64)
                n = self.enums.get(ty_head(v.ty))
                if n: st.pc.append(z3.ULT(v.discr, len(n)))
            return v.discr if not isinstance(v.discr, int) else z3.BitVecVal(v.discr, 64)
        if k == 'binop':
            a = self.as_z3(st, self.operand(st, frame, rv[2])); b = self.as_z3(st, self.operand(st, frame, rv[3]))
            if z3.is_bv(a) and z3.is_bv(b) and a.size() != b.size():
                # shifts may have a narrower rhs
                if b.size() < a.size(): b = z3.ZeroExt(a.size() - b.size(), b)
                else: b = z3.Extract(a.size() - 1, 0, b)
            return self.binop(rv[1], a, b, dest_ty, signed=self.op_signed(frame, rv[2]) or self.op_signed(frame, rv[3]))
        if k == 'unop':
            if rv[1] == 'PtrMetadata':
                v = self.operand(st, frame, rv[2])
                while isinstance(v, (Ref, Unknown)):
                    v = self.deref_load(st, v) if isinstance(v, Ref) else self.materialize(st, v)
                for key in ('data', 'elems', 'items'):
                    if isinstance(v, Obj) and isinstance(v.d.get(key), list): return z3.BitVecVal(len(v.d[key]), 64)
                if isinstance(v, Obj) and 'b' in v.d: return z3.BitVecVal(len(v.d['b']), 64)
                raise Stuck('PtrMetadata of ' + repr(v)[:60])
            a = self.as_z3(st, self.operand(st, frame, rv[2]))
            if rv[1] == 'Not': return z3.Not(a) if z3.is_bool(a) else ~a
            if rv[1] == 'Neg': return -a
            raise Stuck('unop ' + rv[1])
        if k == 'cast':
            v = self.operand(st, frame, rv[2])
            kind, ty = rv[1], rv[3].strip()
            if kind.startswith('IntToInt') and ty in INT_W:
                a = self.as_z3(st, v); w = INT_W[ty]
                if z3.is_bool(a): a = z3.If(a, z3.BitVecVal(1, w), z3.BitVecVal(0, w)); return a
                if a.size() == w: return a
                if a.size() > w: return z3.Extract(w - 1, 0, a)
                if self.op_signed(frame, rv[2]): return z3.SignExt(w - a.size(), a)
                return z3.ZeroExt(w - a.size(), a)
            return v   # pointer coercions / unsize / transmute: identity
        if k == 'tuple':
            return Adt('tuple', None, {(None, i): self.operand(st, frame, o) for i, o in enumerate(rv[1])})
        if k == 'array':
            return Adt('array', None, {(None, i): self.operand(st, frame, o) for i, o in enumerate(rv[1])})
        if k == 'repeat':
            return Obj('repeat', elem=self.operand(st, frame, rv[1]), n=rv[2])
        if k == 'struct':
            head = rv[1]
            fields = {}
            a = Adt(head, 0 if 'coroutine@' in head else None, fields)
            names = self.structs.get(ty_head(head))
            for i, (fname, o) in enumerate(rv[2]):
                v = self.operand(st, frame, o)
                idx = names.index(fname) if names and fname in names else i
                fields[(None, idx)] = v
                fields[(None, fname)] = v   # alias by name (same python object for Adt; scalars duplicated)
            return a
        if k == 'variant':
            head = rv[1]
            segs = strip_generics(head).split('::')
            if len(segs) >= 2 and segs[-2] in self.enums:
                enum, var = segs[-2], segs[-1]
                return Adt(enum if not dest_ty else dest_ty, self.variant_index(enum, var),
                           {(var, i): self.operand(st, frame, o) for i, o in enumerate(rv[2])})
            # tuple struct
            return Adt(head, None, {(None, i): self.operand(st, frame, o) for i, o in enumerate(rv[2])})
        raise Stuck('rvalue ' + k)

    SIGNED = {'i8', 'i16', 'i32', 'i64', 'i128', 'isize'}
    def op_type(self, frame, op):
        if op[0] == 'const':
            m = re.match(r'^-?\d+_(\w+)$', op[1].strip()); return m.group(1) if m else None
        p = op[1]
        if p[0] == 'local': return frame.func.locals.get(p[1])
        if p[0] == 'field': return p[3]
        return None
    def op_signed(self, frame, op):
        t = self.op_type(frame, op)
        return t is not None and t.strip() in self.SIGNED

    def binop(self, op, a, b, dest_ty, signed=False):
        if z3.is_bool(a) and z3.is_bool(b):
            return {'Eq': a == b, 'Ne': a != b, 'BitAnd': z3.And(a, b), 'BitOr': z3.Or(a, b), 'BitXor': z3.Xor(a, b)}[op]
        if signed:
            if op == 'Lt': return a < b
            if op == 'Le': return a <= b
            if op == 'Gt': return a > b
            if op == 'Ge': return a >= b
            if op == 'AddWithOverflow':
                s_ = a + b
                return Adt('tuple', None, {(None, 0): s_, (None, 1): z3.Not(z3.And(z3.BVAddNoOverflow(a, b, True), z3.BVAddNoUnderflow(a, b)))})
            if op == 'SubWithOverflow':
                return Adt('tuple', None, {(None, 0): a - b, (None, 1): z3.Not(z3.And(z3.BVSubNoOverflow(a, b), z3.BVSubNoUnderflow(a, b, True)))})
            if op == 'MulWithOverflow':
                return Adt('tuple', None, {(None, 0): a * b, (None, 1): z3.Not(z3.And(z3.BVMulNoOverflow(a, b, True), z3.BVMulNoUnderflow(a, b)))})
            if op == 'Div': return a / b
            if op == 'Rem': return z3.SRem(a, b)
            if op in ('Shr', 'ShrUnchecked'): return a >> b
        if op in ('Add', 'AddUnchecked'): return a + b
        if op in ('Sub', 'SubUnchecked'): return a - b
        if op in ('Mul', 'MulUnchecked'): return a * b
        if op == 'Eq': return a == b
        if op == 'Ne': return a != b
        if op == 'Lt': return z3.ULT(a, b)
        if op == 'Le': return z3.ULE(a, b)
        if op == 'Gt': return z3.UGT(a, b)
        if op == 'Ge': return z3.UGE(a, b)
        if op == 'BitAnd': return a & b
        if op == 'BitOr': return a | b
        if op == 'BitXor': return a ^ b
        if op == 'AddWithOverflow':
            w = a.size(); s = a + b
            return Adt('tuple', None, {(None, 0): s, (None, 1): z3.ULT(s, a)})
        if op == 'SubWithOverflow':
            return Adt('tuple', None, {(None, 0): a - b, (None, 1): z3.ULT(a, b)})
        if op == 'MulWithOverflow':
            return Adt('tuple', None, {(None, 0): a * b, (None, 1): z3.Not(z3.BVMulNoOverflow(a, b, False))})
        if op == 'Div': return z3.UDiv(a, b)
        if op == 'Rem': return z3.URem(a, b)
        if op in ('Shl', 'ShlUnchecked'): return a << b
        if op in ('Shr', 'ShrUnchecked'): return z3.LShR(a, b)
        if op == 'Cmp':
            lt = (a < b) if signed else z3.ULT(a, b)
            return Adt('Ordering', z3.If(lt, z3.BitVecVal(2**64 - 1, 64), z3.If(a == b, z3.BitVecVal(0, 64), z3.BitVecVal(1, 64))), {})
        raise Stuck('binop ' + op)

    # ---- function resolution
    def find_impl_self(self, defname):
        m = re.search(r'<impl at ([^:]+):(\d+):', defname)
        if not m: return None
        key = (m.group(1), int(m.group(2)))
        if key not in self._implcache:
            try:
                line = open(self.repo_root + '/' + m.group(1)).read().split('\n')[int(m.group(2)) - 1]
            except Exception: line = ''
            mm = re.match(r'\s*(?:unsafe )?impl(?:<[^>]*>)?\s+(?:(.+?)\s+for\s+)?([\w:]+)', line)
            if not mm and '#[derive' in line:
                # derive-generated impl: Self is the item the attribute is attached to
                try:
                    src = open(self.repo_root + '/' + m.group(1)).read().split('\n')
                    for l2 in src[int(m.group(2)) - 1:int(m.group(2)) + 40]:
                        m3 = re.match(r'\s*(?:pub(?:\([^)]*\))?\s+)?(?:struct|enum)\s+(\w+)', l2)
                        if m3:
                            self._implcache[key] = (m3.group(1), 'derive'); break
                    else: self._implcache[key] = (None, None)
                except Exception: self._implcache[key] = (None, None)
                return self._implcache[key]
            self._implcache[key] = (ty_head(mm.group(2)), mm.group(1)) if mm else (None, None)
        return self._implcache[key]
    _implcache = {}
    repo_root = '/repo'

    def resolve_fn(self, callee):
        """callee text at a call site -> Func or None"""
        c = callee.strip()
        # async body poll:  <{async fn body of X()} as Future>::poll
        m = re.match(r'^<\{async fn body of (.+?)\(\)\} as .*Future>::poll$', c)
        if m:
            base = self.resolve_fn(m.group(1))
            if base is None: return None
            cl = self.funcs.get(base.name + '::{closure#0}')
            return cl[0] if cl else None
        plain = strip_generics(c)
        if plain in self.funcs: return self.funcs[plain][0]
        segs = plain.split('::')
        meth = segs[-1]
        cands = self.by_method.get(meth, [])
        if not cands: return None
        if len(cands) == 1 and '<impl at' not in cands[0]:
            return self.funcs[cands[0]][0] if cands[0].split('::')[-1] == meth and (len(segs) == 1 or cands[0].endswith('::'.join(segs[-1:]))) else None
        # need Self type
        selfty = None
        m = re.search(r'<impl (?:.+ for )?([\w:]+)>', c)
        if m: selfty = ty_head(m.group(1))
        elif c.startswith('<'):
            m = re.match(r'^<(.+?) as ', c)
            if m: selfty = ty_head(m.group(1))
        elif len(segs) >= 2: selfty = segs[-2]
        # several impls of one trait family for the same Self (PartialEq, PartialEq<[u8]>, ...): prefer the one whose trait text matches
        want_trait = None
        mt = re.match(r'^<.+ as ([^>]+(?:<.*>)?)>::\w+$', c)
        if mt: want_trait = re.sub(r'\b\w+::', '', mt.group(1)).replace(' ', '')
        fallback = None
        for cn in cands:
            if '<impl at' in cn:
                st_, tr_ = self.find_impl_self(cn)
                f0 = self.funcs[cn][0]
                a0 = split_top(f0.args)[0] if f0.args.strip() else ''
                a0ty = ty_head(a0.split(': ', 1)[1]) if ': ' in a0 else None
                if st_ == selfty or (st_ is None and a0ty == selfty):
                    if want_trait is None or tr_ is None or tr_ == 'derive': return f0
                    have = re.sub(r'\b\w+::', '', tr_).replace(' ', '')
                    if have == want_trait: return f0
                    if fallback is None: fallback = f0
                    continue
            elif len(segs) >= 2 and cn.endswith('::'.join(segs[-2:])):
                return self.funcs[cn][0]
            elif len(segs) == 1 and cn == meth:
                return self.funcs[cn][0]
        return fallback

    def resolve_into(self, callee):
        """`<X as Into<Y>>::into` is the blanket impl over a repository `impl From<X> for Y`"""
        m = re.match(r'^<(.+) as Into<(.+)>>::into$', callee.strip())
        if not m: return None
        x, y = m.group(1), m.group(2)
        xh = ty_head(x) if not x.startswith('(') else x
        best = None
        for name, fs in self.funcs.items():
            if not name.endswith('::from') or '<impl at' not in name: continue
            st_, tr_ = self.find_impl_self(name)
            if st_ != ty_head(y) or not tr_ or not tr_.startswith('From'): continue
            f = fs[0]
            a0 = split_top(f.args)[0] if f.args.strip() else ''
            aty = a0.split(': ', 1)[1] if ': ' in a0 else ''
            if (x.startswith('(') and aty.startswith('(')) or (not x.startswith('(') and ty_head(aty) == xh):
                best = f
        return best

    _SPAN = re.compile(r'\{(?:closure|async block|async closure|coroutine|async fn body)@([^}(]+?)(?: \(#\d+\))?\}')
    def _first_arg_index(self):
        """closure / coroutine bodies keyed by the source span printed in their first parameter's type"""
        if getattr(self, '_fai', None) is None:
            self._fai = {}
            for name, fs in self.funcs.items():
                if '{closure#' not in name: continue
                for f in fs:
                    a = split_top(f.args)[0] if f.args.strip() else ''
                    for m in self._SPAN.finditer(a):
                        self._fai.setdefault(m.group(1).strip(), f)
        return self._fai
    def resolve_closure(self, clos_ty):
        m = self._SPAN.search(clos_ty)
        if not m: return None
        return self._first_arg_index().get(m.group(1).strip())
    def resolve_async_block(self, ty):
        return self.resolve_closure(ty)

    # ---- calls
    def push_call(self, st, func, args, ret_dest, ret_bb, on_return=None, tag=None, generics=None):
        if len(st.frames) > 60: raise Stuck('call depth')
        fr = Frame(func, {}, ret_dest, ret_bb, on_return, tag)
        fr.generics = generics or {}
        if self.run_ctx is not None: self.run_ctx.note_function(func)
        for i, a in enumerate(args):
            fr.locals[f'_{i+1}'] = st.alloc(a)
        st.frames.append(fr)

    def do_return(self, st, val):
        """pop frame, deliver val. returns list of states (on_return may fork)"""
        fr = st.frames.pop()
        if fr.on_return:
            val = fr.on_return(self, st, val)
        if not st.frames:
            st.result = val; return
        caller = st.frames[-1]
        if isinstance(caller, ModelFrame):
            caller.data['ret'] = val; return
        if fr.ret_dest is not None: self.store(st, caller, fr.ret_dest, val)
        caller.block, caller.idx = fr.ret_bb, 0

    def finish_call(self, st, dest, ret_bb, val):
        fr = st.frames[-1]
        if dest is not None: self.store(st, fr, dest, val)
        fr.block, fr.idx = ret_bb, 0

    def havoc(self, st, callee, dest_ty):
        key = strip_generics(callee)[:80]
        self.stats['havoc'][key] = self.stats['havoc'].get(key, 0) + 1
        st.taint.append(key)
        return Unknown(dest_ty or '?')

    def call(self, st, frame, term):
        _, dest, callee, argops, targets = term
        args = [self.operand(st, frame, o) for o in argops]
        dest_ty = None
        if dest is not None and dest[0] == 'local': dest_ty = frame.func.locals.get(dest[1])
        elif dest is not None and dest[0] == 'field': dest_ty = dest[3]
        ret_bb = targets.get('return')
        # 1. models
        for gk, gv in getattr(frame, 'generics', {}).items():
            callee = re.sub(r'\b%s\b' % gk, gv, callee)
        for rx, h in self.models:
            if rx.search(callee):
                if self.run_ctx is not None: self.run_ctx.models_used.add(h.__name__ + ' ~ ' + rx.pattern)
                r = h(self, st, frame, callee, args, dest_ty, dest, ret_bb)
                if r is SKIP: continue
                if r is PUSHED: return [st]
                if isinstance(r, States): return r.states
                if isinstance(r, Forks):
                    feas = []
                    for cond, val, post in r.alts:
                        if cond is not None:
                            sc = z3.simplify(cond)
                            if z3.is_false(sc): continue
                            if not z3.is_true(sc) and not self.feasible(st, extra=cond): self.stats['pruned'] += 1; continue
                        feas.append((cond, val, post))
                    out = []
                    for i, (cond, val, post) in enumerate(feas):
                        s2 = st if i == len(feas) - 1 else st.clone()
                        if cond is not None: s2.pc.append(cond)
                        if post: post(s2)
                        if val is CRASH:        # the process dies here: the path ends, the environment stays as it is
                            s2.result = Obj('crash'); s2.frames = []; out.append(s2); continue
                        f2 = s2.frames[-1]
                        if dest is not None: self.store(s2, f2, dest, clone(val))
                        if ret_bb is None: continue
                        f2.block, f2.idx = ret_bb, 0
                        out.append(s2)
                    return out
                if dest is not None: self.store(st, frame, dest, r)
                if ret_bb is None: return []
                frame.block, frame.idx = ret_bb, 0
                return [st]
        # 2. crate-local MIR
        gen = dict(getattr(frame, 'generics', {}))
        callee_r = callee
        for gk, gv in gen.items():
            callee_r = re.sub(r'\b%s\b' % gk, gv, callee_r)
        fn = self.resolve_fn(callee_r)
        if fn is None:
            fn = self.resolve_into(callee_r)
        if fn is not None:
            g2 = {}
            m = re.search(r'::<([^<>]*(?:<[^<>]*>)?[^<>]*)>$', callee_r)
            if m and re.search(r'\bT\b', fn.args + fn.ret): g2['T'] = split_top(m.group(1))[-1]
            elif m and len(split_top(m.group(1))) == 1:
                # one explicit generic argument and exactly one single-letter type parameter in the signature: bind it (e.g. snapshot_meta::<Targets> with R)
                letters = sorted(set(re.findall(r'(?<![\w:])([A-Z])(?![\w:])', fn.args + fn.ret)))
                if len(letters) == 1: g2[letters[0]] = m.group(1).strip()
            # async body poll inherits generics of the constructor call stored in the coroutine object
            if 'async fn body of' in callee_r:
                mm = re.search(r'async fn body of [\w:]+<([^<>]+(?:<[^<>]*>)?)>::\w+', callee_r) or re.search(r'async fn body of .*?<(.+)>\(\)', callee_r)
                if mm and re.search(r'\bT\b', fn.args + fn.ret): g2['T'] = mm.group(1)
            self.push_call(st, fn, args, dest, ret_bb, generics=g2)
            return [st]
        # 3. havoc
        v = self.havoc(st, callee, dest_ty)
        if dest is not None: self.store(st, frame, dest, v)
        if ret_bb is None: return []
        frame.block, frame.idx = ret_bb, 0
        return [st]

    # ---- stepping
    def step(self, st):
        """execute until next fork/termination; returns list of successor states (st may be among them)"""
        fr = st.frames[-1]
        if isinstance(fr, ModelFrame):
            st.steps += 1
            if st.steps > self.max_steps: raise Stuck('step budget')
            return fr.handler(self, st, fr)
        blk = fr.func.blocks[fr.block]
        if fr.idx == 0:
            # loop bound: a block entered this often within one activation means a loop the models cannot terminate (e.g. an unmodelled iterator)
            vis = fr.__dict__.setdefault('visits', {}); n = vis.get(fr.block, 0) + 1; vis[fr.block] = n
            if n > self.stats.get('max_block_visits', 0): self.stats['max_block_visits'] = n
            if n > self.max_block_visits: raise Stuck(f'loop bound: block {fr.block} of {fr.func.name} entered {n} times in one activation')
        while fr.idx < len(blk.stmts):
            s = blk.stmts[fr.idx]; fr.idx += 1
            if s[0] == 'assign':
                dty = fr.func.locals.get(s[1][1]) if s[1][0] == 'local' else (s[1][3] if s[1][0] == 'field' else None)
                self.store(st, fr, s[1], self.rvalue(st, fr, s[2], dty))
            elif s[0] == 'setdiscr':
                v = self.load(st, fr, s[1])
                if isinstance(v, Unknown): v = self.materialize(st, v); self.store(st, fr, s[1], v)
                v.discr = int(s[2])
            elif s[0] == 'nop': pass
            else: raise Stuck('stmt ' + str(s)[:100])
        t = blk.term
        st.steps += 1
        if st.steps > self.max_steps: raise Stuck('step budget')
        k = t[0]
        if k == 'goto':
            fr.block, fr.idx = t[1], 0; return [st]
        if k == 'return':
            val = self.load(st, fr, ('local', '_0')) if '_0' in fr.locals else Adt('()')
            self.do_return(st, val); return [st]
        if k == 'drop':
            self.on_drop(st, fr, t[1])
            fr.block, fr.idx = t[2]['return'], 0; return [st]
        if k == 'assert':
            c = self.as_z3(st, self.operand(st, fr, t[1]))
            want = c if t[2] else z3.Not(c)
            out = []
            sw = z3.simplify(want)
            if z3.is_true(sw):
                fr.block, fr.idx = t[4]['success'], 0; return [st]
            if not z3.is_false(sw) and self.feasible(st, extra=z3.Not(want)) or z3.is_false(sw):
                s_fail = State(); s_fail.pc = list(st.pc) + [z3.Not(want)]; s_fail.events = list(st.events); s_fail.taint = list(st.taint)
                s_fail.env = st.env; s_fail.result = Obj('panic', msg=t[3]); s_fail.frames = []; out.append(s_fail)
            if not z3.is_false(sw):
                st.pc.append(want)
                if self.feasible(st):
                    fr.block, fr.idx = t[4]['success'], 0; out.append(st)
            return out
        if k == 'switch':
            v = self.operand(st, fr, t[1])
            v = self.as_z3(st, v)
            tg = t[2]; others = []
            items = [(kk, bb) for kk, bb in tg.items() if kk != 'otherwise']
            feas = []        # (conds to add, target block)
            for kk, bb in items:
                if z3.is_bool(v): cond = (v if int(kk) != 0 else z3.Not(v))
                else: cond = (v == z3.BitVecVal(int(kk), v.size()))
                others.append(z3.Not(cond))
                sc = z3.simplify(cond)
                if z3.is_false(sc): continue
                if z3.is_true(sc):
                    feas.append(([], bb)); break
                if self.feasible(st, extra=cond): feas.append(([cond], bb))
                else: self.stats['pruned'] += 1
            else:
                if 'otherwise' in tg:
                    bb = tg['otherwise']
                    blk = fr.func.blocks[bb]
                    if not (blk.term and blk.term[0] == 'unreachable' and not blk.stmts):
                        if self.feasible(st, extra=z3.And(others) if others else None): feas.append((others, bb))
            out = []
            for i, (conds, bb) in enumerate(feas):
                s2 = st if i == len(feas) - 1 else st.clone()
                s2.pc.extend(conds)
                f2 = s2.frames[-1]; f2.block, f2.idx = bb, 0; out.append(s2)
            return out
        if k == 'call': return self.call(st, fr, t)
        if k == 'unreachable': return []
        if k == 'resume': return []
        raise Stuck('terminator ' + k)

    def on_drop(self, st, fr, place): pass

    def run(self, st, on_done):
        """DFS over paths; on_done(state) called for each terminated path"""
        work = [st]
        while work:
            s = work.pop()
            try:
                while s.frames:
                    succ = self.step(s)
                    if len(succ) == 1 and succ[0] is s: continue
                    work.extend(x for x in succ if x is not s and x.frames)
                    for x in succ:
                        if not x.frames and x is not s: self.stats['paths'] += 1; on_done(x)
                    if s in succ: continue
                    s = None; break
                if s is not None and not s.frames:
                    self.stats['paths'] += 1; on_done(s)
            except (Stuck, AttributeError, KeyError, TypeError, IndexError, ValueError, z3.Z3Exception) as e:
                if not isinstance(e, Stuck): e = Stuck('model/interpreter cannot handle this code shape: ' + repr(e)[:160])
                top = next((f for f in reversed(s.frames) if getattr(f, 'func', None) is not None), None) if s is not None else None
                self.stats.setdefault('stuck', []).append((str(e), top.func.name if top else '-', top.block if top else '-'))

PUSHED = object()
SKIP = object()
CRASH = object()
class States:
    def __init__(s, states): s.states = states
class Forks:
    def __init__(s, alts): s.alts = alts   # list of (cond|None, value, post_fn|None)
