"""load_delegations from MIR over concrete delegation-tree shapes with symbolic documents.

A tree is a nested dict {role name: sub-tree or None}; each role's served document gets a symbolic id; the snapshot
document lists role files in slots 2..; Delegations::verify_role is the C01 oracle VD(parent doc, role name, child doc).
"""
import z3, re
from client import *

VD = z3.Function('VD', ID, ID, ID, z3.BoolSort())        # parent document id, role name id, child document id
UNWIND = 6

class Tree:
    def __init__(self, shape, pfx='d'):
        """shape: {name: subshape|None|'self'}"""
        self.names = []; self.node = {}
        self.pfx = pfx
        def walk(sh, depth, parent):
            for n, sub in sh.items():
                if n not in self.names: self.names.append(n)
                self.node.setdefault(n, {'sub': sub, 'depth': depth})
                if isinstance(sub, dict): walk(sub, depth + 1, n)
        walk(shape, 1, None)
        self.shape = shape
        self.doc = {n: z3.BitVec(f'{pfx}_doc_{n}', 8) for n in self.names}
        self.parses = {n: z3.Bool(f'{pfx}_parses_{n}') for n in self.names}
        self.fetch_err = {n: z3.Bool(f'{pfx}_fetch_err_{n}') for n in self.names}
        self.nid = {n: IDV(100 + i) for i, n in enumerate(self.names)}
        self.slot = {n + '.json': 2 + i for i, n in enumerate(self.names)}
        self.chunks = {n: sym_chunks(f'{pfx}_{n}', 1) for n in self.names}

def mk_delegations(st, T, shape, parent_doc, depth=0):
    """Delegations value whose roles vec lists `shape`'s names (targets: None until loaded)"""
    elems = []
    for n in shape:
        elems.append(st.alloc(Adt('DelegatedRole', None, {
            (None, F('DelegatedRole', 'name')): Obj('str', s=n, nid=T.nid[n]),
            (None, F('DelegatedRole', 'keyids')): Obj('vec', elems=[]),
            (None, F('DelegatedRole', 'threshold')): BV64(1),
            (None, F('DelegatedRole', 'paths')): Obj('pathset', of=n),
            (None, F('DelegatedRole', 'terminating')): z3.BoolVal(False),
            (None, F('DelegatedRole', 'targets')): Adt('Option<Signed<Targets>>', 0, {})})))
    return Adt('Delegations', None, {(None, F('Delegations', 'keys')): Obj('keymap', of=parent_doc), (None, F('Delegations', 'roles')): Obj('vec', elems=elems), (None, 'parent'): parent_doc})

def role_doc(st, T, name, depth):
    sub = T.node[name]['sub']
    did = T.doc[name]
    if sub == 'self': sub = {name: 'self'}
    if isinstance(sub, dict):
        if depth > UNWIND: dele = None
        else: dele = mk_delegations(st, T, sub, did, depth)
        d = targets_doc(did, dele if dele is not None else False)
        if dele is None: d.fields[(None, 'unwound')] = True
        return d
    return targets_doc(did, False)

# ---- models -----------------------------------------------------------------------------------------------------
def m_vec_into_iter(I, st, fr, callee, args, dty, dest, ret_bb):
    return Obj('iter', vec=args[0], pos=0)
def m_map_new(I, st, fr, callee, args, dty, dest, ret_bb): return Obj('strmap', entries={})
def skey(I, st, v):
    v = deref(I, st, v)
    while isinstance(v, Ref): v = I.deref_load(st, v)
    if v.d.get('s') is not None: return v.d['s']
    ps = pieces_of(v)
    return ''.join(p if isinstance(p, str) else str(p) for p in ps)
def m_map_insert(I, st, fr, callee, args, dty, dest, ret_bb):
    m = deref(I, st, args[0]); k = skey(I, st, args[1])
    old = m.d['entries'].get(k)
    m.d['entries'] = dict(m.d['entries']); m.d['entries'][k] = mat(I, st, args[2])
    return mk_some(old) if old is not None else mk_none()
def m_map_remove(I, st, fr, callee, args, dty, dest, ret_bb):
    m = deref(I, st, args[0]); k = skey(I, st, args[1])
    e = dict(m.d['entries']); v = e.pop(k, None); m.d['entries'] = e
    return mk_some(v) if v is not None else mk_none()
def m_encode_filename(I, st, fr, callee, args, dty, dest, ret_bb):
    v = deref(I, st, args[0])
    while isinstance(v, Ref): v = I.deref_load(st, v)
    st.events.append(('encode_filename', v.d.get('s')))
    return Obj('str', s=None, pieces=['enc(%s)' % v.d.get('s')])
def m_deleg_verify(I, st, fr, callee, args, dty, dest, ret_bb):
    d = deref(I, st, args[0]); role = deref(I, st, args[1]); name = deref(I, st, args[2])
    while isinstance(name, Ref): name = I.deref_load(st, name)
    parent = d.fields.get((None, 'parent')); did = doc_id(role); nid = name.d.get('nid')
    st.events.append(('deleg_verify', parent, name.d.get('s'), did))
    return mk_result(ok=unit(), err=error('SignatureThreshold'), discr=z3.If(VD(parent, nid, did), BV64(0), BV64(1)))
def m_box_pin(I, st, fr, callee, args, dty, dest, ret_bb):
    return Adt('Pin<Box<async block>>', None, {(None, 0): Ref(st.alloc(args[0]))})
def m_opt_as_mut(I, st, fr, callee, args, dty, dest, ret_bb):
    return args[0]

def strval(I, st, v):
    v = deref(I, st, v)
    while isinstance(v, Ref): v = I.deref_load(st, v)
    return v.d.get('s') if isinstance(v, Obj) else None
def slice_cells(I, st, v):
    """cells of a slice value: a Vec / slice object, or an array aggregate `[a, b, ..]` coerced to a slice"""
    v = deref(I, st, v)
    if isinstance(v, Obj) and 'elems' in v.d: return list(v.d['elems'])
    if isinstance(v, Adt):
        idx = sorted(k[1] for k in v.fields if k[0] is None and isinstance(k[1], int))
        if idx == list(range(len(idx))): return [st.alloc(v.fields[(None, i)]) for i in idx]
    raise Stuck(f'slice of {v!r}')
def m_strslice_contains(I, st, fr, callee, args, dty, dest, ret_bb):
    want = strval(I, st, args[1])
    have = [strval(I, st, Ref(c)) for c in slice_cells(I, st, args[0])]
    if want is None or any(h is None for h in have): raise Stuck('contains over non-concrete role names')
    return z3.BoolVal(want in have)
def m_strslice_to_vec(I, st, fr, callee, args, dty, dest, ret_bb):
    return Obj('vec', elems=[st.alloc(clone(st.heap[c])) for c in slice_cells(I, st, args[0])])
def m_strvec_push(I, st, fr, callee, args, dty, dest, ret_bb):
    vec = deref(I, st, args[0]); vec.d['elems'] = vec.d['elems'] + [st.alloc(mat(I, st, args[1]))]; return unit()

DELEG_MODELS = [
    (R(r'^core::slice::<impl \[std::string::String\]>::contains$'), m_strslice_contains),
    (R(r'^(core|std)::slice::<impl \[std::string::String\]>::to_vec$'), m_strslice_to_vec),
    (R(r'^Vec::<std::string::String>::push$'), m_strvec_push),
    (R(r'^<Vec<std::string::String> as Deref>::deref$'), m_identity),
    (R(r'^<&(mut )?Vec<DelegatedRole> as IntoIterator>::into_iter$'), m_vec_into_iter),
    (R(r'^<std::slice::Iter(Mut)?<.*DelegatedRole> as Iterator>::next$'), m_iter_next_g),
    (R(r'^HashMap::<std::string::String, std::option::Option<schema::Signed<Targets>>>::new$'), m_map_new),
    (R(r'^HashMap::<std::string::String, std::option::Option<schema::Signed<Targets>>>::insert$'), m_map_insert),
    (R(r'^HashMap::<std::string::String, std::option::Option<schema::Signed<Targets>>>::remove::<'), m_map_remove),
    (R(r'^encode_filename::<'), m_encode_filename),
    (R(r'^verify::<impl Delegations>::verify_role$'), m_deleg_verify),
    (R(r'^Box::<\{async block@.*\}>::pin$'), m_box_pin),
]

def dparams(T, pfx='p'):
    P = ts_params(0, pfx)
    P.update(sn=z3.BitVec(f'{pfx}_sn', 8), maxsz=z3.BitVec(f'{pfx}_deleg_max_size', 64), cons=z3.Bool(f'{pfx}_consistent'), top=z3.BitVec(f'{pfx}_top_targets', 8))
    P['lkt_present'] = z3.BoolVal(False); P['join_fails'] = z3.BoolVal(False)
    return P

def summarize_load_delegations(I, T, P, io_faults=False):
    st = base_state(P, io_faults)
    sn = st.alloc(snapshot_doc(P.sn, extra_slots=T.slot))
    ds = mk_datastore(st); base = base_url(st)
    top = mk_delegations(st, T, T.shape, P.top)
    topcell = st.alloc(top)
    def name_of_url(key):
        m = re.search(r'enc\(([^)]*)\)', ''.join(key[1]))
        return m.group(1) if m else None
    def transport(st_, key):
        n = name_of_url(key)
        if n is None or n not in T.names: raise Stuck('fetch of unexpected url ' + str(key))
        return {'fetch_err': T.fetch_err[n], 'fetch_err_kind': P.fetch_err_kind, 'chunks': T.chunks[n], 'chunk_err_kind': P.chunk_err_kind}
    def served(st_, url, ty):
        n = name_of_url(url)
        depth = sum(1 for e in st_.events if e[0] == 'parse' and name_of_url(e[1]) == n)   # how often this role was parsed so far (recursion depth for self-delegation)
        nfetch = sum(1 for e in st_.events if e[0] == 'fetch')
        d = role_doc(st_, T, n, nfetch)     # unwinding bound on the number of role files fetched so far
        if d.fields.get((None, 'unwound')): st_.events.append(('unwind_exceeded', n))
        return (T.parses[n], d)
    st.env['transport'] = transport; st.env['served'] = served
    saved = list(I.models); I.models[:0] = DELEG_MODELS
    try:
        kw = dict(transport=Obj('dyn_transport'), snapshot=Ref(sn), consistent_snapshot=P.cons, metadata_base_url=Ref(base),
                  max_targets_size=P.maxsz, delegation=Ref(topcell), datastore=Ref(ds))
        # a list of ancestor role names, if the traversal carries one (cycle protection)
        fn = find_fn(I, 'load_delegations')
        for extra in fn.debug:
            if extra not in kw and re.match(r'^_\d+$', fn.debug[extra].strip()):
                if 'String]' in fn.locals.get(fn.debug[extra].strip(), '') or 'Vec<std::string::String>' in fn.locals.get(fn.debug[extra].strip(), ''):
                    kw[extra] = Ref(st.alloc(Obj('vec', elems=[])))
        done = run_async(I, st, 'load_delegations', kw)
    finally:
        I.models[:] = saved
    paths = [Path(s) for s in done]
    for p in paths: p.top = topcell
    return paths

def _cyclic(T, n):
    seen = set(); cur = T.node[n]['sub']
    return cur == 'self'

SHAPES_QUICK = [{'a': None}, {'a': None, 'b': None}, {'a': {'c': None}}]
SHAPES_THOROUGH = SHAPES_QUICK + [{'a': {'c': None, 'e': None}, 'b': None}, {'a': {'c': {'g': None}}}]

def c05_obligations(R, I, tier):
    for shape in (SHAPES_QUICK if tier == 'quick' else SHAPES_THOROUGH):
        T = Tree(shape); P = dparams(T)
        paths = summarize_load_delegations(I, T, P); R.check_interp_clean(I, f'load_delegations{shape}')
        label = 'load_delegations' + str(shape).replace("'", '')
        for p in paths:
            if p.cls == 'panic': continue
            R.paths += 1
            if p.ok:
                for e in p.ev('fetch'):
                    n = re.search(r'enc\(([^)]*)\)', ''.join(e[1][1])).group(1)
                    sl = IDV(T.slot[n + '.json'])
                    R.obligation(f'{label}: delegated role {n} trusted => listed in the snapshot', p.pc, MPresent(P.sn, sl), group='delegated/listed')
                    R.obligation(f'{label}: delegated role {n} trusted => version equals the snapshot-listed version', p.pc, Ver(T.doc[n]) == MVer(P.sn, sl), group='delegated/version-eq')
                    rel = e[2]
                    want_c = len(rel) == 4 and z3.is_bv(rel[0]) and rel[1] == '.' and rel[2] == f'enc({n})' and rel[3] == '.json'
                    want_n = len(rel) == 2 and rel[0] == f'enc({n})' and rel[1] == '.json'
                    R.obligation(f'{label}: delegated role {n} requested as "{{version}}.{{encoded name}}.json" iff consistent snapshots', p.pc,
                                 z3.And(P.cons, rel[0] == MVer(P.sn, sl)) if want_c else (z3.Not(P.cons) if want_n else z3.BoolVal(False)), group='delegated/name')
                    R.obligation(f'{label}: delegated role {n} looked up in the snapshot under "{n}.json"', p.pc,
                                 z3.BoolVal(any(ev[0] == 'meta.get' and ev[2] in (n + '.json', (n, '.json')) for ev in p.events)), group='delegated/lookup-key')
            if 'RoleNotInMeta' in p.cls:
                R.obligation(f'{label}: RoleNotInMeta only if some role file is not listed', p.pc, z3.Or([z3.Not(MPresent(P.sn, IDV(s))) for s in T.slot.values()]), group='delegated/reject-justified')
            if 'VersionMismatch' in p.cls:
                R.obligation(f'{label}: VersionMismatch only if some role version differs from its listing', p.pc,
                             z3.Or([Ver(T.doc[n]) != MVer(P.sn, IDV(T.slot[n + '.json'])) for n in T.names]), group='delegated/reject-justified')
        R.reach_any(f'{label}: all roles loaded', [p.pc for p in paths if p.ok and len(p.ev('fetch')) == len(T.names)])
        R.samples.append({'delegation shape': shape, 'paths': len(paths)})
