"""Directed client-conformance scenarios for the `history` replay op, with the outcome the TUF client workflow demands.
Used as a fall-back replay: when a solver counterexample of a client-side property could not be turned into its own scenario,
these runs decide whether the real library misbehaves in the corresponding way (a deviation is a reproduced violation)."""
import copy

ROLES = ('timestamp', 'snapshot', 'targets')
KEY = {'root': 0, 'timestamp': 1, 'snapshot': 2, 'targets': 3}

def base_root(version=1, **roles):
    r = {'id': version, 'version': version, 'consistent': False, 'table': [0, 1, 2, 3, 4, 5], 'signers': [0], 'expires': 86400 * 30,
         'roles': {'root': {'keys': [0], 'thr': 1}, 'timestamp': {'keys': [1], 'thr': 1}, 'snapshot': {'keys': [2], 'thr': 1}, 'targets': {'keys': [3], 'thr': 1}}}
    for k, v in roles.items(): r['roles'][k] = v
    return r

def cyc(v=1, **kw):
    c = {'shipped': 0, 'serve_roots': {}, 'consistent': False, 'safe': True,
         'timestamp': {'id': 10, 'version': v, 'signers': [1], 'expires': 86400}, 'snapshot': {'id': 11, 'version': v, 'signers': [2], 'expires': 86400},
         'targets': {'id': 12, 'version': v, 'signers': [3], 'expires': 86400}, 'ts_meta': {'version': v}, 'sn_meta': {'version': v}}
    c.update(kw); return c

def scenario(roots, cycles): return {'nkeys': 6, 'roots': roots, 'cycles': cycles}

def signature_cases():
    out = []
    for role in ROLES:
        k = KEY[role]
        for what, rk, signers, ok in (('unsigned', {'keys': [k], 'thr': 1}, [], False), ('signed by a key that is not authorised', {'keys': [k], 'thr': 1}, [4], False),
                                      ('threshold 2 of [k, k2], one signature', {'keys': [k, 4], 'thr': 2}, [k], False), ('threshold 2 of [k, k2], both signatures', {'keys': [k, 4], 'thr': 2}, [k, 4], True),
                                      ('threshold 2 of [k, k2], the same key twice', {'keys': [k, 4], 'thr': 2}, [k, k], False), ('threshold 2, one authorised and one foreign signature', {'keys': [k, 4], 'thr': 2}, [k, 5], False)):
            c = cyc(); c[role] = dict(c[role], signers=signers)
            out.append((f'{role}.json {what}', scenario([base_root(**{role: rk})], [c]), lambda r, ok=ok: r['cycles'][0]['ok'] != ok, 'signatures'))
    return out

def rollback_cases():
    out = []
    for role in ROLES:
        c1 = cyc(5); c2 = cyc(5)
        c2[role] = dict(c2[role], version=4)
        if role == 'snapshot': c2['ts_meta'] = {'version': 4}
        if role == 'targets': c2['sn_meta'] = {'version': 4}
        out.append((f'second cycle serves {role}.json one version lower (same root, same keys)', scenario([base_root()], [c1, c2]), lambda r: r['cycles'][0]['ok'] and r['cycles'][1]['ok'], 'rollback'))
    out.append(('second cycle serves the same versions again', scenario([base_root()], [cyc(5), cyc(5)]), lambda r: not (r['cycles'][0]['ok'] and r['cycles'][1]['ok']), 'rollback'))
    return out

def meta_cases():
    out = []
    c = cyc(3); c['ts_meta'] = {'version': 4}
    out.append(('timestamp lists snapshot version 4, snapshot.json says 3', scenario([base_root()], [c]), lambda r: r['cycles'][0]['ok'], 'meta'))
    c = cyc(3); c['sn_meta'] = {'version': 2}
    out.append(('snapshot lists targets version 2, targets.json says 3', scenario([base_root()], [c]), lambda r: r['cycles'][0]['ok'], 'meta'))
    c = cyc(3); c['ts_meta'] = {'version': 3, 'pin_hash': True, 'wrong_hash': True}
    out.append(('timestamp pins a SHA-256 for snapshot.json that does not match', scenario([base_root()], [c]), lambda r: r['cycles'][0]['ok'], 'meta'))
    c = cyc(3); c['sn_meta'] = {'version': 3, 'pin_hash': True, 'wrong_hash': True}
    out.append(('snapshot pins a SHA-256 for targets.json that does not match', scenario([base_root()], [c]), lambda r: r['cycles'][0]['ok'], 'meta'))
    # delegated role d (key 4): the snapshot lists one version, the served role file carries another
    for listed, served, what in ((1, 2, 'newer'), (2, 1, 'older')):
        c = cyc(3)
        c['targets'] = dict(c['targets'], delegations=[{'name': 'd', 'keys': [4], 'thr': 1, 'table': [4], 'doc': {'version': served, 'signers': [4], 'ntargets': 1}}])
        c['sn_meta'] = {'version': 3, 'delegated': {'d': {'version': listed}}}
        out.append((f'snapshot lists delegated role d at version {listed}, the served d.json is the {what} version {served} (correctly signed)', scenario([base_root()], [c]), lambda r: r['cycles'][0]['ok'], 'meta'))
    c = cyc(3)
    c['targets'] = dict(c['targets'], delegations=[{'name': 'd', 'keys': [4], 'thr': 1, 'table': [4], 'doc': {'version': 1, 'signers': [4], 'ntargets': 1}}])
    c['sn_meta'] = {'version': 3, 'delegated': {'d': {'version': 1}}}
    out.append(('delegated role d listed and served at the same version', scenario([base_root()], [c]), lambda r: not r['cycles'][0]['ok'], 'meta'))
    c = cyc(3)
    c['targets'] = dict(c['targets'], delegations=[{'name': 'd', 'keys': [4], 'thr': 1, 'table': [4], 'doc': {'version': 1, 'signers': [5], 'ntargets': 1}}])
    c['sn_meta'] = {'version': 3, 'delegated': {'d': {'version': 1}}}
    out.append(('delegated role d signed by a key its delegation does not list', scenario([base_root()], [c]), lambda r: r['cycles'][0]['ok'], 'meta'))
    # consistent snapshots: the delegated role file is named by ITS listed version (1), which differs from the snapshot's (3) and the targets' (3)
    c = cyc(3, consistent=True)
    c['targets'] = dict(c['targets'], delegations=[{'name': 'd', 'keys': [4], 'thr': 1, 'table': [4], 'doc': {'version': 1, 'signers': [4], 'ntargets': 1}}])
    c['sn_meta'] = {'version': 3, 'delegated': {'d': {'version': 1}}}
    rc = base_root(); rc['consistent'] = True
    out.append(('consistent snapshots: delegated role d listed and served at version 1 while snapshot and targets are at version 3', scenario([rc], [c]), lambda r: not r['cycles'][0]['ok'], 'meta'))
    c = cyc(3); c['ts_meta'] = {'version': 3, 'pin_len': True, 'len_delta': -10}
    out.append(('timestamp pins a length for snapshot.json that is 10 bytes too short', scenario([base_root()], [c]), lambda r: r['cycles'][0]['ok'], 'meta'))
    return out

def expiry_cases():
    out = []
    for role in ROLES:
        c = cyc(); c[role] = dict(c[role], expires=-3600)
        out.append((f'{role}.json expired an hour ago, enforcement on', scenario([base_root()], [c]), lambda r: r['cycles'][0]['ok'], 'expiry'))
        c2 = copy.deepcopy(c); c2['safe'] = False
        out.append((f'{role}.json expired an hour ago, enforcement off', scenario([base_root()], [c2]), lambda r: not r['cycles'][0]['ok'], 'expiry'))
    return out

def failed_cycle_cases():
    """cycle 1 trusts version 5 of everything; cycle 2 is served version 6 but fails at `role` (unsigned document); cycle 3 replays version 4:
    whatever the failed cycle did to the datastore, the replay must still be refused; and a later valid version 6 must still be accepted"""
    out = []
    for role in ('snapshot', 'targets'):
        c1 = cyc(5); c2 = cyc(6); c2[role] = dict(c2[role], signers=[])
        c3 = cyc(4)
        out.append((f'after trusting version 5, a cycle that fails at {role}.json (unsigned), then a replay of version 4 of everything', scenario([base_root()], [c1, c2, c3]),
                    lambda r: not (r['cycles'][0]['ok'] and not r['cycles'][1]['ok'] and not r['cycles'][2]['ok']), 'failed-cycle'))
        c3b = cyc(5); c3b['timestamp'] = dict(c3b['timestamp'], version=4)
        out.append((f'after trusting version 5, a cycle that fails at {role}.json (unsigned), then a replay of the older timestamp 4 (snapshot / targets unchanged)', scenario([base_root()], [c1, c2, c3b]),
                    lambda r: not (r['cycles'][0]['ok'] and not r['cycles'][1]['ok'] and not r['cycles'][2]['ok']), 'failed-cycle'))
        out.append((f'after a cycle that fails at {role}.json, a complete valid version 6 is accepted', scenario([base_root()], [c1, c2, cyc(6)]),
                    lambda r: not (r['cycles'][0]['ok'] and not r['cycles'][1]['ok'] and r['cycles'][2]['ok']), 'failed-cycle'))
    return out

def all_cases(kinds=None):
    cases = signature_cases() + rollback_cases() + meta_cases() + expiry_cases() + failed_cycle_cases()
    return [c for c in cases if kinds is None or c[3] in kinds]

def run(R, kinds=None, label='client conformance menu'):
    """returns True if a deviation was found (and reported as a violation)"""
    for desc, sc, violated, kind in all_cases(kinds):
        real = R.replay('history', sc)
        R.differential['scenarios'] += 1
        if violated(real):
            R.report_violation(f'{label}: {desc} — observed ' + str([{k: c.get(k) for k in ("ok", "err")} for c in real['cycles']]), sc)
            return True
        R.differential['agree'] += 1
    return False
