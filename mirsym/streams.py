"""Transport / stream / url / format! / digest models and re-entrant stream drivers."""
import re, z3
from sym import *
from models import *

BV64 = lambda v: z3.BitVecVal(v, 64)
DIG = z3.BitVecSort(16)

# ---------------------------------------------------------------- url
def pieces_of(v):
    if isinstance(v, Obj):
        if v.d.get('pieces') is not None: return list(v.d['pieces'])
        if v.d.get('s') is not None: return [v.d['s']]
    return [v]
def m_url_join(I, st, fr, callee, args, dty, dest, ret_bb):
    base = deref(I, st, args[0]); rel = deref(I, st, args[1])
    u = Obj('url', base=base.d.get('key', '?') if isinstance(base, Obj) else '?', rel=pieces_of(rel))
    st.events.append(('url.join', url_key(u)))
    jf = st.env.get('url_join_fails')
    if jf is not None:
        return mk_result(ok=u, err=Obj('url_parse_error'), discr=z3.If(jf, BV64(1), BV64(0)))
    return mk_ok(u)
def m_clone(I, st, fr, callee, args, dty, dest, ret_bb): return clone(deref(I, st, args[0]))
def url_key(u):
    return (u.d['base'], tuple(p if isinstance(p, str) else str(p) for p in u.d['rel']))

# ---------------------------------------------------------------- format!  (1.97 template encoding)
def m_fmt_arg(I, st, fr, callee, args, dty, dest, ret_bb):
    v = deref(I, st, args[0])
    while isinstance(v, Ref): v = I.deref_load(st, v)
    return Obj('fmtarg', val=v)
def m_fmt_args_new(I, st, fr, callee, args, dty, dest, ret_bb):
    tmpl = deref(I, st, args[0]); arr = deref(I, st, args[1])
    b = tmpl.d['b']; pieces = []; i = 0; argi = 0
    while i < len(b):
        n = b[i]; i += 1
        if n == 0: break
        if n < 0x80: pieces.append(b[i:i+n].decode()); i += n
        elif n == 0x80:
            ln = b[i] | (b[i+1] << 8); pieces.append(b[i+2:i+2+ln].decode()); i += 2 + ln
        elif n == 0xC0:
            a = arr.fields[(None, argi)]; argi += 1
            v = a.d['val'] if isinstance(a, Obj) and a.kind == 'fmtarg' else a
            if isinstance(v, Obj) and v.kind == 'str': pieces.extend(pieces_of(v))
            else: pieces.append(v)
        else:
            raise Stuck('format! placeholder with options 0x%02x' % n)
    return Obj('fmtargs', pieces=pieces)
def m_format(I, st, fr, callee, args, dty, dest, ret_bb):
    a = mat(I, st, args[0])
    return Obj('str', s=None, pieces=a.d['pieces'])
def m_to_owned(I, st, fr, callee, args, dty, dest, ret_bb):
    v = deref(I, st, args[0])
    if isinstance(v, Obj) and v.kind == 'str': return Obj('str', s=v.d.get('s'), pieces=pieces_of(v))
    return clone(v)

# ---------------------------------------------------------------- transport + streams
def m_transport_fetch(I, st, fr, callee, args, dty, dest, ret_bb):
    return leaf_future('transport_fetch', url=mat(I, st, args[1]))
def op_transport_fetch(I, st, fut):
    url = fut.d['url']; key = url_key(url)
    script = st.env['transport'](st, key)
    st.events.append(('fetch', key, list(url.d['rel']), script))
    stream = Obj('stream', skind='script', pos=0, script=script, url=key)
    alts = []
    fe = script.get('fetch_err')
    if fe is not None and not z3.is_false(fe):
        alts.append((fe, mk_ready(mk_err(Obj('terror', tkind=script.get('fetch_err_kind', 1), url=key))), None))
        if not z3.is_true(fe):
            alts.append((z3.Not(fe), mk_ready(mk_ok(stream)), None))
    else:
        alts.append((None, mk_ready(mk_ok(stream)), None))
    return Forks(alts)
LEAF_OPS['transport_fetch'] = op_transport_fetch

def m_stream_map(I, st, fr, callee, args, dty, dest, ret_bb):
    return Obj('stream', skind='map', inner=mat(I, st, args[0]), clos=st.alloc(mat(I, st, args[1])))
def m_boxed(I, st, fr, callee, args, dty, dest, ret_bb): return args[0]

def push_stream_next(I, st, ref):
    """push a driver that yields Option<Result<Bytes,TransportError>> for the stream value stored at `ref`"""
    st.frames.append(ModelFrame(h_stream_next, {'ref': ref, 'phase': 0}))

def _digest_poll_fn(I):
    for n in I.funcs:
        if 'io.rs' in n and n.endswith('::poll_next'): return I.funcs[n][0]
    raise Stuck('DigestAdapter::poll_next not found')

def h_stream_next(I, st, fr):
    d = fr.data; s = I.deref_load(st, d['ref'])
    if isinstance(s, Adt) and 'DigestAdapter' in s.ty:
        if d['phase'] == 0:
            d['phase'] = 1
            I.push_call(st, _digest_poll_fn(I), [Adt('Pin', None, {(None, 0): d['ref']}), Obj('cx')], None, None)
            return [st]
        poll = d.pop('ret')
        I.do_return(st, poll.fields[('Ready', 0)]); return [st]
    if not isinstance(s, Obj): raise Stuck('stream_next on ' + repr(s)[:80])
    if s.d['skind'] == 'script':
        sc = s.d['script']; pos = s.d['pos']; chunks = sc['chunks']
        if pos >= len(chunks):
            if sc.get('endless'):
                # the server never stops: whatever is read past the provisioned chunks is more data than any bound allows
                st.events.append(('endless_read', s.d['url']))
                ln = z3.BitVecVal(2**63, 64); st.events.append(('chunk_len', ln))
                I.do_return(st, mk_some(mk_ok(Obj('bytes', len=ln, content=z3.BitVec(fresh_name('endless'), 16))))); return [st]
            I.do_return(st, mk_none()); return [st]
        exists, is_err, ln, content = chunks[pos]
        out = []
        ek = sc.get('chunk_err_kind', 2)
        for cond, val, adv, good in ((z3.Not(exists), mk_none(), False, False),
                               (z3.And(exists, is_err), mk_some(mk_err(Obj('terror', tkind=ek, url=s.d['url']))), True, False),
                               (z3.And(exists, z3.Not(is_err)), mk_some(mk_ok(Obj('bytes', len=ln, content=content))), True, True)):
            s2 = st.clone(); s2.pc.append(cond)
            if not I.feasible(s2): continue
            so = I.deref_load(s2, d['ref'])
            so.d['pos'] = (pos + 1) if adv else len(chunks)
            if good:
                s2.events.append(('chunk', s.d['url'], pos)); s2.events.append(('chunk_len', ln))
            I.do_return(s2, val); out.append(s2)
        return out
    if s.d['skind'] == 'map':
        if d['phase'] == 0:
            d['phase'] = 1
            inner_cell = s.d.get('inner_cell')
            if inner_cell is None:
                inner_cell = st.alloc(s.d['inner']); s.d['inner_cell'] = inner_cell
            push_stream_next(I, st, Ref(inner_cell)); return [st]
        if d['phase'] == 1:
            item = d.pop('ret')
            if item.discr == 0:
                I.do_return(st, mk_none()); return [st]
            d['phase'] = 2
            clos = st.heap[s.d['clos']]
            fn = I.resolve_closure(clos.ty)
            if fn is None: raise Stuck('map closure not found: ' + clos.ty[:80])
            I.push_call(st, fn, [Ref(s.d['clos']), item.fields[('Some', 0)]], None, None)
            return [st]
        val = d.pop('ret')
        I.do_return(st, mk_some(val)); return [st]
    raise Stuck('stream kind ' + s.d['skind'])

def m_dyn_stream_poll_next(I, st, fr, callee, args, dty, dest, ret_bb):
    """<dyn Stream as Stream>::poll_next(Pin<&mut dyn Stream>, cx) -> Poll<Option<Item>>"""
    pin = mat(I, st, args[0]); r = mat(I, st, pin.fields[(None, 0)])
    # r refers to the place holding a Pin<Box<dyn Stream>> (our model: the stream value itself)
    st.frames.append(ModelFrame(h_poll_wrap, {'ref': r, 'phase': 0}, dest, ret_bb)); return PUSHED
def h_poll_wrap(I, st, fr):
    d = fr.data
    if d['phase'] == 0:
        d['phase'] = 1; push_stream_next(I, st, d['ref']); return [st]
    I.do_return(st, mk_ready(d.pop('ret'))); return [st]
def m_pin_as_mut(I, st, fr, callee, args, dty, dest, ret_bb):
    return Adt('Pin', None, {(None, 0): mat(I, st, args[0])})
def m_pin_deref(I, st, fr, callee, args, dty, dest, ret_bb):
    pin = deref(I, st, args[0]); return pin.fields[(None, 0)]

def m_into_vec(I, st, fr, callee, args, dty, dest, ret_bb):
    return leaf_future('into_vec', stream=st.alloc(mat(I, st, args[0])))
def m_poll_dynfuture(I, st, fr, callee, args, dty, dest, ret_bb):
    pin = mat(I, st, args[0])
    fut = deref(I, st, pin.fields[(None, 0)])
    if isinstance(fut, Adt) and 'Pin' in fut.ty: fut = deref(I, st, fut.fields[(None, 0)])
    if isinstance(fut, Adt) and 'async block@' in fut.ty or (isinstance(fut, Adt) and 'coroutine@' in fut.ty):
        fn = I.resolve_async_block(fut.ty)
        if fn is None: raise Stuck('async block body not found: ' + fut.ty[:80])
        ref = pin.fields[(None, 0)]
        inner = I.deref_load(st, ref)
        if isinstance(inner, Adt) and 'Pin' in inner.ty: ref = inner.fields[(None, 0)]
        I.push_call(st, fn, [Adt('Pin', None, {(None, 0): ref}), Obj('cx')], dest, ret_bb); return PUSHED
    if not (isinstance(fut, Obj) and fut.kind == 'leaf_future'): raise Stuck('dyn future poll on ' + repr(fut)[:80])
    if fut.d['op'] == 'into_vec':
        st.frames.append(ModelFrame(h_into_vec, {'cell': fut.d['stream'], 'acc': [], 'total': BV64(0), 'phase': 0}, dest, ret_bb))
        return PUSHED
    return LEAF_OPS[fut.d['op']](I, st, fut)

def stream_url(I, st, s):
    while True:
        if isinstance(s, Adt) and 'DigestAdapter' in s.ty:
            for v in s.fields.values():
                if isinstance(v, Obj) and v.kind == 'stream': s = v; break
            else: return None
            continue
        if isinstance(s, Obj) and s.kind == 'stream':
            if s.d['skind'] == 'script': return s.d['url']
            if 'inner_cell' in s.d: s = st.heap[s.d['inner_cell']]
            else: s = s.d['inner']
            continue
        return None

def h_into_vec(I, st, fr):
    d = fr.data
    if d['phase'] == 0:
        d['phase'] = 1; push_stream_next(I, st, Ref(d['cell'])); return [st]
    item = d.pop('ret')
    if item.discr == 0:
        url = stream_url(I, st, st.heap[d['cell']])
        st.events.append(('stream_end', url, d['total']))
        I.do_return(st, mk_ready(mk_ok(Obj('vec', content=Obj('concat', parts=tuple(d['acc'])), len=d['total'], url=url)))); return [st]
    r = item.fields[('Some', 0)]
    if r.discr == 1:
        I.do_return(st, mk_ready(mk_err(r.fields[('Err', 0)]))); return [st]
    b = r.fields[('Ok', 0)]
    d['acc'] = d['acc'] + [b.d['content']]; d['total'] = d['total'] + b.d['len']
    st.events.append(('accepted_bytes', b.d['len']))
    d['phase'] = 0
    return [st]

def m_bytes_len(I, st, fr, callee, args, dty, dest, ret_bb): return deref(I, st, args[0]).d['len']
def m_try_into_u64(I, st, fr, callee, args, dty, dest, ret_bb): return mk_ok(I.as_z3(st, args[0]))
def m_unwrap_or(I, st, fr, callee, args, dty, dest, ret_bb):
    v = mat(I, st, args[0]); d = discr_of(I, st, v)
    okk = ('Ok', 0) if ('Ok', 0) in v.fields or 'Result' in v.ty else ('Some', 0)
    want = 0 if okk[0] == 'Ok' else 1
    if isinstance(d, int): return v.fields[okk] if d == want else args[1]
    a = v.fields.get(okk)
    if isinstance(a, Unknown): a = I.materialize(st, a); v.fields[okk] = a
    if isinstance(a, (z3.ExprRef,)) and isinstance(args[1], z3.ExprRef): return z3.If(d == want, a, args[1])
    raise Stuck('unwrap_or on symbolic non-scalar')
def m_saturating_add(I, st, fr, callee, args, dty, dest, ret_bb):
    a, b = I.as_z3(st, args[0]), I.as_z3(st, args[1]); s = a + b
    return z3.If(z3.ULT(s, a), z3.BitVecVal(2**a.size() - 1, a.size()), s)
def m_saturating_sub(I, st, fr, callee, args, dty, dest, ret_bb):
    a, b = I.as_z3(st, args[0]), I.as_z3(st, args[1]); return z3.If(z3.ULT(a, b), z3.BitVecVal(0, a.size()), a - b)
def m_saturating_mul(I, st, fr, callee, args, dty, dest, ret_bb):
    a, b = I.as_z3(st, args[0]), I.as_z3(st, args[1])
    return z3.If(z3.BVMulNoOverflow(a, b, False), a * b, z3.BitVecVal(2**a.size() - 1, a.size()))
def m_terror_new(I, st, fr, callee, args, dty, dest, ret_bb):
    k = mat(I, st, args[0]); return Obj('terror', tkind=k.discr if isinstance(k, Adt) else k, cause=args[2] if len(args) > 2 else None)
def m_terror_kind(I, st, fr, callee, args, dty, dest, ret_bb):
    e = deref(I, st, args[0]); return Adt('TransportErrorKind', e.d['tkind'], {})
def m_nz_cmp(I, st, fr, callee, args, dty, dest, ret_bb):
    a, b = I.as_z3(st, deref(I, st, args[0])), I.as_z3(st, deref(I, st, args[1]))
    op = callee.rsplit('::', 1)[1]
    return {'le': z3.ULE(a, b), 'lt': z3.ULT(a, b), 'ge': z3.UGE(a, b), 'gt': z3.UGT(a, b), 'eq': a == b, 'ne': a != b}[op]
def m_nz_get(I, st, fr, callee, args, dty, dest, ret_bb): return I.as_z3(st, args[0])

# ---------------------------------------------------------------- digest
def m_ctx_new(I, st, fr, callee, args, dty, dest, ret_bb): return Obj('digestctx', parts=())
def m_ctx_update(I, st, fr, callee, args, dty, dest, ret_bb):
    c = deref(I, st, args[0]); b = deref(I, st, args[1])
    c.d['parts'] = tuple(c.d['parts']) + (b.d['content'],); return unit()
def sha_of(st, parts):
    cache = st.env.setdefault('sha', {})
    k = tuple(str(p) for p in parts)
    if k not in cache: cache[k] = z3.BitVec(fresh_name('sha'), 16)
    return cache[k]
def m_ctx_finish(I, st, fr, callee, args, dty, dest, ret_bb):
    c = mat(I, st, args[0]); dg = sha_of(st, c.d['parts'])
    st.events.append(('digest', tuple(c.d['parts']), dg))
    return Obj('digest', dig=dg)
def m_slice_ne(I, st, fr, callee, args, dty, dest, ret_bb):
    a, b = deref(I, st, args[0]), deref(I, st, args[1])
    while isinstance(a, Ref): a = I.deref_load(st, a)
    while isinstance(b, Ref): b = I.deref_load(st, b)
    if isinstance(a, Obj) and isinstance(b, Obj) and a.kind == 'digest' and b.kind == 'digest':
        r = a.d['dig'] != b.d['dig']
        return r if callee.endswith('::ne') else z3.Not(r)
    raise Stuck('slice compare of ' + repr(a)[:40] + ' / ' + repr(b)[:40])
def m_opaque_string(I, st, fr, callee, args, dty, dest, ret_bb): return Obj('str', s=None, pieces=['<opaque>'])

def install_streams(I):
    I.models[:0] = [
        (R(r'^Url::join$'), m_url_join),
        (R(r'^<Url as Clone>::clone$'), m_clone),
        (R(r'^<std::string::String as Clone>::clone$'), m_clone),
        (R(r'^core::fmt::rt::Argument::<.*>::new_display::<'), m_fmt_arg),
        (R(r'^Arguments::<.*>::new::<'), m_fmt_args_new),
        (R(r'^std::fmt::format$'), m_format),
        (R(r'^<str as ToOwned>::to_owned$'), m_to_owned),
        (R(r'^<\[u8\] as ToOwned>::to_owned$'), m_to_owned),
        (R(r'^<std::string::String as Deref>::deref$'), m_identity),
        (R(r'^<dyn Transport as Transport>::fetch'), m_transport_fetch),
        (R(r'as StreamExt>::map::<'), m_stream_map),
        (R(r'as StreamExt>::boxed::<'), m_boxed),
        (R(r'as IntoVec<.*>>::into_vec'), m_into_vec),
        (R(r'^<Pin<Box<dyn futures::Future<.*as futures::Future>::poll$'), m_poll_dynfuture),
        (R(r'^<dyn Stream<.*as Stream>::poll_next$'), m_dyn_stream_poll_next),
        (R(r'^Pin::<Box<dyn Stream<.*>>::as_mut$'), m_pin_as_mut),
        (R(r'^<Pin<&mut .*> as Deref(Mut)?>::deref(_mut)?$'), m_pin_deref),
        (R(r'^bytes::Bytes::len$'), m_bytes_len),
        (R(r'^<bytes::Bytes as Deref>::deref$'), m_identity),
        (R(r'^<usize as TryInto<u64>>::try_into$'), m_try_into_u64),
        (R(r'Result::<u64, TryFromIntError>::unwrap_or$'), m_unwrap_or),
        (R(r'^std::option::Option::<u64>::unwrap_or$'), m_unwrap_or),
        (R(r'^core::num::<impl u\d+>::saturating_add$'), m_saturating_add),
        (R(r'^core::num::<impl u\d+>::saturating_sub$'), m_saturating_sub),
        (R(r'^core::num::<impl u\d+>::saturating_mul$'), m_saturating_mul),
        (R(r'^TransportError::new_with_cause::<'), m_terror_new),
        (R(r'^TransportError::kind$'), m_terror_kind),
        (R(r'^<NonZero<u64> as Partial(Ord|Eq)>::(le|lt|ge|gt|eq|ne)$'), m_nz_cmp),
        (R(r'^NonZero::<u64>::get$'), m_nz_get),
        (R(r'^<Vec<u8> as Deref>::deref$'), m_identity),
        (R(r'^aws_lc_rs::digest::Context::new$'), m_ctx_new),
        (R(r'^aws_lc_rs::digest::Context::update$'), m_ctx_update),
        (R(r'^aws_lc_rs::digest::Context::finish$'), m_ctx_finish),
        (R(r'^<aws_lc_rs::digest::Context as Clone>::clone$'), m_clone),
        (R(r'^<Digest as AsRef<\[u8\]>>::as_ref$'), m_identity),
        (R(r'^Vec::<u8>::as_slice$'), m_identity),
        (R(r'^<&\[u8\] as PartialEq>::(ne|eq)$'), m_slice_ne),
        (R(r'^hex::encode::<'), m_opaque_string),
        (R(r'^<Url as ToString>::to_string$'), m_opaque_string),
    ]
