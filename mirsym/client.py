"""Path summaries of the client workflow functions, executed from MIR over the symbolic world.

Each summarize_* runs one function once over a symbolic pre-state and returns a list of Path records
(path condition, outcome, payload id, event trace, datastore post-state).  Properties are assertions
over these records; history properties instantiate them several times by substitution.
"""
import z3, re
from sym import *
from world import *

class Path:
    __slots__ = ('pc', 'cls', 'ok', 'payload', 'events', 'fs', 'taint', 'state', 'top')
    def __init__(s, st):
        s.pc = list(st.pc); s.events = list(st.events); s.fs = dict(st.env['fs']); s.taint = list(st.taint); s.state = st
        s.cls, s.payload = classify(st.result)
        s.ok = s.cls == 'Ok'
    def ev(s, kind): return [e for e in s.events if e[0] == kind]
    def nows(s): return [e[1] for e in s.events if e[0] == 'now']
    def accepted_total(s):
        acc = [e[1] for e in s.events if e[0] == 'accepted_bytes']
        t = BV64(0)
        for a in acc: t = t + a
        return t
    def writes(s, key): return [e for e in s.events if e[0] == 'fs.write' and e[1] == key]
    def stored(s, key):
        """content object of a datastore file at the end of the path (None if absent)"""
        present, content = s.fs.get(key, (z3.BoolVal(False), None))
        return content if not z3.is_false(present) else None
    def stored_doc_is(s, key, did):
        """the file holds the JSON serialisation of the document with this id (written on this path)"""
        c = s.stored(key)
        return isinstance(c, Obj) and c.kind == 'json' and isinstance(c.d.get('val'), Adt) and z3.eq(c.d['val'].fields.get((None, 'id')), did)
    def stored_value_is(s, key, term):
        c = s.stored(key)
        return isinstance(c, Obj) and c.kind == 'json' and z3.is_expr(c.d.get('val')) and z3.eq(c.d['val'], term)
    def touched(s):
        """datastore files (other than the clock file and temporary files that are gone again) whose content changed on this path"""
        out = set()
        for e in s.events:
            if e[0] in ('fs.write', 'fs.open_trunc', 'fs.unlink', 'fs.write_failed', 'fs.create_new'): out.add(e[1])
            if e[0] == 'fs.rename': out.add(e[2])
        return {k for k in out if not k.endswith('latest_known_time.json') and not k.endswith('.tmp')}

def sym_chunks(prefix, n):
    return [(z3.Bool(f'{prefix}_c{i}_exists'), z3.Bool(f'{prefix}_c{i}_err'), z3.BitVec(f'{prefix}_c{i}_len', 64), z3.BitVec(f'{prefix}_c{i}_content', 16)) for i in range(n)]

class Params(dict):
    __getattr__ = dict.__getitem__

# ------------------------------------------------------------------------------------------------ load_timestamp
DSFILES = ['timestamp.json', 'snapshot.json', 'targets.json']      # extended (history.build_summaries) by other datastore files the code touches
DOCMK = {}
def ds_slots(pfx):
    """symbolic pre-state of the three trust files: (present, parses, doc id)"""
    out = {}
    for f in DSFILES:
        n = re.sub(r'\W', '_', f[:-5] if f.endswith('.json') else f)
        out[f] = (z3.Bool(f'{pfx}_ds_{n}_present'), z3.Bool(f'{pfx}_ds_{n}_parses'), z3.BitVec(f'{pfx}_ds_{n}_id', 8))
    return out

def ts_params(nchunks=1, pfx='p'):
    P = _ts_params(nchunks, pfx)
    P['ds'] = ds_slots(pfx)
    P['old_present'], P['old_parses'], P['old'] = P['ds']['timestamp.json']
    return P
def _ts_params(nchunks=1, pfx='p'):
    P = Params(root=z3.BitVec(f'{pfx}_root', 8), served=z3.BitVec(f'{pfx}_ts_served', 8), old=z3.BitVec(f'{pfx}_ts_old', 8),
               old_present=z3.Bool(f'{pfx}_ts_old_present'), old_parses=z3.Bool(f'{pfx}_ts_old_parses'), served_parses=z3.Bool(f'{pfx}_ts_served_parses'),
               fetch_err=z3.Bool(f'{pfx}_ts_fetch_err'), fetch_err_kind=z3.BitVec(f'{pfx}_ts_fetch_err_kind', 64), chunk_err_kind=z3.BitVec(f'{pfx}_ts_chunk_err_kind', 64),
               safe=z3.Bool(f'{pfx}_safe'), maxsz=z3.BitVec(f'{pfx}_max_timestamp_size', 64),
               lkt_present=z3.Bool(f'{pfx}_lkt_present'), lkt_parses=z3.Bool(f'{pfx}_lkt_parses'), lkt=z3.Int(f'{pfx}_lkt'),
               chunks=sym_chunks(f'{pfx}_ts', nchunks), join_fails=z3.Bool(f'{pfx}_join_fails'))
    return P

def kinds_ok(P):
    n = len(variants('TransportErrorKind'))
    return [z3.ULT(P.fetch_err_kind, n), z3.ULT(P.chunk_err_kind, n)]

def base_state(P, io_faults=False):
    st = State()
    st.env['fs'] = {'/ds/latest_known_time.json': (P.lkt_present, Obj('file', name='lkt', parsed=P.lkt, parses=P.lkt_parses))}
    mk = {'timestamp.json': timestamp_doc, 'snapshot.json': snapshot_doc, 'targets.json': targets_doc}
    for f, (pres, prs, did) in P.ds.items():
        st.env['fs']['/ds/' + f] = stored_file('stored_' + f, mk[f](did) if f in mk else timestamp_doc(did), pres, prs)
    st.env['io_faults'] = bool(io_faults)
    st.env['crash_points'] = (io_faults == 'crash')
    st.env['url_join_fails'] = P.get('join_fails')
    st.pc += kinds_ok(P)
    return st

def summarize_load_timestamp(I, P, io_faults=False):
    st = base_state(P, io_faults)
    st.env['served'] = lambda st_, url, ty: (P.served_parses, timestamp_doc(P.served))
    st.env['transport'] = lambda st_, key: {'fetch_err': P.fetch_err, 'fetch_err_kind': P.fetch_err_kind, 'chunks': P.chunks, 'chunk_err_kind': P.chunk_err_kind}
    ds = mk_datastore(st); root = st.alloc(root_doc(P.root)); base = base_url(st)
    done = run_async(I, st, 'load_timestamp', dict(transport=Obj('dyn_transport'), root=Ref(root), datastore=Ref(ds), max_timestamp_size=P.maxsz,
                                                    metadata_base_url=Ref(base), expiration_enforcement=enforcement(P.safe)))
    return [Path(s) for s in done]

# ------------------------------------------------------------------------------------------------ load_snapshot
def sn_params(nchunks=1, pfx='p'):
    P = ts_params(nchunks, pfx)
    P['old_present'], P['old_parses'], P['old'] = P['ds']['snapshot.json']
    P.update(ts=z3.BitVec(f'{pfx}_ts', 8), served=z3.BitVec(f'{pfx}_sn_served', 8), served_parses=z3.Bool(f'{pfx}_sn_served_parses'),
             fetch_err=z3.Bool(f'{pfx}_sn_fetch_err'), maxsz=z3.BitVec(f'{pfx}_max_snapshot_size', 64), chunks=sym_chunks(f'{pfx}_sn', nchunks))
    return P

def summarize_load_snapshot(I, P, io_faults=False):
    st = base_state(P, io_faults)
    st.env['served'] = lambda st_, url, ty: (P.served_parses, snapshot_doc(P.served))
    st.env['transport'] = lambda st_, key: {'fetch_err': P.fetch_err, 'fetch_err_kind': P.fetch_err_kind, 'chunks': P.chunks, 'chunk_err_kind': P.chunk_err_kind}
    ds = mk_datastore(st); root = st.alloc(root_doc(P.root)); base = base_url(st); ts = st.alloc(timestamp_doc(P.ts))
    done = run_async(I, st, 'load_snapshot', dict(transport=Obj('dyn_transport'), root=Ref(root), timestamp=Ref(ts), max_snapshot_size=P.maxsz,
                                                   datastore=Ref(ds), metadata_base_url=Ref(base), expiration_enforcement=enforcement(P.safe)))
    return [Path(s) for s in done]

# ------------------------------------------------------------------------------------------------ load_targets (top level; delegations opaque)
def tg_params(nchunks=1, pfx='p'):
    P = ts_params(nchunks, pfx)
    P['old_present'], P['old_parses'], P['old'] = P['ds']['targets.json']
    P.update(sn=z3.BitVec(f'{pfx}_sn', 8), served=z3.BitVec(f'{pfx}_tg_served', 8), served_parses=z3.Bool(f'{pfx}_tg_served_parses'),
             fetch_err=z3.Bool(f'{pfx}_tg_fetch_err'), maxsz=z3.BitVec(f'{pfx}_max_targets_size', 64), chunks=sym_chunks(f'{pfx}_tg', nchunks),
             deleg_ok=z3.Bool(f'{pfx}_deleg_ok'))
    return P

def m_load_delegations_oracle(I, st, fr, callee, args, dty, dest, ret_bb):
    """top-level harness: the recursive descent is summarised by one Boolean (it is executed from MIR in the
    delegation harness); arguments are recorded for the wiring obligations"""
    ok = st.env['deleg_ok']
    st.events.append(('load_delegations', [a for a in args]))
    return leaf_future('ready', val=mk_result(ok=unit(), err=error('DelegationFailed'), discr=z3.If(ok, BV64(0), BV64(1))))
def m_validate_oracle(I, st, fr, callee, args, dty, dest, ret_bb):
    t = deref(I, st, args[0]); did = t.fields[(None, 'id')]
    st.events.append(('validate', did))
    return mk_result(ok=unit(), err=error('UnmatchedPath'), discr=z3.If(Validates(did), BV64(0), BV64(1)))

def summarize_load_targets(I, P, io_faults=False, no_deleg=False):
    st = base_state(P, io_faults)
    if no_deleg: st.pc += [z3.Not(HasDeleg(P.served)), Validates(P.served)]
    st.env['served'] = lambda st_, url, ty: (P.served_parses, targets_doc(P.served))
    st.env['transport'] = lambda st_, key: {'fetch_err': P.fetch_err, 'fetch_err_kind': P.fetch_err_kind, 'chunks': P.chunks, 'chunk_err_kind': P.chunk_err_kind}
    st.env['deleg_ok'] = P.deleg_ok
    ds = mk_datastore(st); root = st.alloc(root_doc(P.root)); base = base_url(st); sn = st.alloc(snapshot_doc(P.sn))
    saved = list(I.models)
    I.models[:0] = [(R(r'^load_delegations::<'), m_load_delegations_oracle), (R(r'^Targets::validate$'), m_validate_oracle)]
    try:
        done = run_async(I, st, 'load_targets', dict(transport=Obj('dyn_transport'), root=Ref(root), snapshot=Ref(sn), datastore=Ref(ds),
                                                      max_targets_size=P.maxsz, metadata_base_url=Ref(base), expiration_enforcement=enforcement(P.safe)))
    finally:
        I.models[:] = saved
    return [Path(s) for s in done]

# ------------------------------------------------------------------------------------------------ load_root
def root_params(hops=1, nchunks=1, pfx='p'):
    P = ts_params(nchunks, pfx)
    P.update(shipped=z3.BitVec(f'{pfx}_shipped', 8), shipped_parses=z3.Bool(f'{pfx}_shipped_parses'),
             hop=[z3.BitVec(f'{pfx}_hop{i}', 8) for i in range(hops)], hop_parses=[z3.Bool(f'{pfx}_hop{i}_parses') for i in range(hops)],
             hop_fetch_err=[z3.Bool(f'{pfx}_hop{i}_fetch_err') for i in range(hops + 1)],
             hop_chunks=[sym_chunks(f'{pfx}_hop{i}', nchunks) for i in range(hops + 1)],
             maxsz=z3.BitVec(f'{pfx}_max_root_size', 64), max_updates=z3.BitVec(f'{pfx}_max_root_updates', 64))
    P['ts_present'] = P['ds']['timestamp.json'][0]; P['sn_present'] = P['ds']['snapshot.json'][0]
    return P

def summarize_load_root(I, P, klens=((1, 1),), io_faults=False, last_probe_available=False):
    """klens[i] = (timestamp, snapshot) key-list lengths of the shipped root (i=0) and of each hop root.
    The transport serves hop i for the i-th request; the request after the last hop is unavailable unless
    last_probe_available (then reaching it is the unwinding assertion)."""
    hops = len(P.hop)
    kl = list(klens) + [klens[-1]] * (hops + 1 - len(klens))
    st = base_state(P, io_faults)
    st.env['shipped'] = (P.shipped_parses, root_doc(P.shipped, kl[0]))
    def nfetch(st_): return sum(1 for e in st_.events if e[0] == 'fetch')
    def transport(st_, key):
        n = nfetch(st_)
        if n < hops + 1 and (n < hops or last_probe_available):
            return {'fetch_err': P.hop_fetch_err[n], 'fetch_err_kind': P.fetch_err_kind, 'chunks': P.hop_chunks[n], 'chunk_err_kind': P.chunk_err_kind}
        if n == hops:
            return {'fetch_err': z3.BoolVal(True), 'fetch_err_kind': P.fetch_err_kind, 'chunks': []}
        st_.events.append(('unwind_exceeded', key))
        return {'fetch_err': z3.BoolVal(True), 'fetch_err_kind': P.fetch_err_kind, 'chunks': []}
    def served(st_, url, ty):
        n = sum(1 for e in st_.events if e[0] == 'parse' and e[1] != 'shipped')
        if n >= hops: raise Stuck('parse beyond provisioned hops')
        return (P.hop_parses[n], root_doc(P.hop[n], kl[n + 1]))
    st.env['transport'] = transport; st.env['served'] = served
    ds = mk_datastore(st); base = base_url(st)
    done = run_async(I, st, 'load_root', dict(transport=Obj('dyn_transport'), root=Obj('shipped'), datastore=Ref(ds), max_root_size=P.maxsz,
                                               max_root_updates=P.max_updates, metadata_base_url=Ref(base), expiration_enforcement=enforcement(P.safe)),
                     generics={'R': 'R'})
    return [Path(s) for s in done]

# ------------------------------------------------------------------------------------------------ Repository::load (wiring)
def h_min_by_key(I, st, fr):
    """<slice::Iter<(DateTime,RoleType)> as Iterator>::min_by_key(iter, closure): first minimal element (std contract)"""
    d = fr.data
    if 'ret' in d:
        d['keys'] = d['keys'] + [d.pop('ret')]
    i = len(d['keys'])
    if i < len(d['elems']):
        fn = I.resolve_closure(st.heap[d['clos']].ty)
        # closure takes &&(T): pass a ref to a cell holding a ref to the element
        rr = st.alloc(Ref(d['elems'][i]))
        I.push_call(st, fn, [Ref(d['clos']), Ref(rr)], None, None); return [st]
    keys = [I.as_z3(st, k) for k in d['keys']]
    n = len(keys); out = []
    for j in range(n):
        cond = z3.And([keys[j] < keys[k] for k in range(j)] + [keys[j] <= keys[k] for k in range(j + 1, n)])   # signed (i64 instants)
        s2 = st.clone(); s2.pc.append(cond)
        if not I.feasible(s2): continue
        I.do_return(s2, mk_some(Ref(d['elems'][j]))); out.append(s2)
    return out
def m_min_by_key(I, st, fr, callee, args, dty, dest, ret_bb):
    it = mat(I, st, args[0]); arr = deref(I, st, it.d['vec'])
    if isinstance(arr, Adt):
        # array aggregate: element cells
        cell_of = it.d['vec']
        elems = []
        for i in range(len([k for k in arr.fields if k[0] is None and isinstance(k[1], int)])):
            elems.append(st.alloc(arr.fields[(None, i)]))
    else: raise Stuck('min_by_key over ' + repr(arr)[:60])
    st.frames.append(ModelFrame(h_min_by_key, {'elems': elems, 'keys': [], 'clos': st.alloc(mat(I, st, args[1]))}, dest, ret_bb)); return PUSHED

def wiring_params():
    return Params(safe_some=z3.Bool('w_safe_some'), safe=z3.Bool('w_safe'), limits_some=z3.Bool('w_limits_some'),
                  lim={k: z3.BitVec('w_' + k, 64) for k in ('max_root_size', 'max_targets_size', 'max_timestamp_size', 'max_snapshot_size', 'max_root_updates')},
                  ok={k: z3.Bool('w_ok_' + k) for k in ('root', 'timestamp', 'snapshot', 'targets')})

def summarize_repository_load(I, P):
    """Repository::load from MIR with the four load_* functions as oracles recording their arguments"""
    st = State(); st.env['io_faults'] = False
    # the datastore may hold anything when the cycle starts (symbolic presence), so that a write / removal by the orchestrating code itself shows up
    st.env['fs'] = {'/ds/' + f: (z3.Bool('w_present_' + f.split('.')[0]), Obj('file', name='stored_' + f)) for f in ('timestamp.json', 'snapshot.json', 'targets.json', 'latest_known_time.json')}
    ids = {'root': IDV(10), 'timestamp': IDV(11), 'snapshot': IDV(12), 'targets': IDV(13)}
    mk = {'root': root_doc, 'timestamp': timestamp_doc, 'snapshot': snapshot_doc, 'targets': lambda i: targets_doc(i, False)}
    def oracle(name):
        def m(I_, s, fr, callee, args, dty, dest, ret_bb):
            fn = find_fn(I_, 'load_' + name)
            names = {}
            for nm, place in fn.debug.items():
                mm = re.match(r'^_(\d+)$', place.strip())
                if mm and int(mm.group(1)) <= len(args): names[nm] = args[int(mm.group(1)) - 1]
            s.events.append(('call', name, names))
            return leaf_future('ready', val=mk_result(ok=mk[name](ids[name]), err=error('Load_' + name), discr=z3.If(P.ok[name], BV64(0), BV64(1))))
        m.__name__ = 'oracle_load_' + name
        return m
    def m_ds_new(I_, s, fr, callee, args, dty, dest, ret_bb):
        return mk_ok(st_ds[0])
    def m_parse_url(I_, s, fr, callee, args, dty, dest, ret_bb): return mk_ok(args[0])
    def m_unwrap_or_else_some(I_, s, fr, callee, args, dty, dest, ret_bb):
        o = mat(I_, s, args[0]); return o.fields[('Some', 0)]
    def m_as_ref(I_, s, fr, callee, args, dty, dest, ret_bb): return args[0]
    def m_unwrap(I_, s, fr, callee, args, dty, dest, ret_bb):
        o = mat(I_, s, args[0])
        if o.discr != 1: raise Stuck('unwrap of non-Some')
        return o.fields[('Some', 0)]
    def m_unwrap_or_default(I_, s, fr, callee, args, dty, dest, ret_bb):
        o = mat(I_, s, args[0]); d = discr_of(I_, s, o)
        ty = re.search(r'Option::<(\w+)>', callee).group(1)
        dfn = None
        for n, fs in I_.funcs.items():
            if n.endswith('::default') and '<impl at' in n:
                st_, tr_ = I_.find_impl_self(n)
                if st_ == ty: dfn = fs[0]
        if dfn is None: raise Stuck('Default impl for ' + ty)
        out = []
        for want in (1, 0):
            s2 = s.clone(); s2.pc.append(d == want)
            if not I_.feasible(s2): continue
            if want == 1: I_.finish_call(s2, dest, ret_bb, o.fields[('Some', 0)])
            else: I_.push_call(s2, dfn, [], dest, ret_bb)
            out.append(s2)
        return States(out)
    ds_cell = mk_datastore(st); st_ds = [st.heap[ds_cell]]
    limits = Adt('Limits', None, {(None, F('Limits', k)): v for k, v in P.lim.items()})
    loader = Adt('RepositoryLoader', None, {
        (None, F('RepositoryLoader', 'root')): Obj('shipped'),
        (None, F('RepositoryLoader', 'metadata_base_url')): Obj('url', key='/m', base='/', rel=['m']),
        (None, F('RepositoryLoader', 'targets_base_url')): Obj('url', key='/t', base='/', rel=['t']),
        (None, F('RepositoryLoader', 'transport')): Adt('Option<Box<dyn Transport>>', 1, {('Some', 0): Obj('dyn_transport')}),
        (None, F('RepositoryLoader', 'limits')): Adt('Option<Limits>', z3.If(P.limits_some, BV64(1), BV64(0)), {('Some', 0): limits}),
        (None, F('RepositoryLoader', 'datastore')): Adt('Option<PathBuf>', 1, {('Some', 0): Obj('path', key='/ds')}),
        (None, F('RepositoryLoader', 'expiration_enforcement')): Adt('Option<ExpirationEnforcement>', z3.If(P.safe_some, BV64(1), BV64(0)), {('Some', 0): enforcement(P.safe)}),
    })
    saved = list(I.models)
    I.models[:0] = [(R(r'^load_%s(::<.*>)?$' % n), oracle(n)) for n in ('root', 'timestamp', 'snapshot', 'targets')] + [
        (R(r'^Datastore::new$'), m_ds_new), (R(r'^parse_url$'), m_parse_url),
        (R(r'Option::<Box<dyn Transport.*>>::unwrap_or_else::<'), m_unwrap_or_else_some),
        (R(r'^<Box<dyn Transport.*> as AsRef<.*>>::as_ref$'), m_as_ref),
        (R(r'^std::option::Option::<&\(DateTime<Utc>, RoleType\)>::unwrap$'), m_unwrap),
        (R(r'^std::option::Option::<\w+>::unwrap_or_default$'), m_unwrap_or_default),
        (R(r'as Iterator>::min_by_key::<'), m_min_by_key),
    ]
    try:
        done = run_async(I, st, 'Repository::load', dict(loader=loader))
    finally:
        I.models[:] = saved
    return [Path(s) for s in done], ids

# ------------------------------------------------------------------------------------------------ read_target prologue
def rt_params(pfx='p'):
    P = ts_params(0, pfx)
    P.update(earliest=z3.Int(f'{pfx}_earliest_expiration'), role=z3.BitVec(f'{pfx}_earliest_role', 64), found=z3.Bool(f'{pfx}_target_found'))
    return P
def summarize_read_target(I, P):
    st = base_state(P)
    ds_cell = mk_datastore(st)
    repo = st.alloc(Adt('Repository', None, {
        (None, F('Repository', 'datastore')): st.heap[ds_cell],
        (None, F('Repository', 'earliest_expiration')): P.earliest,
        (None, F('Repository', 'earliest_expiration_role')): Adt('RoleType', P.role, {}),
        (None, F('Repository', 'expiration_enforcement')): enforcement(P.safe),
        (None, F('Repository', 'targets')): targets_doc(IDV(13), False),
    }))
    st.pc.append(z3.ULT(P.role, len(variants('RoleType'))))
    def m_find_target(I_, s, fr, callee, args, dty, dest, ret_bb):
        s.events.append(('find_target',))
        return mk_result(ok=Ref(s.alloc(Obj('target'))), err=error('TargetNotFound'), discr=z3.If(P.found, BV64(0), BV64(1)))
    def m_digest_and_filename(I_, s, fr, callee, args, dty, dest, ret_bb):
        return Adt('tuple', None, {(None, 0): Obj('vec', content=Obj('digestbytes')), (None, 1): Obj('str', s='file')})
    def m_fetch_target(I_, s, fr, callee, args, dty, dest, ret_bb):
        s.events.append(('fetch_target',))
        return leaf_future('ready', val=mk_ok(Obj('stream', skind='opaque')))
    saved = list(I.models)
    I.models[:0] = [(R(r'^Targets::find_target$'), m_find_target), (R(r'target_digest_and_filename$'), m_digest_and_filename),
                    (R(r'^cache::<impl Repository>::fetch_target$'), m_fetch_target), (R(r'^std::string::String::as_str$'), m_identity)]
    try:
        done = run_async(I, st, 'Repository::read_target', dict(self=Ref(repo), name=Ref(st.alloc(Obj('target_name')))))
    finally:
        I.models[:] = saved
    return [Path(s) for s in done]

# ------------------------------------------------------------------------------------------------ the cycle is what the history checks compose
def cycle_composition(R, I):
    """The history checks (C03, C14, C15) compose one update cycle from the summaries of load_root / load_timestamp / load_snapshot / load_targets.
    That composition is justified here, from the MIR of Repository::load itself: the four functions are called once each, in that order, a failure of
    one ends the cycle with that error, and Repository::load touches the datastore nowhere else (no write, no removal outside load_*)."""
    W = wiring_params(); wp, ids = summarize_repository_load(I, W); R.check_interp_clean(I, 'Repository::load (composition)')
    order_all = ['root', 'timestamp', 'snapshot', 'targets']
    def dec(m): return {'kind': 'composition', 'ok': {k: bool(z3.is_true(m.eval(W.ok[k], model_completion=True))) for k in order_all}}
    for p in wp:
        if p.cls == 'panic': continue
        R.paths += 1
        calls = [e[1] for e in p.events if e[0] == 'call']
        fs = [e for e in p.events if e[0].startswith('fs.') and not (len(e) > 1 and str(e[1]).endswith('latest_known_time.json'))]
        R.obligation('Repository::load: the datastore is touched only inside load_root / load_timestamp / load_snapshot / load_targets (no write or removal by the orchestrating code)', p.pc,
                     z3.BoolVal(not fs), decode=dec, group='composition/no-other-datastore-effects')
        R.obligation('Repository::load: load_root, load_timestamp, load_snapshot, load_targets are called at most once each, in this order', p.pc,
                     z3.BoolVal(calls == order_all[:len(calls)]), decode=dec, group='composition/order')
        failed_before = z3.BoolVal(False)
        for i, n in enumerate(calls):
            R.obligation(f'Repository::load: load_{n} runs only if every earlier step succeeded', p.pc, z3.And([W.ok[k] for k in calls[:i]] + [z3.BoolVal(True)]), decode=dec, group='composition/stop-at-failure')
        if p.ok:
            R.obligation('Repository::load: Ok only if all four steps ran and succeeded', p.pc, z3.And([z3.BoolVal(calls == order_all)] + [W.ok[k] for k in order_all]), decode=dec, group='composition/ok-means-all')
        else:
            R.obligation('Repository::load: an error only if one of the steps failed (the orchestrating code adds no failure of its own after a complete, successful chain)', p.pc,
                         z3.Or([z3.Not(W.ok[k]) for k in calls] + [z3.BoolVal(len(calls) < 4)]), decode=dec, group='composition/err-means-step-failed')
    R.reach('Repository::load: complete successful cycle reachable', next((p.pc for p in wp if p.ok), [z3.BoolVal(False)]))
    R.samples.append({'function': 'Repository::load (composition)', 'paths': len(wp)})

def replay_composition(R):
    """counterexamples of the composition obligations are replayed by the failed-cycle menu (a cycle that fails at snapshot / targets must leave protection intact)"""
    cxs = [c for c in R.counterexamples if c['group'].startswith('composition/')]
    if not cxs: return
    import menu
    if not menu.run(R, {'failed-cycle'}, 'a failed cycle must leave the stored trust state as protective as before'):
        R.inconclusive.append(f'counterexample for "{cxs[0]["obligation"]}" did not reproduce with the failed-cycle scenarios')
