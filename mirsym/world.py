"""Symbolic world for the client update workflow (load_root / load_timestamp / load_snapshot /
load_targets / load_delegations / check_expired / Datastore::*).

Documents are identified by 8-bit ids; their attributes are uninterpreted functions of the id so that
per-function path summaries can be instantiated for several cycles by substitution.
"""
import re, z3
from sym import *
import models, streams
from models import *
from streams import *
from layout import F, variants

ID = z3.BitVecSort(8)
U64 = z3.BitVecSort(64)
DIG = z3.BitVecSort(16)
BV64 = lambda v: z3.BitVecVal(v, 64)
def IDV(v): return z3.BitVecVal(v, 8)

# Verification oracle (the C01 predicate): whether root `rid` accepts doc `did` depends on the root only through the key set
# and threshold it authorises for the doc's role:  V(rid, did) = W(KS(rid, role), Thr(rid, role), did), role = RoleOf(did).
KS = z3.Function('KS', ID, ID, ID)                         # identity of the key set a root lists for a role
Thr = z3.Function('Thr', ID, ID, U64)
RoleOf = z3.Function('RoleOf', ID, ID)
W = z3.Function('W', ID, U64, ID, z3.BoolSort())
def V(rid, did):
    r = RoleOf(did)
    return W(KS(rid, r), Thr(rid, r), did)
Ver = z3.Function('Ver', ID, U64)
Exp = z3.Function('Exp', ID, z3.IntSort())      # expiry instant (instants are only compared)
Cons = z3.Function('Cons', ID, z3.BoolSort())             # root.consistent_snapshot
# online key lists of a root (step 1.9):  key id at position i of role r's key list; r = RoleType index
RKey = z3.Function('RKey', ID, z3.BitVecSort(8), z3.BitVecSort(8), ID)
# pinned meta entries:  doc id, slot (0 = snapshot.json in timestamp, 1 = targets.json in snapshot, 2.. = delegated role files)
MPresent = z3.Function('MPresent', ID, ID, z3.BoolSort())
MVer = z3.Function('MVer', ID, ID, U64)
MHasLen = z3.Function('MHasLen', ID, ID, z3.BoolSort())
MLen = z3.Function('MLen', ID, ID, U64)
MHasHash = z3.Function('MHasHash', ID, ID, z3.BoolSort())
MSha = z3.Function('MSha', ID, ID, DIG)
HasDeleg = z3.Function('HasDeleg', ID, z3.BoolSort())
Validates = z3.Function('Validates', ID, z3.BoolSort())   # Targets::validate result of the (fully loaded) targets doc

SLOT = {'snapshot.json': 0, 'targets.json': 1}

def role_index(name): return variants('RoleType').index(name)

# ------------------------------------------------------------------------------------------------ documents
def metafile(did, slot):
    slot = IDV(slot) if isinstance(slot, int) else slot
    length = Adt('Option<u64>', z3.If(MHasLen(did, slot), BV64(1), BV64(0)), {('Some', 0): MLen(did, slot)})
    hashes = Adt('Option<Hashes>', z3.If(MHasHash(did, slot), BV64(1), BV64(0)),
                 {('Some', 0): Adt('Hashes', None, {(None, F('Hashes', 'sha256')): Obj('digest', dig=MSha(did, slot))})})
    return Adt('Metafile', None, {(None, F('Metafile', 'length')): length, (None, F('Metafile', 'hashes')): hashes,
                                  (None, F('Metafile', 'version')): MVer(did, slot)})

def metamap(did, slots):
    """HashMap<String, Metafile> with entries for the named slots {name: slot}"""
    return Obj('metamap', did=did, slots=dict(slots))

def signed(ty, inner, did):
    return Adt(f'schema::Signed<{ty}>', None, {(None, F('Signed', 'signed')): inner, (None, F('Signed', 'signatures')): Obj('vec', elems=[]),
                                               (None, 'id'): did})

def root_doc(rid, klen=(1, 1)):
    """klen = lengths of the (timestamp, snapshot) key lists"""
    roles = Obj('rolemap', rid=rid, klen={role_index('Timestamp'): klen[0], role_index('Snapshot'): klen[1],
                                           role_index('Root'): 1, role_index('Targets'): 1})
    r = Adt('schema::Root', None, {(None, F('Root', 'consistent_snapshot')): Cons(rid), (None, F('Root', 'version')): Ver(rid),
                                    (None, F('Root', 'expires')): Exp(rid), (None, F('Root', 'keys')): Obj('keymap', rid=rid),
                                    (None, F('Root', 'roles')): roles, (None, 'id'): rid})
    return signed('schema::Root', r, rid)

def timestamp_doc(did):
    t = Adt('schema::Timestamp', None, {(None, F('Timestamp', 'version')): Ver(did), (None, F('Timestamp', 'expires')): Exp(did),
                                         (None, F('Timestamp', 'meta')): metamap(did, {'snapshot.json': 0}), (None, 'id'): did})
    return signed('schema::Timestamp', t, did)

def snapshot_doc(did, extra_slots=None):
    slots = {'targets.json': 1}; slots.update(extra_slots or {})
    t = Adt('schema::Snapshot', None, {(None, F('Snapshot', 'version')): Ver(did), (None, F('Snapshot', 'expires')): Exp(did),
                                        (None, F('Snapshot', 'meta')): metamap(did, slots), (None, 'id'): did})
    return signed('schema::Snapshot', t, did)

def targets_doc(did, delegations=None):
    """delegations: None => Option discr symbolic HasDeleg(did) with an opaque payload (only used when the harness
    does not descend), or a concrete Delegations Adt"""
    if delegations is None:
        dele = Adt('Option<Delegations>', z3.If(HasDeleg(did), BV64(1), BV64(0)), {('Some', 0): Obj('delegations_opaque', did=did)})
    elif delegations is False:
        dele = Adt('Option<Delegations>', 0, {})
    else:
        dele = Adt('Option<Delegations>', 1, {('Some', 0): delegations})
    t = Adt('schema::Targets', None, {(None, F('Targets', 'version')): Ver(did), (None, F('Targets', 'expires')): Exp(did),
                                       (None, F('Targets', 'targets')): Obj('targetsmap', did=did),
                                       (None, F('Targets', 'delegations')): dele, (None, 'id'): did})
    return signed('schema::Targets', t, did)

def doc_id(v):
    return v.fields[(None, 'id')]

# ------------------------------------------------------------------------------------------------ environment objects
def mk_datastore(st, root='/ds'):
    dspath = st.alloc(Adt('DatastorePath', variants('DatastorePath').index('Path'), {('Path', 0): Obj('path', key=root)}))
    rwlock = st.alloc(Obj('rwlock', cell=dspath)); mutex = st.alloc(Obj('mutex'))
    return st.alloc(Adt('Datastore', None, {(None, F('Datastore', 'path_lock')): Obj('arc', cell=rwlock),
                                            (None, F('Datastore', 'time_lock')): Obj('arc', cell=mutex)}))

def enforcement(term):
    """ExpirationEnforcement from a Bool term 'safe'"""
    vs = variants('ExpirationEnforcement')
    return Adt('ExpirationEnforcement', z3.If(term, BV64(vs.index('Safe')), BV64(vs.index('Unsafe'))), {})

def base_url(st): return st.alloc(Obj('url', key='/m', base='/', rel=['m']))

def stored_file(name, doc, present, parses):
    return (present, Obj('file', name=name, parsed=doc, parses=parses))

# ------------------------------------------------------------------------------------------------ models
def m_verify_oracle(I, st, fr, callee, args, dty, dest, ret_bb):
    root = deref(I, st, args[0]); doc = deref(I, st, args[1])
    rid, did = root.fields[(None, 'id')], doc.fields[(None, 'id')]
    m = re.search(r'verify_role::<(\w+)>', callee)
    st.events.append(('verify', rid, did, m.group(1) if m else '?'))
    return mk_result(ok=unit(), err=error('SignatureThreshold'), discr=z3.If(V(rid, did), BV64(0), BV64(1)))

def m_from_slice_world(I, st, fr, callee, args, dty, dest, ret_bb):
    v = deref(I, st, args[0]); content = v.d.get('content') if isinstance(v, Obj) else None
    m = re.search(r'from_slice::<[^,]*, (.+)>$', callee); ty = m.group(1) if m else (dty or '?')
    if isinstance(v, Obj) and v.kind == 'shipped':
        ok, doc = st.env['shipped']
        st.events.append(('parse', 'shipped'))
        return Forks([(ok, mk_ok(clone(doc)), None), (z3.Not(ok), mk_err(Obj('serde_error')), None)])
    if isinstance(content, Obj) and content.kind == 'concat':
        url = v.d.get('url')
        ok, doc = st.env['served'](st, url, ty)
        st.events.append(('parse', url))
        return Forks([(ok, mk_ok(clone(doc)), None), (z3.Not(ok), mk_err(Obj('serde_error')), None)])
    if isinstance(content, Obj) and content.kind == 'json':
        return mk_ok(clone(content.d['val']))
    if isinstance(content, Obj) and content.kind == 'file':
        ok = content.d['parses']; doc = content.d['parsed']
        if doc is None: return Forks([(None, mk_err(Obj('serde_error')), None)])
        return Forks([(ok, mk_ok(clone(doc)), None), (z3.Not(ok), mk_err(Obj('serde_error')), None)])
    if isinstance(content, Obj) and content.kind == 'truncated':
        return Forks([(None, mk_err(Obj('serde_error')), None)])
    raise Stuck('from_slice of ' + repr(v)[:100])

def m_meta_get(I, st, fr, callee, args, dty, dest, ret_bb):
    m = deref(I, st, args[0]); k = deref(I, st, args[1])
    if k.d.get('s') is not None: key = k.d['s']
    elif all(isinstance(p, str) for p in k.d['pieces']): key = ''.join(k.d['pieces'])
    else: key = tuple(str(p) for p in k.d['pieces'])
    st.events.append(('meta.get', m.d['did'], key))
    slot = m.d['slots'].get(key)
    if slot is None:
        # a name the harness did not provision: absent
        return mk_none()
    cell = st.alloc(metafile(m.d['did'], slot))
    return Adt('Option<&Metafile>', z3.If(MPresent(m.d['did'], IDV(slot)), BV64(1), BV64(0)), {('Some', 0): Ref(cell)})

def m_roles_get(I, st, fr, callee, args, dty, dest, ret_bb):
    m = deref(I, st, args[0]); role = deref(I, st, args[1])
    d = role.discr
    if not isinstance(d, int): raise Stuck('roles.get with symbolic role type')
    n = m.d['klen'].get(d, 1)
    # a one-element key list is identified with the key-set identity KS(root, role)
    elems = [st.alloc(Obj('hex', id=(KS(m.d['rid'], IDV(d)) if n == 1 else RKey(m.d['rid'], IDV(d), IDV(i))))) for i in range(n)]
    cell = st.alloc(Adt('RoleKeys', None, {(None, F('RoleKeys', 'keyids')): Obj('vec', elems=elems)}))
    return mk_some(Ref(cell))

def m_keys_get_id(I, st, fr, callee, args, dty, dest, ret_bb):
    k = deref(I, st, args[1])
    return mk_some(Ref(st.alloc(Obj('key', id=k.d['id']))))      # key table contains every listed id (harness assumption)

def m_slice_iter(I, st, fr, callee, args, dty, dest, ret_bb): return Obj('iter', vec=args[0], pos=0)
def m_iter_next_g(I, st, fr, callee, args, dty, dest, ret_bb):
    it = deref(I, st, args[0]); vec = deref(I, st, it.d['vec']); elems = vec.d['elems']
    if it.d['pos'] < len(elems):
        r = mk_some(Ref(elems[it.d['pos']])); it.d['pos'] += 1; return r
    return mk_none()
def m_and_then(I, st, fr, callee, args, dty, dest, ret_bb):
    o = mat(I, st, args[0])
    if o.discr == 0: return mk_none()
    fn = I.resolve_closure(args[1].ty if isinstance(args[1], Adt) else '')
    I.push_call(st, fn, [args[1], o.fields[('Some', 0)]], dest, ret_bb); return PUSHED

def keysiter_fn(I):
    for n in I.funcs:
        if 'schema/iter.rs' in n and n.endswith('::next'): return I.funcs[n][0]
    raise Stuck('KeysIter::next not found')
def h_collect(I, st, fr):
    d = fr.data
    if 'ret' in d:
        r = d.pop('ret')
        if r.discr == 0:
            if d.get('then') == 'ne':
                a = d['lhs']; b = [x.d['id'] for x in d['acc']]
                res = z3.BoolVal(True) if len(a) != len(b) else z3.Not(z3.And([x == y for x, y in zip(a, b)] + [z3.BoolVal(True)]))
                I.do_return(st, res); return [st]
            I.do_return(st, Obj('vec', elems=[st.alloc(x) for x in d['acc']])); return [st]
        d['acc'] = d['acc'] + [clone(deref(I, st, r.fields[('Some', 0)]))]
    I.push_call(st, keysiter_fn(I), [Ref(d['it'])], None, None); return [st]
def m_collect(I, st, fr, callee, args, dty, dest, ret_bb):
    st.frames.append(ModelFrame(h_collect, {'it': st.alloc(mat(I, st, args[0])), 'acc': []}, dest, ret_bb)); return PUSHED
def m_ne(I, st, fr, callee, args, dty, dest, ret_bb):
    a = mat(I, st, args[0]); vec = deref(I, st, a.d['vec'])
    lhs = [st.heap[c].d['id'] for c in vec.d['elems']]
    st.frames.append(ModelFrame(h_collect, {'it': st.alloc(mat(I, st, args[1])), 'acc': [], 'then': 'ne', 'lhs': lhs}, dest, ret_bb)); return PUSHED
def h_ne2(I, st, fr):
    """<KeysIter as Iterator>::ne(KeysIter): both sides drained through the repository's KeysIter::next, then compared element-wise (std contract)"""
    d = fr.data
    if 'ret' in d:
        r = d.pop('ret')
        if r.discr == 0:
            if d['side'] == 'lhs': d['side'] = 'rhs'
            else:
                a, b = d['lhs'], d['rhs']
                res = z3.BoolVal(True) if len(a) != len(b) else z3.Not(z3.And([x == y for x, y in zip(a, b)] + [z3.BoolVal(True)]))
                I.do_return(st, res); return [st]
        else:
            d[d['side']] = d[d['side']] + [clone(deref(I, st, r.fields[('Some', 0)])).d['id']]
    I.push_call(st, keysiter_fn(I), [Ref(d['it_' + d['side']])], None, None); return [st]
def m_ne2(I, st, fr, callee, args, dty, dest, ret_bb):
    st.frames.append(ModelFrame(h_ne2, {'it_lhs': st.alloc(mat(I, st, args[0])), 'it_rhs': st.alloc(mat(I, st, args[1])), 'lhs': [], 'rhs': [], 'side': 'lhs'}, dest, ret_bb)); return PUSHED
def m_false(I, st, fr, callee, args, dty, dest, ret_bb): return z3.BoolVal(False)
def m_fs_remove(I, st, fr, callee, args, dty, dest, ret_bb): return leaf_future('fs_remove', key=path_key(I, st, args[0]))
def op_fs_remove(I, st, fut):
    key = fut.d['key']
    present, content = st.env['fs'].get(key, (z3.BoolVal(False), None))
    def eff(s2): s2.env['fs'][key] = (z3.BoolVal(False), None); s2.events.append(('fs.unlink', key))
    alts = [(present, mk_ready(mk_ok(unit())), eff), (z3.Not(present), mk_ready(mk_err(Obj('ioerror', ek=0))), None)]
    if st.env.get('io_faults'):
        alts.append((z3.Bool(fresh_name('rmfail')), mk_ready(mk_err(Obj('ioerror', ek=39))), None))
    return Forks(alts)
LEAF_OPS['fs_remove'] = op_fs_remove
def m_result_and(I, st, fr, callee, args, dty, dest, ret_bb):
    a, b = mat(I, st, args[0]), mat(I, st, args[1]); da, db = discr_of(I, st, a), discr_of(I, st, b)
    if isinstance(da, int) and isinstance(db, int): return b if da == 0 else a
    if isinstance(da, int): return b if da == 0 else a
    # a symbolic: result discr = ite(a ok, db, 1); payload err: prefer a's error
    dbt = BV64(db) if isinstance(db, int) else db
    return mk_result(ok=unit(), err=error('DatastoreRemove'), discr=z3.If(da == 0, dbt, BV64(1)))
def m_enforce_eq(I, st, fr, callee, args, dty, dest, ret_bb):
    a, b = deref(I, st, args[0]), deref(I, st, args[1])
    da, db = discr_of(I, st, a), discr_of(I, st, b)
    da = BV64(da) if isinstance(da, int) else da; db = BV64(db) if isinstance(db, int) else db
    return da == db
def m_digest_deref(I, st, fr, callee, args, dty, dest, ret_bb): return args[0]

def install_world(I):
    import fsx
    models.install(I); install_streams(I)
    I.models[:0] = [
        (R(r'verify::<impl Root>::verify_role::<'), m_verify_oracle),
        (R(r'^from_slice::<'), m_from_slice_world),
        (R(r'^<R as AsRef<\[u8\]>>::as_ref$'), m_identity),
        (R(r'^HashMap::<RoleType, RoleKeys>::get::<'), m_roles_get),
        (R(r'^HashMap::<std::string::String, Metafile>::get::<'), m_meta_get),
        (R(r'^core::slice::<impl \[.*\]>::iter$'), m_slice_iter),
        (R(r'^<std::slice::Iter<.*> as Iterator>::next$'), m_iter_next_g),
        (R(r'^std::option::Option::<.*>::and_then::<'), m_and_then),
        (R(r'^HashMap::<Decoded<Hex>, key::Key>::get::<'), m_keys_get_id),
        (R(r'^<KeysIter<.*> as Iterator>::cloned::<'), m_identity),
        (R(r'as Iterator>::collect::<Vec<key::Key>>$'), m_collect),
        (R(r'^<std::slice::Iter<.*> as Iterator>::ne::<KeysIter'), m_ne),
        (R(r'^<KeysIter<.*> as Iterator>::ne::<KeysIter'), m_ne2),
        (R(r'^<Vec<.*> as Deref>::deref$'), m_identity),
        (R(r'^<Level as PartialOrd<LevelFilter>>::le$'), m_false),
        (R(r'^tokio::fs::remove_file::<'), m_fs_remove),
        (R(r'^std::result::Result::<\(\), error::Error>::and::<'), m_result_and),
        (R(r'^<ExpirationEnforcement as PartialEq>::eq$'), m_enforce_eq),
        (R(r'^<Decoded<Hex> as Deref>::deref$'), m_digest_deref),
    ]
    fsx.install_fsx(I)

# ------------------------------------------------------------------------------------------------ running an async fn
def find_fn(I, fn_name):
    fs = I.funcs.get(fn_name)
    if fs: return fs[0]
    f = I.resolve_fn(fn_name)
    if f is None: raise Stuck('function not found: ' + fn_name)
    return f

def order_args(fn, kwargs):
    """arguments by parameter *name* (debug info of the MIR body), so a re-ordered signature is followed"""
    if isinstance(kwargs, (list, tuple)): return list(kwargs)
    pos = {}
    for name, place in fn.debug.items():
        m = re.match(r'^_(\d+)$', place.strip())
        if m: pos[name] = int(m.group(1))
    nargs = len([a for a in split_top(fn.args) if a.strip()])
    out = [None] * nargs
    for k, v in kwargs.items():
        if k not in pos or pos[k] > nargs: raise Stuck(f'{fn.name} has no parameter named {k} (has {sorted(pos)})')
        out[pos[k] - 1] = v
    if any(x is None for x in out): raise Stuck(f'{fn.name}: parameters not supplied: ' + str([n for n, p in pos.items() if p <= nargs and out[p-1] is None]))
    return out

def h_async_driver(I, st, fr):
    d = fr.data
    if d['phase'] == 0:
        d['phase'] = 1
        I.push_call(st, d['ctor'], d['args'], None, None, generics=d.get('generics'))
        return [st]
    if d['phase'] == 1:
        coro = d.pop('ret'); d['phase'] = 2
        if isinstance(coro, Adt) and 'Pin' in coro.ty:      # #[async_recursion]: Box::pin(async move {..})
            ref = coro.fields[(None, 0)]
            body = I.resolve_async_block(I.deref_load(st, ref).ty)
        else:
            cell = st.alloc(coro); ref = Ref(cell)
            body = I.funcs.get(d['ctor'].name + '::{closure#0}')
            body = body[0] if body else None
        if body is None: raise Stuck('no coroutine body for ' + d['ctor'].name)
        I.push_call(st, body, [Adt('Pin', None, {(None, 0): ref}), Obj('cx')], None, None, generics=d.get('generics'))
        return [st]
    I.do_return(st, d.pop('ret')); return [st]

def run_async(I, st, fn_name, kwargs, generics=None):
    """construct the coroutine of async fn `fn_name` by running its constructor MIR with arguments given by
    parameter name, then poll its body to completion.  Returns the list of terminated states."""
    ctor = find_fn(I, fn_name)
    st.frames.append(ModelFrame(h_async_driver, {'phase': 0, 'ctor': ctor, 'args': order_args(ctor, kwargs), 'generics': generics}))
    done = []
    I.run(st, done.append)
    return done

def run_fn(I, st, fn_name, kwargs, generics=None):
    fn = find_fn(I, fn_name)
    I.push_call(st, fn, order_args(fn, kwargs), None, None, generics=generics)
    done = []
    I.run(st, done.append)
    return done

def classify(res):
    """Poll::Ready(Result<..>) -> ('Ok', payload) | ('Err:Kind/Inner', error obj) | ('panic', msg)"""
    if isinstance(res, Obj) and res.kind == 'panic': return 'panic', res.d.get('msg')
    if isinstance(res, Obj) and res.kind == 'crash': return 'crash', None
    r = res
    if isinstance(res, Adt) and ('Ready', 0) in res.fields: r = res.fields[('Ready', 0)]
    if r.discr == 0: return 'Ok', r.fields.get(('Ok', 0))
    e = r.fields[('Err', 0)]
    chain = []; last = e
    while isinstance(e, Obj) and e.kind == 'error':
        chain.append(e.d['ekind']); last = e; e = e.d.get('source')
    if isinstance(e, Obj) and e.kind == 'terror':
        c = e.d.get('cause')
        chain.append('Transport[%s]' % (e.d.get('tkind'),))
        while isinstance(c, Obj) and c.kind == 'error':
            chain.append(c.d['ekind']); c = c.d.get('source')
    elif isinstance(e, Obj):
        chain.append(e.kind)
    return 'Err:' + '/'.join(str(c) for c in chain), last
