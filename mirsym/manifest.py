"""Regenerates /verif/MANIFEST.json from the table below (python3 mirsym/manifest.py)."""
import json, os
VERIF = os.path.dirname(os.path.dirname(os.path.abspath(__file__)))

TECH = 'bounded symbolic execution of rustc MIR (re-emitted from /repo each run) + SMT (z3; cvc5 cross-check in thorough); sat models replayed natively'
LEVEL_TEXT = ('Every obligation is an SMT query over all values of the symbolic inputs (versions, instants, key ids, signature validity, '
              'chunk lengths, stored-file states, fault flags) along every feasible path of the anchored functions, executed from the MIR that rustc emits for '
              "/repo's current working tree; unsat = holds within the stated bounds, sat = concrete counterexample which is replayed against the real library before "
              'it is reported. Bounded (loop unrollings, list lengths, chunk counts are stated in the evidence), so this is bounded model checking of the real code, not a proof.')

BASE = ('Trusted base: the contract models listed in evidence.models_used (std collections, tokio fs, serde_json parse/print oracles, aws-lc-rs signature/digest as '
        'uninterpreted predicates, Url::join, the Transport as an adversarial script); awaited operations complete (no cancellation), cycles do not overlap. ')
CHECKS = {
 'C01': dict(ref='§4 C01', note=BASE + 'Signature validity is an uninterpreted predicate Valid(key, canonical content, sig); <=3 (quick) / <=4 (thorough) signatures over 8 key ids; call sites checked on the workflow summaries with <=2 root hops; delegated-role sites by the delegation harness.'),
 'C02': dict(ref='§4 C02', note=BASE + 'Root::verify_role is the C01 oracle V(root, doc); <=2 (quick) / <=3 (thorough) adopted hops plus a terminating probe; longer chains outside the claim.'),
 'C03': dict(ref='§4 C03', note=BASE + 'Histories of 2..3 (quick) / 2..4 (thorough) cycles composed from per-function summaries; one root hop per cycle; one key per online role; the shipped root is the same in all cycles; root key holders do not equivocate (one root document per version / per N.root.json). Two recorded findings (trusted root not persisted) are excluded by class and re-demonstrated natively on every run.'),
 'C04': dict(ref='§4 C04', note=BASE + 'Instants are mathematical integers that are only compared; every Utc::now() is a fresh unconstrained instant; Root::verify_role is the C01 oracle here.'),
 'C06': dict(ref='§4 C06', note=BASE + 'read_target, target_digest_and_filename, fetch_target, fetch_sha256, fetch_max_size, DigestAdapter::poll_next and the max_size_adapter closure run from MIR and are drained as a stream of <=2 (quick) / <=3 (thorough) chunks with an optional endless tail; Targets::find_target is an oracle here (C07). A native sweep (696 cases: bit flips, truncations, extensions, endless, substitution, transport errors; top-level and delegated; both consistent settings) validates the stream models against the real library.'),
 'C09': dict(ref='§4 C09', note=BASE + 'Per-file bounds on all paths (not only successful ones) for timestamp/snapshot/targets/root/delegated files with <=2 chunks; delegation shapes flat / nested / self- and mutually delegating with unwinding depth 6; byte counts that wrap u64 are outside the claim. Native size recipes (exact size, one byte more, endless) run on every check.'),
 'C11': dict(ref='§4 C11', note='Trusted base: serde_json drives the Formatter protocol as documented; CompactFormatter writes its fixed bytes; BTreeMap iterates in byte order; str::nfc is the identity on ASCII (symbolic part is ASCII: printable, quote, backslash, controls; keys of 1..2 bytes, 2 members quick / 3 thorough, one nested object). NFC and multi-byte behaviour is validated natively on all key sets of size <=3 over a 13-symbol alphabet plus an NFC corpus, against a Python reference encoder.'),
 'C13': dict(ref='§4 C13', note='Trusted base: SHA-256 and canonical serialisation of a key are functions of the key content (2-byte digest stand-in, byte- and length-wise comparison); serde drives visit_map in document order; HashMap::insert returns the previous value. deserialize_keys::visit_map, validate_and_insert_entry, Key::key_id and Decoded::eq run from MIR over tables of 1..2 (3 thorough) entries with identifiers shorter / equal / longer than the digest; the routing of Root.keys and Delegations.keys through deserialize_keys is read off the derive-generated wrappers in the dump. Not claimed from MIR: PEM/SPKI re-encoding stability, hex-case (covered natively: 1152 cases over the 36 fixture and generated keys).'),
 'C18': dict(ref='§4 C18', note='Trusted base: reqwest (error_for_status, status, is_timeout, is_request, headers, bytes_stream) and tokio sleep as documented; a server announces Accept-Ranges only if it honours Range; a body that ends without error is the complete remaining resource; back-off durations do not influence control flow. RetryStream::{poll_next,poll_streaming,poll_executing,poll_new_request,may_retry,poll_err}, RetryState::increment, parse_response_code, both From impls and build_request run from MIR against a symbolic response script: tries 1..2 with tries+1 responses and 1 body chunk + break point (quick), tries 1..3 with tries+2 responses and 2 chunks (thorough); resource <= 256 KiB. Counterexamples are replayed against a loopback HTTP server.'),
 'C14': dict(ref='§4 C14', note=BASE + 'Claimed for the case where the previously trusted root is the shipped one (the general case falls under the recorded C03 root-persistence findings). Key lists of length 1 and 2 on either side; end-to-end 2-cycle history with one key per role; a native menu of list shapes (extended, truncated, re-ordered, replaced, unchanged) validates the list model on every run.'),
 'C15': dict(ref='§4 C15', note=BASE + 'File-system model: tokio::fs::write = open(O_TRUNC) then write; rename atomic; a created/truncated, incompletely written file does not parse; every datastore call may fail (ENOSPC/EIO) or be the last one before the process dies. History: clean cycle, faulted cycle, clean cycle; one root hop; temporary files the code creates become part of the tracked datastore state.'),
 'C05': dict(ref='§4 C05', note=BASE + 'Sha-256 is a function of the sequence of accepted chunks; <=1 (quick) / <=2 (thorough) chunks per file; delegation trees of depth <=2 (quick) / <=3 (thorough).'),
 'C07': dict(ref='§4 C07', note='Trusted base: GlobMatcher::is_match and the hex SHA-256 prefix test are uninterpreted functions of (pattern, string); HashMap::get finds an entry iff the role lists the name. Targets::find_target, PathSet/PathPattern/PathHashPrefix::matches_target_name, TargetName::resolved and Targets::validate run from MIR on delegation trees of depth <=3 and fan-out <=3 with 1..2 patterns/prefixes per delegation, symbolic membership of one (find_target) / two (validate) names in every role, raw != resolved and raw == resolved names; a native sweep (663 repositories with real globs/hash prefixes) validates the model end to end. Larger trees are outside the claim.'),
 'C08': dict(ref='§4 C08', note=BASE + 'Repository::save_target runs from MIR for both Prefix modes, names that do / do not need resolution, and a scripted verified stream of 0..2 (quick) / 0..3 (thorough) items each Ok(bytes) or Err; whether parent(outdir.join(name)) starts with outdir is an uninterpreted predicate of the file-name variant (Path::join/parent/starts_with are lexical in std); NamedTempFile::new_in / persist / drop follow the tempfile contract (create in dir, rename(2), unlink on drop). Obligations: no fs effect before the containment check passes, bytes only go to the temp file, rename only after the stream ended Ok, temp file gone on every error path, nothing outside outdir. A native sweep (real files, hostile names, failing streams) validates the model.'),
 'C16': dict(ref='§4 C16', note='Trusted base: percent_encoding::utf8_percent_encode escapes exactly the bytes of the AsciiSet plus non-ASCII (the set itself is evaluated from the const initialiser in the MIR of the current tree); encode_filename and its call sites (datastore names, cache file names, target file names, role URLs) run from MIR; injectivity and path-safety are solver queries over symbolic bytes (names of <=4 bytes; longer names follow by the byte-wise definition, stated as outside the solver claim); native sweep over all 1- and 2-byte names and a hostile menu compares against a reference encoder and against the real file system.'),
 'C17': dict(ref='§4 C17', note='Trusted base: SignedRole::new(role, ..) either fails or wraps exactly `role`; SignedRole::from_signed wraps exactly its argument; Clone is deep; HashMap::extend/insert overwrite, unwrap_or_default is the empty map; Targets::validate may accept or refuse (C07); RepositoryEditor::new yields an editor with every optional field unset. RepositoryEditor::{from_repo, targets, snapshot, timestamp, *_version, *_expires, add_target, sign, sign_targets_editor, build_snapshot, build_timestamp, snapshot_meta, timestamp_meta}, TargetsEditor::{from_targets, version, expires, add_target, create_signed, build_targets}, Targets::signed_delegated_targets and Signed::delegated_targets/targets run from MIR as one chain. Target maps and unknown-member maps are arbitrary functions (any size); loaded delegation trees: none / nested (quick) plus flat and depth-3 (thorough); 0..1 (quick) / 0..2 (thorough) added targets with symbolic names. A native sweep (18 repositories per seed: extras, custom data, thresholds 2-of-3, odd role names, both consistent-snapshot settings, +0/+1/+3 targets) is the replay of every counterexample class.'),
 'C10': dict(ref='§4 C10', note='Solver part (MIR): (1) the chain from_repo -> setters -> add_target -> sign -> SignedRepository::write on the C17 repository shapes: snapshot.meta lists exactly targets.json and the delegated role files that are written, each entry carries the SHA-256/length/version of the very buffer written for that role, timestamp.meta likewise for snapshot.json, every buffer is written once under the name the client derives from the parent meta (N.name only with consistent snapshots), nothing else is written; (2) SignedRole::from_signed: buffer = pretty serialisation + newline, length and SHA-256 are those of that buffer; (3) SignedRole::new for each role type with 0..2 (quick) / 0..3 (thorough) usable keys and 1..2/3 listed key ids: signatures only by listed keys over the canonical form, success => threshold met (except root), refusal only when it is not. Trusted base: serde/crypto/fs contracts listed in the evidence; encode_filename is C16; Targets::validate is C07. The cross-party flow (update_delegated_targets / add_role) and TargetsWalker::target_path are covered only by the native sweep in this revision: random editing programs (<= 25 operations, delegation depth <= 3, thresholds 1..3 with mixed Ed25519/ECDSA/RSA keys, names with spaces/unicode/sub-directories, both consistent-snapshot settings, copy and symlink publication, adequate and inadequate signing key sets) run against the real editor and client with a reference model of the program; it is also the replay of the solver counterexamples. One recorded known finding (file transport vs percent-encoded target names).'),
}

NA = {
}
PENDING = 'not claimed yet in this revision: the check is being built (see DESIGN.md §8 build order); no result is asserted for it'

def main():
    props = [json.loads(l)['id'] for l in open(os.path.join(VERIF, 'properties.jsonl'))]
    checks = []
    for pid in props:
        if pid not in CHECKS: continue
        c = CHECKS[pid]
        checks.append({
            'property_id': pid,
            'quick_cmd': f'./check {pid} --tier quick',
            'thorough_cmd': f'./check {pid} --tier thorough',
            'evidence_file': f'/verif/evidence/{pid}.json',
            'replay_cmd_template': f'./check {pid} --replay {{path}}',
            'engine': 'mirsym',
            'level_claimed': {'category': 'other', 'text': LEVEL_TEXT, 'design_ref': c['ref']},
            'level_note': c['note'],
            'technique': c.get('technique', TECH),
        })
    na = [{'property_id': p, 'reason': NA.get(p, PENDING)} for p in props if p not in CHECKS]
    m = {
        'version': 1,
        'setup_cmd': './setup.sh',
        'hooks': {'guard': 'none', 'enable': 'no source hooks: clock, file system and network are models on the solver side and plain files / in-memory transport / loopback socket on the replay side',
                  'baseline_off_cmd': 'cd /repo && cargo test --workspace --no-fail-fast --offline', 'source_commits': [], 'add_only': True},
        'engines': [
            {'name': 'mirsym', 'path': 'mirsym/', 'serves_properties': sorted(CHECKS), 'kind_free_text': 'symbolic interpreter for rustc MIR text + contract models + z3/cvc5'},
            {'name': 'replay', 'path': 'replay/', 'serves_properties': sorted(CHECKS), 'kind_free_text': 'Rust crate (path-dep on /repo/tough, /repo/olpc-cjson) that rebuilds solver counterexamples with real keys/signatures and runs the public API'},
        ],
        'checks': checks,
        'not_applicable': na,
        'notes': 'All checks regenerate the MIR from /repo on every run (content-hashed cache), see DESIGN.md. Exit 2 + INCONCLUSIVE line = solver unknown / unmodelled construct / non-reproducing counterexample; never used for a pass.',
    }
    json.dump(m, open(os.path.join(VERIF, 'MANIFEST.json'), 'w'), indent=1)
    print('MANIFEST.json:', len(checks), 'checks,', len(na), 'not applicable/pending')
if __name__ == '__main__': main()
