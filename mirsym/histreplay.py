"""Decode a model of a k-cycle history into a concrete scenario for the replay crate, and compare outcomes."""
import z3
from history import *

ROLE_NAMES = ('Root', 'Timestamp', 'Snapshot', 'Targets')

def clean_constraints(cycles, shipped):
    """restrict a witness query to scenarios the replay builder can express exactly"""
    RT = variants('RoleType')
    cs = []
    roots = [shipped]
    for c in cycles: roots += list(c.hops)
    for r in roots:
        cs.append(z3.UGE(Ver(r), 1)); cs.append(z3.ULT(Ver(r), 2 ** 62)); cs.append(RoleOf(r) == RT.index('Root'))
        for rn in ROLE_NAMES: cs.append(Thr(r, IDV(RT.index(rn))) == 1)
    for c in cycles:
        for nm, rn in (('ts', 'Timestamp'), ('sn', 'Snapshot'), ('tg', 'Targets')):
            d = c.served[nm]
            cs += [z3.UGE(Ver(d), 1), z3.ULT(Ver(d), 2 ** 62), RoleOf(d) == RT.index(rn), c.env[nm]['served_parses'], z3.Not(c.env[nm]['fetch_err'])]
        # no digest / length pins (they are derived from the real bytes when present; not the subject of history checks)
        cs += [z3.Not(MHasLen(c.served['ts'], IDV(0))), z3.Not(MHasHash(c.served['ts'], IDV(0))),
               z3.Not(MHasLen(c.served['sn'], IDV(1))), z3.Not(MHasHash(c.served['sn'], IDV(1)))]
        cs += [MPresent(c.served['ts'], IDV(0)), MPresent(c.served['sn'], IDV(1))]
        cs += [z3.UGE(MVer(c.served['ts'], IDV(0)), 1), z3.ULT(MVer(c.served['ts'], IDV(0)), 2 ** 62), z3.UGE(MVer(c.served['sn'], IDV(1)), 1), z3.ULT(MVer(c.served['sn'], IDV(1)), 2 ** 62)]
        cs += [c.env['root']['shipped_parses']] + list(c.env['root']['hop_parses']) + [c.env['root']['max_updates'] == 1024]
        # a file is either unavailable at fetch time or delivered completely in one good chunk
        for ch in c.chunks: cs += [ch[0], z3.Not(ch[1]), z3.UGE(ch[2], 1), z3.ULE(ch[2], 100000)]
        # the replay uses the library's default limits; the files it builds are a few KB
        for lim in c.limits: cs.append(lim == 1024 * 1024)
    # documents with the same id are the same document: ids of different roles must differ (RoleOf is a function, so this is implied)
    return cs

def decode_history(m, cycles, shipped, extra_pre=None):
    """model -> scenario JSON for `replay history`, plus the solver's predicted per-cycle outcome"""
    RT = variants('RoleType')
    ev = lambda t: m.eval(t, model_completion=True)
    I8 = lambda t: ev(t).as_long()
    # ---- keys: one real key per (role, KS value)
    keyidx = {}
    def key_of(role, ksval):
        k = (role, ksval)
        if k not in keyidx: keyidx[k] = len(keyidx)
        return keyidx[k]
    root_ids = []
    def add_root(r):
        v = I8(r)
        if v not in root_ids: root_ids.append(v)
        return root_ids.index(v)
    add_root(shipped)
    for c in cycles:
        for h in c.hops: add_root(h)
    def ks(rid, rn): return I8(KS(z3.BitVecVal(rid, 8), IDV(RT.index(rn))))
    for rid in root_ids:
        for rn in ROLE_NAMES: key_of(rn, ks(rid, rn))
    def signers_of(doc_id_val, role_name):
        out = []
        for (rn, ksv), idx in list(keyidx.items()):
            if rn != role_name: continue
            if z3.is_true(ev(W(z3.BitVecVal(ksv, 8), z3.BitVecVal(1, 64), z3.BitVecVal(doc_id_val, 8)))): out.append(idx)
        return out
    roots = []
    for rid in root_ids:
        roles = {rn.lower(): {'keys': [key_of(rn, ks(rid, rn))], 'thr': 1} for rn in ROLE_NAMES}
        table = sorted({roles[r]['keys'][0] for r in roles})
        roots.append({'id': rid, 'version': I8(Ver(z3.BitVecVal(rid, 8))), 'consistent': bool(z3.is_true(ev(Cons(z3.BitVecVal(rid, 8))))),
                      'table': table, 'roles': roles, 'signers': signers_of(rid, 'Root')})
    out_cycles = []; predicted = []
    for c in cycles:
        cur = I8(shipped); serve = {}
        final = I8(c.root) if z3.is_true(ev(c.ok_root)) else None
        # serve hop i under the name the client will ask for: version(current)+1, walking as the client does
        curv = I8(Ver(shipped))
        for i, h in enumerate(c.hops):
            if z3.is_true(ev(c.env['root']['hop_fetch_err'][i])): break
            hv = I8(h)
            serve[str(curv + 1)] = root_ids.index(hv)
            # does the ENCODED client adopt it?  When its walk succeeded, that is read off the root it ends on (so that a client which
            # deviates from the rule is still served the files it asks for); otherwise the rule: verified by current and itself, version higher
            if final is not None: a = final in [I8(x) for x in c.hops[i:]]
            else: a = z3.is_true(ev(V(z3.BitVecVal(cur, 8), h))) and z3.is_true(ev(V(h, h))) and I8(Ver(h)) > curv
            if not a: break
            cur = hv; curv = I8(Ver(h))
        def doc(nm, rn):
            d = I8(c.served[nm])
            return {'id': d, 'version': I8(Ver(c.served[nm])), 'signers': signers_of(d, rn)}
        # file names follow the root the ENCODED client ends on (the model's), not the reference walk
        consistent = bool(z3.is_true(ev(Cons(z3.BitVecVal(final if final is not None else cur, 8)))))
        cy = {'shipped': 0, 'serve_roots': serve, 'consistent': consistent, 'safe': False,
              'timestamp': doc('ts', 'Timestamp'), 'snapshot': doc('sn', 'Snapshot'), 'targets': doc('tg', 'Targets'),
              'ts_meta': {'version': I8(MVer(c.served['ts'], IDV(0)))}, 'sn_meta': {'version': I8(MVer(c.served['sn'], IDV(1)))}}
        out_cycles.append(cy)
        predicted.append({'ok': bool(z3.is_true(ev(c.ok))), 'ok_root': bool(z3.is_true(ev(c.ok_root))), 'ok_ts': bool(z3.is_true(ev(c.ok_ts))), 'ok_sn': bool(z3.is_true(ev(c.ok_sn))),
                          'older': bool(z3.is_true(ev(c.older_any))),
                          'versions': {'root': I8(Ver(c.root)), 'timestamp': I8(Ver(c.ts)), 'snapshot': I8(Ver(c.sn)), 'targets': I8(Ver(c.tg))} if z3.is_true(ev(c.ok)) else None})
    if extra_pre:
        for k, ops in extra_pre.items(): out_cycles[k]['pre'] = ops
    return {'nkeys': max(len(keyidx), 1), 'roots': roots, 'cycles': out_cycles}, predicted

def agree(pred, real):
    """does the native run agree with the solver's prediction (per cycle: success, and versions on success)?"""
    diffs = []
    for k, (p, r) in enumerate(zip(pred, real['cycles'])):
        if p['ok'] != r['ok']: diffs.append(f'cycle {k+1}: predicted ok={p["ok"]} real ok={r["ok"]} ({r.get("err")}: {r.get("msg", "")[:120]})'); continue
        if p['ok'] and p['versions'] != r['versions']: diffs.append(f'cycle {k+1}: versions predicted {p["versions"]} real {r["versions"]}')
        if not p['ok'] and p['older'] != (r.get('err') == 'OlderMetadata'): diffs.append(f'cycle {k+1}: predicted older={p["older"]} real err={r.get("err")}')
    return diffs

# ---------------------------------------------------------------- reference walk + differential validation
def reference_root_walk(sc, cycle):
    """what the property demands of the root walk, computed on the concrete scenario: (final root index, request names)"""
    roots = sc['roots']; cur = roots[cycle.get('shipped', 0)]; names = []
    def signed_by(doc, signer_root):
        return any(k in doc['signers'] for k in signer_root['roles']['root']['keys'])
    budget = cycle.get('limits', {}).get('max_root_updates', 1024); start = cur['version']
    if not signed_by(cur, cur): return None, names       # a shipped root that does not verify under its own keys is refused
    while True:
        if not (cur['version'] < start + budget): return None, names       # MaxUpdatesExceeded
        name = str(cur['version'] + 1); names.append(name + '.root.json')
        idx = cycle.get('serve_roots', {}).get(name)
        if idx is None: break
        cand = roots[idx]
        if not (signed_by(cand, cur) and signed_by(cand, cand)): return None, names       # must be refused
        if cand['version'] < cur['version']: return None, names
        if cand['version'] == cur['version']: break
        cur = cand
    return cur, names

def differential(R, sums, ncycles=1, max_models=6, build=None, extra=None, label='differential'):
    """solver-chosen clean histories, one per distinct outcome class, replayed natively: the encoding's prediction, the
    native outcome and the reference expectation must agree.  Returns list of (description, scenario) for real deviations
    from the reference; encoder/native disagreements are recorded as inconclusive."""
    import props.C03 as C03
    shipped, cyc, f = (build or C03.build_history)(sums, ncycles, 'd')
    s = z3.Solver(); s.set('timeout', R.timeout_ms); s.set('random_seed', R.seed % (2**31))
    s.add(f); s.add(clean_constraints(cyc, shipped))
    if extra: s.add(extra(cyc, shipped))
    found = []
    klass = []
    for c in cyc:
        klass += [c.ok_root, c.ok_ts, c.ok_sn, c.ok, c.older, c.root == shipped] + [c.root == h for h in c.hops]
    n = 0
    while n < max_models:
        r = s.check()
        if r != z3.sat: break
        m = s.model(); n += 1
        sc, pred = decode_history(m, cyc, shipped)
        real = R.replay('history', sc)
        R.differential['scenarios'] += 1
        d = agree(pred, real)
        devs = []
        for k, (cy, rc) in enumerate(zip(sc['cycles'], real['cycles'])):
            exp_root, names = reference_root_walk(sc, cy)
            got = [x[0] for x in rc['requests'] if x[0].endswith('.root.json')]
            if rc['ok'] and (exp_root is None or rc['versions']['root'] != exp_root['version']):
                devs.append(f'cycle {k+1}: trusted root version {rc["versions"]["root"]} but the reference walk ' + ('refuses the chain' if exp_root is None else f'ends at version {exp_root["version"]}'))
            if exp_root is not None and got != names and not (len(got) < len(names) and not rc['ok']):
                devs.append(f'cycle {k+1}: root files requested {got}, reference {names}')
        if devs: found.append(('; '.join(devs), sc))
        elif d: R.inconclusive.append(f'{label}: encoding and native run disagree: ' + '; '.join(d) + ' scenario=' + R.save_unreproduced(sc, pred, real))
        else: R.differential['agree'] += 1
        s.add(z3.Or([x != m.eval(x, model_completion=True) for x in klass]))
    return found

def json_short(sc):
    import json
    return json.dumps(sc)[:600]
