"""list callees of given functions (debug aid): python3-vt callees.py <crate> <fn-substring>..."""
import sys, re, collections
import dump
from parse import parse_file
path, _ = dump.dump(sys.argv[1])
funcs, consts, allocs, errors = parse_file(path)
for pat in sys.argv[2:]:
    for name, fs in funcs.items():
        if pat in name:
            print('==', name, f'({len(fs[0].blocks)} blocks)')
            c = collections.Counter()
            for b in fs[0].blocks.values():
                if b.term and b.term[0] == 'call' and not b.cleanup: c[b.term[2]] += 1
            for k, v in sorted(c.items()): print('   ', v, k)
