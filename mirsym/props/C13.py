"""C13 — a key is only trusted under the identifier that is the SHA-256 of its canonical form."""
import z3, re, json, itertools
from sym import *
import models, streams
from models import *
from streams import *
from layout import F, variants

TITLE = 'key tables are accepted iff every identifier equals Sha256(Canon(key)) byte for byte and identifiers are pairwise distinct; both tables are routed through the check'
B8 = lambda v: z3.BitVecVal(v, 8)
DLEN = 2          # the digest is modelled as a 2-byte string (stand-in for 32 bytes; comparisons are length- and byte-wise)
Dg = z3.Function('Dg', z3.BitVecSort(8), z3.BitVecSort(8), z3.BitVecSort(8))      # key content id, byte index -> digest byte

def bytes_obj(data): return Obj('bytes', data=list(data))
def data_of(I, st, v):
    b = deref(I, st, v)
    while isinstance(b, Ref): b = I.deref_load(st, b)
    if isinstance(b, Adt):           # Decoded<T> { bytes, original, spooky }
        b = b.fields.get((None, F('Decoded', 'bytes')))
        while isinstance(b, Ref): b = I.deref_load(st, b)
    if isinstance(b, Obj) and 'data' in b.d: return b.d['data']
    raise Stuck('byte data of ' + repr(b)[:80])

def m_vec_new(I, st, fr, callee, args, dty, dest, ret_bb): return Obj('vec', content=Obj('empty'))
def m_canon_new(I, st, fr, callee, args, dty, dest, ret_bb): return Obj('canon_fmt')
def m_with_formatter(I, st, fr, callee, args, dty, dest, ret_bb): return Obj('serializer', out=args[0], fmt=mat(I, st, args[1]))
def m_serialize_key(I, st, fr, callee, args, dty, dest, ret_bb):
    val = deref(I, st, args[0]); ser = deref(I, st, args[1])
    canon = isinstance(ser.d['fmt'], Obj) and ser.d['fmt'].kind == 'canon_fmt'
    vec = deref(I, st, ser.d['out'])
    vec.d['content'] = Obj('canon' if canon else 'noncanon', of=val.d.get('cid') if isinstance(val, Obj) else None)
    st.events.append(('serialize', val.d.get('cid') if isinstance(val, Obj) else None, canon))
    ok = z3.Bool(fresh_name('ser_ok'))
    return mk_result(ok=unit(), err=Obj('serde_error'), discr=z3.If(ok, BV64(0), BV64(1)))
def m_digest(I, st, fr, callee, args, dty, dest, ret_bb):
    alg = mat(I, st, args[0]); buf = deref(I, st, args[1])
    while isinstance(buf, Ref): buf = I.deref_load(st, buf)
    c = buf.d.get('content')
    st.events.append(('digest', alg.d.get('static') if isinstance(alg, Obj) else repr(alg)[:30], c.kind if isinstance(c, Obj) else None))
    if not (isinstance(c, Obj) and c.kind == 'canon' and c.d.get('of') is not None):
        return bytes_obj([z3.BitVec(fresh_name('garbage_digest'), 8) for _ in range(DLEN)])
    return bytes_obj([Dg(c.d['of'], B8(i)) for i in range(DLEN)])
def m_to_vec(I, st, fr, callee, args, dty, dest, ret_bb): return bytes_obj(data_of(I, st, args[0]))
def m_vec_eq(I, st, fr, callee, args, dty, dest, ret_bb):
    a, b = data_of(I, st, args[0]), data_of(I, st, args[1])
    if len(a) != len(b): return z3.BoolVal(False)
    return z3.And([x == y for x, y in zip(a, b)] + [z3.BoolVal(True)])
def m_hex_encode(I, st, fr, callee, args, dty, dest, ret_bb): return Obj('str', s=None, pieces=['<hex>'])
def m_map_new(I, st, fr, callee, args, dty, dest, ret_bb): return Obj('keytable', entries=[])
def m_map_insert(I, st, fr, callee, args, dty, dest, ret_bb):
    m = deref(I, st, args[0]); k = mat(I, st, args[1]); v = mat(I, st, args[2])
    kd = data_of(I, st, k)
    same = [z3.And([x == y for x, y in zip(kd, ed)] + [z3.BoolVal(True)]) if len(kd) == len(ed) else z3.BoolVal(False) for ed, _ in m.d['entries']]
    dup = z3.Or(same + [z3.BoolVal(False)])
    m.d['entries'] = m.d['entries'] + [(kd, v)]
    st.events.append(('insert', kd, v.d.get('cid') if isinstance(v, Obj) else None))
    return Adt('Option<Key>', z3.If(dup, BV64(1), BV64(0)), {('Some', 0): Obj('key', cid=None)})
def m_is_none(I, st, fr, callee, args, dty, dest, ret_bb):
    o = deref(I, st, args[0]); d = discr_of(I, st, o)
    return (d == 0) if not isinstance(d, int) else z3.BoolVal(d == 0)
def m_next_entry(I, st, fr, callee, args, dty, dest, ret_bb):
    acc = deref(I, st, args[0])
    while isinstance(acc, Ref): acc = I.deref_load(st, acc)
    i = acc.d['pos']
    if i >= len(acc.d['entries']): return mk_ok(mk_none())
    acc.d['pos'] = i + 1; k, v = acc.d['entries'][i]
    return mk_ok(mk_some(Adt('tuple', None, {(None, 0): k, (None, 1): v})))
def m_custom_err(I, st, fr, callee, args, dty, dest, ret_bb): return Obj('serde_error', custom=mat(I, st, args[0]))
def m_map_err(I, st, fr, callee, args, dty, dest, ret_bb):
    r = mat(I, st, args[0]); return r

def m_into_decoded(I, st, fr, callee, args, dty, dest, ret_bb): return decoded(data_of(I, st, args[0]))

C13_MODELS = [
    (R(r'^<Vec<u8> as Into<Decoded<Hex>>>::into$'), m_into_decoded),
    (R(r'^Vec::<u8>::new$'), m_vec_new), (R(r'^CanonicalFormatter::new$'), m_canon_new), (R(r'^serde_json::Serializer::<.*>::with_formatter$'), m_with_formatter),
    (R(r'^<key::Key as Serialize>::serialize::<'), m_serialize_key), (R(r'^digest$'), m_digest), (R(r'^<Digest as AsRef<\[u8\]>>::as_ref$'), m_identity),
    (R(r'^(std|core)::slice::<impl \[u8\]>::to_vec$'), m_to_vec), (R(r'^<Vec<u8> as PartialEq>::eq$'), m_vec_eq), (R(r'^<\[u8\] as PartialEq>::eq$'), m_vec_eq),
    (R(r'^hex::encode::<'), m_hex_encode), (R(r'^<Hex as Encode>::encode$'), m_hex_encode),
    (R(r'^HashMap::<Decoded<Hex>, key::Key>::new$'), m_map_new), (R(r'^HashMap::<Decoded<Hex>, key::Key>::insert$'), m_map_insert),
    (R(r'^std::option::Option::<key::Key>::is_none$'), m_is_none), (R(r'as MapAccess<.*>>::next_entry::<Decoded<Hex>, key::Key>$'), m_next_entry),
    (R(r'^<<?M as MapAccess.*as schema::_::_serde::de::Error>::custom::<'), m_custom_err), (R(r'^std::result::Result::<\(\), schema::error::Error>::map_err::<'), m_map_err),
    (R(r'^<Vec<u8> as Deref>::deref$'), m_identity), (R(r'^<str as ToOwned>::to_owned$'), m_to_owned), (R(r'^std::marker::PhantomData'), m_unit),
]

def decoded(data): return Adt('Decoded<Hex>', None, {(None, F('Decoded', 'bytes')): bytes_obj(data), (None, F('Decoded', 'original')): Obj('str', s=None, pieces=['<original>'])})

def run_entries(R, I, id_lens):
    """visit_map over a table of len(id_lens) entries; entry i: identifier of id_lens[i] symbolic bytes, key content id symbolic"""
    st = State(); st.env['fs'] = {}
    n = len(id_lens)
    ids = [[z3.BitVec(f'id{i}b{j}', 8) for j in range(L)] for i, L in enumerate(id_lens)]
    cids = [z3.BitVec(f'key{i}_content', 8) for i in range(n)]
    entries = [(decoded(ids[i]), Obj('key', cid=cids[i])) for i in range(n)]
    acc = st.alloc(Obj('mapaccess', entries=entries, pos=0))
    fn = None
    for name, fs in I.funcs.items():
        if name.startswith('deserialize_keys::') and name.endswith('::visit_map'): fn = fs[0]
    if fn is None: raise Stuck('deserialize_keys visit_map not found')
    I.push_call(st, fn, [Obj('visitor'), Ref(acc)], None, None, generics={'M': 'M'})
    done = []; I.run(st, done.append)
    label = f'table[identifier lengths {id_lens}]'
    def good(i):
        if len(ids[i]) != DLEN: return z3.BoolVal(False)
        return z3.And([ids[i][j] == Dg(cids[i], B8(j)) for j in range(DLEN)])
    def same_id(i, j):
        if len(ids[i]) != len(ids[j]): return z3.BoolVal(False)
        return z3.And([a == b for a, b in zip(ids[i], ids[j])] + [z3.BoolVal(True)])
    spec = z3.And([good(i) for i in range(n)] + [z3.Not(same_id(i, j)) for i in range(n) for j in range(i + 1, n)])
    def dec(m):
        ev = lambda t: m.eval(t, model_completion=True).as_long()
        return {'kind': 'keytable', 'entries': [{'id': [ev(b) for b in ids[i]], 'digest': [ev(Dg(cids[i], B8(j))) for j in range(DLEN)], 'content': ev(cids[i])} for i in range(n)]}
    for s in done:
        R.paths += 1
        if isinstance(s.result, Obj) and s.result.kind == 'panic':
            R.obligation(f'{label}: no panic', s.pc, z3.BoolVal(False), group='no-panic'); continue
        r = s.result; ok = (r.discr == 0)
        sers = [e for e in s.events if e[0] == 'serialize']; digs = [e for e in s.events if e[0] == 'digest']
        if ok:
            wf = all(e[2] for e in sers) and all(e[1] == 'SHA256' and e[2] == 'canon' for e in digs)
            R.obligation(f'{label}: accepted => every identifier is byte-for-byte Sha256(Canon(key)) (canonical formatter, SHA-256) and identifiers are pairwise distinct',
                         s.pc, z3.And(spec, z3.BoolVal(wf)), decode=dec, group='accept-sound')
            tbl = r.fields[('Ok', 0)]
            ents = tbl.d['entries'] if isinstance(tbl, Obj) else []
            R.obligation(f'{label}: the resulting table holds exactly the listed entries under the listed identifiers', s.pc,
                         z3.BoolVal(len(ents) == n and all(z3.eq(v.d['cid'], cids[i]) and all(z3.eq(a, b) for a, b in zip(k, ids[i])) and len(k) == len(ids[i]) for i, (k, v) in enumerate(ents))),
                         decode=dec, group='table-is-input')
        else:
            e = r.fields[('Err', 0)]
            ser_failed = any(True for c in s.pc if 'ser_ok' in str(c)) and False
            R.obligation(f'{label}: refused => some identifier is wrong or repeated (or serialisation of a key failed)', s.pc,
                         z3.Or(z3.Not(spec), serial_failed(s)),
                         decode=dec, group='reject-justified')
    R.reach_any(f'{label}: accepted reachable', [s.pc for s in done if not isinstance(s.result, Obj) and s.result.discr == 0]) if all(L == DLEN for L in id_lens) else None
    return len(done)

def serial_failed(s):
    """the path took the JsonSerialization error branch of Key::key_id"""
    r = s.result
    e = r.fields.get(('Err', 0)) if isinstance(r, Adt) else None
    txt = repr(e)
    return z3.BoolVal('JsonSerialization' in txt)

def wiring(R, I, path):
    """both key tables (Root.keys, Delegations.keys) are deserialised through deserialize_keys (derive-generated wrappers)"""
    text = open(path).read()
    sites = []
    for m in re.finditer(r'^fn (schema::_::<impl at tough/src/schema/mod\.rs:(\d+):[^\n]*?)\(', text, re.M):
        pass
    # the wrappers are `__DeserializeWith::deserialize` bodies that call deserialize_keys; their impl span points at the struct's derive
    for m in re.finditer(r'\n(fn [^\n]*__DeserializeWith[^\n]*\n(?:.*\n)*?\})', text):
        body = m.group(1)
        if 'deserialize_keys::<' in body.split('\n}')[0]:
            sm = re.search(r'tough/src/schema/mod\.rs:(\d+):', body.split('\n')[0])
            sites.append(int(sm.group(1)) if sm else -1)
    src = open(I.repo_root + '/tough/src/schema/mod.rs').read().split('\n')
    owners = set()
    for ln in sites:
        # the struct following the derive line
        for l2 in src[ln - 1: ln + 30]:
            mm = re.match(r'\s*pub struct (\w+)', l2)
            if mm: owners.add(mm.group(1)); break
    R.obligation('wiring: Root.keys and Delegations.keys are both deserialised through deserialize_keys', [], z3.BoolVal({'Root', 'Delegations'} <= owners),
                 decode=lambda m: {'kind': 'wiring', 'owners': sorted(owners)}, group='wiring')
    R.samples.append({'deserialize_keys call sites (struct)': sorted(owners)})

def check(R, tier):
    I = R.interp('tough'); models.install(I); install_streams(I)
    saved = list(I.models); I.models[:0] = C13_MODELS
    R.bounds.update({'table size': '1..2 entries (3 in thorough)', 'identifier length': f'0..{DLEN + 1} bytes against a {DLEN}-byte digest (shorter, equal, longer)', 'key content': 'symbolic id; digest bytes = uninterpreted function of it'})
    R.assumptions += ['SHA-256 and canonical serialisation of a key are functions of the key content; Decoded<Hex> compares decoded bytes (hex case is gone after decoding)',
                      'serde drives Visitor::visit_map with the entries of the JSON object in order; HashMap::insert returns the previous value for an equal key']
    try:
        lens1 = [(L,) for L in range(0, DLEN + 2)]
        lens2 = [(a, b) for a in range(1, DLEN + 2) for b in range(1, DLEN + 2)] if tier == 'thorough' else [(DLEN, DLEN), (1, DLEN), (DLEN, DLEN + 1), (DLEN, 1)]
        lens3 = [(DLEN, DLEN, DLEN)] if tier == 'thorough' else []
        n = 0
        for lens in lens1 + lens2 + lens3: n += run_entries(R, I, lens)
        R.check_interp_clean(I, 'visit_map')
    finally:
        I.models[:] = saved
    wiring(R, I, R.mir_path('tough'))
    hash_eq_consistency(R, I)
    native_validation(R)
    finalize(R)

def hash_eq_consistency(R, I):
    """the duplicate check of the key table is `HashMap::insert(..).is_none()`: it is only a duplicate check if Hash and Eq of the identifier
    type look at the same thing.  Run both impls of Decoded<T> from MIR against recording models: each must consume exactly the decoded bytes."""
    import re
    from layout import F
    def find(suffix, first):
        for n, fs in I.funcs.items():
            if 'schema/decoded.rs' in n and n.endswith(suffix) and fs[0].args.startswith(first): return fs[0]
        return None
    seen = {}
    def m_feed(I_, s, fr, c, a, d, de, rb):
        v = deref(I_, s, a[0])
        while isinstance(v, Ref): v = I_.deref_load(s, v)
        s.events.append(('consumed', v.d.get('field') if isinstance(v, Obj) else repr(v)[:40])); return unit() if 'Hash' in c else z3.Bool(fresh_name('bytes_equal'))
    ms = [(re.compile(r' as Hash>::hash::<'), m_feed), (re.compile(r'^<Vec<u8> as PartialEq(<.*>)?>::eq$'), m_feed), (re.compile(r'^<std::string::String as (Hash>::hash::<|PartialEq>::eq$)'), m_feed),
          (re.compile(r'^<PhantomData<.*> as (Hash>::hash::<|PartialEq>::eq$)'), m_feed)]
    def val(tag): return Adt('Decoded', None, {(None, F('Decoded', 'bytes')): Obj('vec', field='bytes', tag=tag), (None, F('Decoded', 'original')): Obj('str', field='original', tag=tag), (None, F('Decoded', 'spooky')): Obj('phantom', field='spooky')})
    saved = list(I.models); I.models[:0] = ms
    try:
        for what, fn, args in (('Hash', find('::hash', '_1: &Decoded<T>, _2: &mut '), lambda st: [Ref(st.alloc(val('a'))), Ref(st.alloc(Obj('hasher')))]),
                               ('PartialEq', find('::eq', '_1: &Decoded<T>, _2: &Decoded<T>'), lambda st: [Ref(st.alloc(val('a'))), Ref(st.alloc(val('b')))])):
            if fn is None:
                R.inconclusive.append(f'<Decoded<T> as {what}> not found in the MIR'); continue
            st = State(); st.env['fs'] = {}
            I.push_call(st, fn, args(st), None, None, generics={'T': 'Hex', 'H': 'H', '__H': 'H'})
            done = []; I.run(st, done.append)
            R.check_interp_clean(I, f'<Decoded<T> as {what}>')
            for s_ in done:
                R.paths += 1
                fields = sorted({e[1] for e in s_.events if e[0] == 'consumed'})
                seen[what] = fields
                R.obligation(f'<Decoded<T> as {what}> looks at the decoded bytes and nothing else (so equal identifiers hash alike and HashMap::insert detects a repeated identifier whatever its spelling)', s_.pc,
                             z3.BoolVal(fields == ['bytes']), decode=lambda m, what=what, fields=fields: {'kind': 'hash-eq', 'impl': what, 'consumes': fields}, group='hash-eq-consistent')
    finally:
        I.models[:] = saved
    R.samples.append({'Decoded<T> Hash / PartialEq consume': seen})

def native_validation(R):
    res = R.replay('keyids', {})
    R.differential['scenarios'] += res['cases']; R.differential['agree'] += res['cases'] - len(res['deviations'])
    R.native_dev = res['deviations']

def finalize(R):
    for d in getattr(R, 'native_dev', [])[:2]:
        R.report_violation('key table: ' + d['what'], d)
    if not R.violations:
        for cx in R.counterexamples[:3]:
            R.inconclusive.append(f'counterexample for "{cx["obligation"]}" did not show up in the native key-table sweep: {str(cx.get("scenario") or cx.get("model"))[:300]}')

def replay_file(R, path):
    print(json.dumps(R.replay('keyids', {}))); return 0
