"""C11 — CanonicalFormatter output is the OLPC canonical form of the value, and only of it."""
import z3, re, itertools, json, unicodedata
from sym import *
import models
from models import *
from harness import Inconclusive

TITLE = 'canonical JSON: members ordered by raw key, only quote/backslash escaped, no whitespace, floats refused, insertion-order independent'
B = lambda v: z3.BitVecVal(v, 8)
def lit(s): return [B(c) for c in s.encode()]

# ---------------------------------------------------------------- reference (Python) OLPC canonical JSON
def ref_canon(v):
    if v is None: return b'null'
    if v is True: return b'true'
    if v is False: return b'false'
    if isinstance(v, int): return str(v).encode()
    if isinstance(v, float): raise ValueError('float')
    if isinstance(v, str):
        s = unicodedata.normalize('NFC', v)
        return b'"' + s.replace('\\', '\\\\').replace('"', '\\"').encode('utf-8') + b'"'
    if isinstance(v, list): return b'[' + b','.join(ref_canon(x) for x in v) + b']'
    if isinstance(v, dict):
        items = sorted(((unicodedata.normalize('NFC', k), val) for k, val in v.items()), key=lambda kv: kv[0].encode('utf-8'))
        return b'{' + b','.join(ref_canon(k) + b':' + ref_canon(val) for k, val in items) + b'}'
    raise TypeError(type(v))

# ---------------------------------------------------------------- models (byte vectors, BTreeMap, Vec<Object>, serde_json CompactFormatter)
def tgt_cell(I, st, box):
    b = mat(I, st, box)
    for _ in range(12):
        if isinstance(b, Adt) and (None, 0) in b.fields: b = mat(I, st, b.fields[(None, 0)]); continue
        if isinstance(b, Ref):
            v = I.deref_load(st, b)
            if isinstance(v, Obj) and v.kind == 'bytes': return b
            b = v; continue
        break
    raise Stuck('write target ' + repr(b)[:80])
def append(I, st, box, data):
    r = tgt_cell(I, st, box); v = I.deref_load(st, r); v.d['data'] = v.d['data'] + list(data)
def m_box_new(I, st, fr, callee, args, dty, dest, ret_bb): return Adt('Box', None, {(None, 0): args[0]})
def m_deref_mut(I, st, fr, callee, args, dty, dest, ret_bb): return args[0]
def m_last_mut(I, st, fr, callee, args, dty, dest, ret_bb):
    v = deref(I, st, args[0]); items = v.d['items']
    return mk_some(Ref(items[-1])) if items else mk_none()
def m_map_or(I, st, fr, callee, args, dty, dest, ret_bb):
    o = mat(I, st, args[0])
    if o.discr == 0: return args[1]
    fn = I.resolve_closure(args[2].ty)
    I.push_call(st, fn, [args[2], o.fields[('Some', 0)]], dest, ret_bb); return PUSHED
def m_ok_or_else(I, st, fr, callee, args, dty, dest, ret_bb):
    o = mat(I, st, args[0])
    if o.discr == 1: return mk_ok(o.fields[('Some', 0)])
    return mk_err(Obj('ioerror', ek=39, why='no object'))
FIXED = {'begin_string': '"', 'end_string': '"', 'begin_object': '{', 'end_object': '}', 'begin_array': '[', 'end_array': ']',
         'end_object_key': '', 'begin_object_value': ':', 'end_object_value': '', 'end_array_value': '', 'write_null': 'null'}
def m_compact(I, st, fr, callee, args, dty, dest, ret_bb):
    meth = re.search(r'Formatter>::(\w+)::<', callee).group(1)
    if meth in FIXED: data = lit(FIXED[meth])
    elif meth in ('begin_object_key', 'begin_array_value'):
        first = z3.simplify(I.as_z3(st, args[2]))
        if not (z3.is_true(first) or z3.is_false(first)): raise Stuck('symbolic `first`')
        data = [] if z3.is_true(first) else lit(',')
    elif meth == 'write_bool':
        b = z3.simplify(I.as_z3(st, args[2])); data = lit('true' if z3.is_true(b) else 'false')
    elif meth.startswith('write_u') or meth.startswith('write_i'):
        data = [('dec', I.as_z3(st, args[2]))]
    elif meth == 'write_number_str':
        data = [('numstr', deref(I, st, args[2]))]
    else: raise Stuck('CompactFormatter::' + meth)
    append(I, st, args[1], data); return mk_ok(unit())
def bytes_of(I, st, v):
    b = deref(I, st, v)
    while isinstance(b, Ref): b = I.deref_load(st, b)
    if isinstance(b, Obj) and 'data' in b.d: return list(b.d['data'])
    if isinstance(b, Obj) and 'b' in b.d: return [B(x) for x in b.d['b']]
    if isinstance(b, Adt): return [b.fields[(None, i)] for i in range(len(b.fields))]
    raise Stuck('bytes of ' + repr(b)[:60])
def m_write_all(I, st, fr, callee, args, dty, dest, ret_bb):
    append(I, st, args[0], bytes_of(I, st, args[1])); return mk_ok(unit())
def m_nfc(I, st, fr, callee, args, dty, dest, ret_bb):
    return Obj('chars', data=list(deref(I, st, args[0]).d['data']))     # identity on the ASCII range (the bound of the symbolic part)
def m_try_for_each(I, st, fr, callee, args, dty, dest, ret_bb):
    it = deref(I, st, args[0]); clos = st.alloc(args[1])
    st.frames.append(ModelFrame(h_try_for_each, {'chars': it.d['data'], 'i': 0, 'clos': clos}, dest, ret_bb)); return PUSHED
def h_try_for_each(I, st, fr):
    d = fr.data
    if 'ret' in d:
        r = d.pop('ret')
        if r.discr != 0: I.do_return(st, r); return [st]
    if d['i'] >= len(d['chars']): I.do_return(st, mk_ok(unit())); return [st]
    ch = d['chars'][d['i']]; d['i'] += 1
    fn = I.resolve_closure(st.heap[d['clos']].ty)
    I.push_call(st, fn, [Ref(d['clos']), z3.ZeroExt(24, ch)], None, None); return [st]
def m_encode_utf8(I, st, fr, callee, args, dty, dest, ret_bb):
    c = I.as_z3(st, args[0]); return Ref(st.alloc(Obj('bytes', data=[z3.Extract(7, 0, c)])))
def m_take(I, st, fr, callee, args, dty, dest, ret_bb):
    v = I.deref_load(st, mat(I, st, args[0])); I.deref_store(st, args[0], Obj('bytes', data=[])); return v
def m_bt_insert(I, st, fr, callee, args, dty, dest, ret_bb):
    m = deref(I, st, args[0]); k = mat(I, st, args[1]); v = mat(I, st, args[2])
    m.d['items'] = m.d['items'] + [(list(k.d['data']), v)]; return mk_none()     # distinct keys are a harness precondition
def lex_lt(a, b):
    n = min(len(a), len(b)); res = z3.BoolVal(len(a) < len(b))
    for i in reversed(range(n)):
        res = z3.If(a[i] == b[i], res, z3.ULT(a[i], b[i]))
    return res
def m_bt_into_iter(I, st, fr, callee, args, dty, dest, ret_bb):
    m = mat(I, st, args[0]); items = m.d['items']; out = []
    for perm in itertools.permutations(range(len(items))):
        cond = z3.And([lex_lt(items[x][0], items[y][0]) for x, y in zip(perm, perm[1:])] + [z3.BoolVal(True)])
        if not I.feasible(st, extra=cond): continue
        s2 = st.clone(); s2.pc.append(cond)
        I.finish_call(s2, dest, ret_bb, Obj('btiter', seq=[items[p] for p in perm], pos=0)); out.append(s2)
    return States(out)
def m_bt_next(I, st, fr, callee, args, dty, dest, ret_bb):
    it = deref(I, st, args[0])
    if it.d['pos'] >= len(it.d['seq']): return mk_none()
    k, v = it.d['seq'][it.d['pos']]; it.d['pos'] += 1
    return mk_some(Adt('tuple', None, {(None, 0): Obj('bytes', data=k), (None, 1): v}))
def m_vec_push(I, st, fr, callee, args, dty, dest, ret_bb):
    v = deref(I, st, args[0]); v.d['items'] = v.d['items'] + [st.alloc(mat(I, st, args[1]))]; return unit()
def m_vec_pop(I, st, fr, callee, args, dty, dest, ret_bb):
    v = deref(I, st, args[0]); items = v.d['items']
    if not items: return mk_none()
    v.d['items'] = items[:-1]; return mk_some(st.heap[items[-1]])
def m_default(I, st, fr, callee, args, dty, dest, ret_bb):
    if 'BTreeMap' in callee: return Obj('btree', items=[])
    if 'Vec<u8>' in callee: return Obj('bytes', data=[])
    if '<bool' in callee: return z3.BoolVal(False)
    if 'Vec<Object>' in callee: return Obj('vecobj', items=[])
    raise Stuck('default ' + callee)
def m_extend_from_slice(I, st, fr, callee, args, dty, dest, ret_bb):
    v = deref(I, st, args[0]); v.d['data'] = v.d['data'] + bytes_of(I, st, args[1]); return unit()
def m_vecu8_push(I, st, fr, callee, args, dty, dest, ret_bb):
    v = deref(I, st, args[0]); v.d['data'] = v.d['data'] + [I.as_z3(st, args[1])]; return unit()
def m_last(I, st, fr, callee, args, dty, dest, ret_bb):
    v = deref(I, st, args[0]); items = v.d['items']
    return mk_some(Ref(items[-1])) if items else mk_none()
def m_io_error_new(I, st, fr, callee, args, dty, dest, ret_bb):
    k = mat(I, st, args[0]); return Obj('ioerror', ek=k.discr if isinstance(k, Adt) else None, why='Error::new')
def m_chars_any(I, st, fr, callee, args, dty, dest, ret_bb):
    """str::chars().any(|c| c == '.' || c == 'e' || c == 'E') on a concrete digit string of the harness"""
    it = deref(I, st, args[0]); s = it.d.get('s')
    return z3.BoolVal(any(c in '.eE' for c in s))
def m_chars(I, st, fr, callee, args, dty, dest, ret_bb):
    v = deref(I, st, args[0]); return Obj('charsit', s=v.d.get('s'))

def _strip(I, st, args, front):
    data = bytes_of(I, st, args[0]); pat = bytes_of(I, st, args[1])
    if len(data) < len(pat): return mk_none()
    part = data[:len(pat)] if front else data[len(data) - len(pat):]
    cond = z3.simplify(z3.And([a == b for a, b in zip(part, pat)] + [z3.BoolVal(True)]))
    rest = data[len(pat):] if front else data[:len(data) - len(pat)]
    some = Ref(st.alloc(Obj('bytes', data=rest)))
    if z3.is_true(cond): return mk_some(some)
    if z3.is_false(cond): return mk_none()
    return Adt('Option<&[u8]>', z3.If(cond, z3.BitVecVal(1, 64), z3.BitVecVal(0, 64)), {('Some', 0): some})
def m_strip_prefix(I, st, fr, callee, args, dty, dest, ret_bb): return _strip(I, st, args, True)
def m_strip_suffix(I, st, fr, callee, args, dty, dest, ret_bb): return _strip(I, st, args, False)
def m_opt_and_then(I, st, fr, callee, args, dty, dest, ret_bb):
    o = mat(I, st, args[0])
    if not isinstance(o.discr, int): raise Stuck('and_then on a symbolic Option')
    if o.discr == 0: return mk_none()
    fn = I.resolve_closure(args[1].ty if isinstance(args[1], Adt) else '')
    I.push_call(st, fn, [args[1], o.fields[('Some', 0)]], dest, ret_bb); return PUSHED
def m_opt_unwrap_or_ref(I, st, fr, callee, args, dty, dest, ret_bb):
    o = mat(I, st, args[0])
    if not isinstance(o.discr, int): raise Stuck('unwrap_or on a symbolic Option')
    return o.fields[('Some', 0)] if o.discr == 1 else args[1]
def m_with_capacity(I, st, fr, callee, args, dty, dest, ret_bb): return Obj('bytes', data=[])
def m_bytes_iter(I, st, fr, callee, args, dty, dest, ret_bb): return Obj('biter', data=bytes_of(I, st, args[0]), pos=0)
def m_bytes_iter_next(I, st, fr, callee, args, dty, dest, ret_bb):
    it = deref(I, st, args[0])
    if it.d['pos'] >= len(it.d['data']): return mk_none()
    b = it.d['data'][it.d['pos']]; it.d['pos'] += 1
    return mk_some(Ref(st.alloc(b)))
def m_extend_opt(I, st, fr, callee, args, dty, dest, ret_bb):
    v = deref(I, st, args[0]); o = mat(I, st, args[1])
    if not isinstance(o.discr, int): raise Stuck('extend with a symbolic Option')
    if o.discr == 1: v.d['data'] = v.d['data'] + [I.as_z3(st, deref(I, st, o.fields[('Some', 0)]))]
    return unit()

C11_MODELS = [
    (R(r'^core::slice::<impl \[u8\]>::strip_prefix::<'), m_strip_prefix), (R(r'^core::slice::<impl \[u8\]>::strip_suffix::<'), m_strip_suffix),
    (R(r'^std::option::Option::<&\[u8\]>::and_then::<'), m_opt_and_then), (R(r'^std::option::Option::<&\[u8\]>::unwrap_or$'), m_opt_unwrap_or_ref),
    (R(r'^Vec::<u8>::with_capacity$'), m_with_capacity), (R(r'^core::slice::<impl \[u8\]>::iter$'), m_bytes_iter),
    (R(r'^<std::slice::Iter<.*u8> as Iterator>::next$'), m_bytes_iter_next), (R(r'^<Vec<u8> as Extend<&u8>>::extend::<std::option::Option<&u8>>$'), m_extend_opt),
    (R(r'^Box::<.*>::new$'), m_box_new), (R(r' as DerefMut>::deref_mut$'), m_deref_mut), (R(r'::last_mut$'), m_last_mut), (R(r'\]>::last$'), m_last),
    (R(r'Option::<.*>::map_or::<'), m_map_or), (R(r'Option::<.*>::ok_or_else::<'), m_ok_or_else),
    (R(r'^<CompactFormatter as serde_json::ser::Formatter>::'), m_compact), (R(r'as std::io::Write>::write_all$'), m_write_all),
    (R(r'UnicodeNormalization<.*>>::nfc$'), m_nfc), (R(r'Iterator>::try_for_each::<'), m_try_for_each),
    (R(r'::encode_utf8$'), m_encode_utf8), (R(r'^core::str::<impl str>::as_bytes$'), m_identity), (R(r'^std::mem::take::<'), m_take),
    (R(r'^BTreeMap::<.*>::insert$'), m_bt_insert), (R(r'BTreeMap<.*> as IntoIterator>::into_iter$'), m_bt_into_iter),
    (R(r'btree_map::IntoIter<.*> as Iterator>::next$'), m_bt_next), (R(r'^Vec::<Object>::push$'), m_vec_push), (R(r'^Vec::<Object>::pop$'), m_vec_pop),
    (R(r'^<(BTreeMap<.*>|Vec<u8>|bool|Vec<Object>) as Default>::default$'), m_default), (R(r'^<Vec<u8> as Deref>::deref$'), m_identity),
    (R(r'^<Vec<Object> as Deref(Mut)?>::deref(_mut)?$'), m_identity),
    (R(r'^Vec::<u8>::extend_from_slice$'), m_extend_from_slice), (R(r'^Vec::<u8>::push$'), m_vecu8_push),
    (R(r'^std::io::Error::new::<'), m_io_error_new), (R(r'^core::str::<impl str>::chars$'), m_chars), (R(r'^<Chars<.*> as Iterator>::any::<'), m_chars_any),
]

CE = None
def fmt_fn(I, name):
    for k in I.funcs:
        if k.endswith('>::' + name) and 'olpc-cjson/src/lib.rs' in k:
            f = I.funcs[k][0]
            if 'CanonicalFormatter' in f.args.split(',')[0]: return f
    raise Stuck('formatter method ' + name)

PLAIN, QUOTE, BSL, CTRL = 0, 1, 2, 3
CLASS_PC = {PLAIN: lambda c: z3.And(z3.UGE(c, 0x20), z3.ULT(c, 0x7f), c != 0x22, c != 0x5c), QUOTE: lambda c: c == 0x22, BSL: lambda c: c == 0x5c,
            CTRL: lambda c: z3.And(z3.ULT(c, 0x20), c != 8, c != 9, c != 10, c != 12, c != 13)}

def string_script(st, chars, classes, escapes):
    """serde_json's protocol for one string: fragments of plain bytes, write_char_escape for the rest"""
    sc = [('begin_string', [])]; frag = []
    for c, cl in zip(chars, classes):
        if cl == PLAIN: frag.append(c)
        else:
            if frag: sc.append(('write_string_fragment', [Ref(st.alloc(Obj('bytes', data=frag)))])); frag = []
            if cl == CTRL: sc.append(('write_char_escape', [Adt('CharEscape', escapes.index('AsciiControl'), {('AsciiControl', 0): c})]))
            else: sc.append(('write_char_escape', [Adt('CharEscape', escapes.index('Quote' if cl == QUOTE else 'ReverseSolidus'), {})]))
    if frag: sc.append(('write_string_fragment', [Ref(st.alloc(Obj('bytes', data=frag)))]))
    sc.append(('end_string', []))
    return sc

def esc(chars, classes):
    out = []
    for c, cl in zip(chars, classes): out += ([B(0x5c), c] if cl in (QUOTE, BSL) else [c])
    return out

def drive(I, st, script):
    w = st.alloc(Obj('bytes', data=[]))
    fmt = st.alloc(Adt('CanonicalFormatter', None, {(None, 0): Obj('vecobj', items=[])}))
    def driver(I_, s, fr):
        d = fr.data
        if 'ret' in d:
            r = d.pop('ret')
            if not (isinstance(r, Adt) and r.discr == 0): I_.do_return(s, Obj('fmt_error', at=d['i'] - 1, err=r)); return [s]
        if d['i'] >= len(script): I_.do_return(s, Obj('done')); return [s]
        name, extra = script[d['i']]; d['i'] += 1
        I_.push_call(s, fmt_fn(I_, name), [Ref(fmt), Ref(w)] + extra, None, None); return [s]
    st.frames.append(ModelFrame(driver, {'i': 0}))
    done = []; I.run(st, done.append)
    return w, done

def same(x, y):
    if isinstance(x, tuple) or isinstance(y, tuple):
        return z3.BoolVal(isinstance(x, tuple) and isinstance(y, tuple) and x[0] == y[0] and (x[0] != 'dec' or z3.eq(z3.simplify(x[1]), z3.simplify(y[1]))))
    return x == y
def eq_bytes(out, ref):
    return z3.And([same(x, y) for x, y in zip(out, ref)]) if len(out) == len(ref) else z3.BoolVal(False)

def run_object(R, I, lens, classes, escapes, order, nested=False):
    """object with len(lens) members; member i has a key of lens[i] symbolic bytes with the given classes; value = i+1 (u8),
    or for the last member a nested object {"z": 0} when nested; members are inserted in `order`"""
    st = State(); st.env['fs'] = {}
    keys = []; ci = 0; kcls = []
    for i, L in enumerate(lens):
        k = [z3.BitVec(f'k{i}c{j}', 8) for j in range(L)]; keys.append(k); kcls.append(classes[ci:ci + L])
        for c, cl in zip(k, kcls[-1]): st.pc.append(CLASS_PC[cl](c))
        ci += L
    for i in range(len(keys)):
        for j in range(i + 1, len(keys)):
            if lens[i] == lens[j]: st.pc.append(z3.Or([a != b for a, b in zip(keys[i], keys[j])]))
    script = [('begin_object', [])]
    for n, i in enumerate(order):
        script.append(('begin_object_key', [z3.BoolVal(n == 0)])); script += string_script(st, keys[i], kcls[i], escapes)
        script += [('end_object_key', []), ('begin_object_value', [])]
        if nested and i == len(lens) - 1:
            script += [('begin_object', []), ('begin_object_key', [z3.BoolVal(True)])] + string_script(st, lit('z'), [PLAIN], escapes) + \
                      [('end_object_key', []), ('begin_object_value', []), ('write_u8', [B(0)]), ('end_object_value', []), ('end_object', [])]
        else:
            script.append(('write_u8', [B(i + 1)]))
        script.append(('end_object_value', []))
    script.append(('end_object', []))
    w, done = drive(I, st, script)
    def val(i):
        return (lit('{"z":') + [('dec', B(0))] + lit('}')) if nested and i == len(lens) - 1 else [('dec', B(i + 1))]
    label = f'object[keys {lens}, classes {classes}, order {order}{", nested" if nested else ""}]'
    for s in done:
        R.paths += 1
        if not (isinstance(s.result, Obj) and s.result.kind == 'done'):
            R.obligation(f'{label}: the formatter does not fail on a float-free value', s.pc, z3.BoolVal(False), group='no-spurious-error'); continue
        out = s.heap[w].d['data']
        # reference: members ordered by RAW key bytes; per sorted order (a permutation) one implication
        for perm in itertools.permutations(range(len(lens))):
            cond = z3.And([lex_lt(keys[a], keys[b]) for a, b in zip(perm, perm[1:])] + [z3.BoolVal(True)])
            ref = lit('{')
            for n, i in enumerate(perm):
                ref += (lit(',') if n else []) + lit('"') + esc(keys[i], kcls[i]) + lit('":') + val(i)
            ref += lit('}')
            def dec(m, keys=keys, out=out, order=order):
                ks = [bytes(m.eval(c, model_completion=True).as_long() for c in k) for k in keys]
                return {'kind': 'canon', 'keys': [k.decode('latin1') for k in ks], 'order': list(order), 'nested': nested}
            R.obligation(f'{label}: output equals the reference canonical form', list(s.pc) + [cond], eq_bytes(out, ref), decode=dec, group='object/equals-reference')
            # vacuity witness (once per harness shape): the members can arrive in an order that differs from the sorted one
            if perm != tuple(order) and not getattr(R, '_c11_reorder_seen', False):
                ok, _ = R.reach(f'{label}: members arrive unsorted (the formatter has to re-order them)', list(s.pc) + [cond])
                R._c11_reorder_seen = ok
    return len(done)

def run_string(R, I, L, classes, escapes):
    st = State(); st.env['fs'] = {}
    chars = [z3.BitVec(f's{j}', 8) for j in range(L)]
    for c, cl in zip(chars, classes): st.pc.append(CLASS_PC[cl](c))
    w, done = drive(I, st, string_script(st, chars, classes, escapes))
    for s in done:
        R.paths += 1
        ok = isinstance(s.result, Obj) and s.result.kind == 'done'
        out = s.heap[w].d['data']
        R.obligation(f'string[{classes}]: "..." with only quote and backslash escaped, every other byte verbatim', s.pc,
                     z3.And(z3.BoolVal(ok), eq_bytes(out, lit('"') + esc(chars, classes) + lit('"'))),
                     decode=lambda m: {'kind': 'canon_string', 'bytes': [m.eval(c, model_completion=True).as_long() for c in chars]}, group='string/escaping')

def run_misc(R, I, escapes):
    # arrays, null/bool/ints, and floats are refused
    for name, script, expect in (
        ('array [1,2]', [('begin_array', []), ('begin_array_value', [z3.BoolVal(True)]), ('write_u8', [B(1)]), ('end_array_value', []),
                         ('begin_array_value', [z3.BoolVal(False)]), ('write_u8', [B(2)]), ('end_array_value', []), ('end_array', [])], lit('[') + [('dec', B(1))] + lit(',') + [('dec', B(2))] + lit(']')),
        ('null', [('write_null', [])], lit('null')),
        ('true', [('write_bool', [z3.BoolVal(True)])], lit('true')),
        ('empty object', [('begin_object', []), ('end_object', [])], lit('{}')),
        ('empty array', [('begin_array', []), ('end_array', [])], lit('[]'))):
        st = State(); st.env['fs'] = {}
        w, done = drive(I, st, script)
        for s in done:
            R.paths += 1
            ok = isinstance(s.result, Obj) and s.result.kind == 'done'
            R.obligation(f'{name}: compact form without whitespace', s.pc, z3.And(z3.BoolVal(ok), eq_bytes(s.heap[w].d['data'], expect)), group='misc/compact')
    for name, script in (('f32', [('write_f32', [Obj('f32')])]), ('f64', [('write_f64', [Obj('f64')])]),
                         ('number string 1.5', [('write_number_str', [Ref(0)])]), ('number string 1e3', [('write_number_str', [Ref(0)])])):
        st = State(); st.env['fs'] = {}
        if 'number string' in name:
            cell = st.alloc(Obj('str', s=name.split()[-1])); script = [('write_number_str', [Ref(cell)])]
        w, done = drive(I, st, script)
        for s in done:
            R.paths += 1
            R.obligation(f'{name}: floating point is refused and nothing is written', s.pc,
                         z3.BoolVal(isinstance(s.result, Obj) and s.result.kind == 'fmt_error' and not s.heap[w].d['data']), group='misc/float-refused')
    st = State(); st.env['fs'] = {}
    cell = st.alloc(Obj('str', s='340282366920938463463374607431768211455'))
    w, done = drive(I, st, [('write_number_str', [Ref(cell)])])
    for s in done:
        R.paths += 1
        out = s.heap[w].d['data']
        R.obligation('integer number string passes through unchanged', s.pc, z3.BoolVal(isinstance(s.result, Obj) and s.result.kind == 'done' and len(out) == 1 and out[0][0] == 'numstr'), group='misc/int-str')

def check(R, tier):
    I = R.interp('olpc-cjson'); models.install(I)
    I.models[:0] = C11_MODELS
    escapes = I.enums['CharEscape']
    maxlen = 2
    R.bounds.update({'object members': '2 (quick) / 3 (thorough)', 'key length': f'1..{maxlen} bytes', 'byte classes': 'printable ASCII, quote, backslash, other control characters',
                     'nesting': 'one nested object as a value', 'non-ASCII': 'not symbolic: NFC model = identity on ASCII; NFC itself is validated natively on a fixed corpus'})
    R.assumptions += ["serde_json drives a Formatter as documented (begin_object / begin_object_key(first) / begin_string / write_string_fragment | write_char_escape / ...)",
                      'CompactFormatter methods write their fixed bytes; integers are written in shortest decimal form by serde_json (itoa)',
                      'BTreeMap<Vec<u8>, _> iterates in lexicographic byte order of its keys', 'str::nfc is the identity on ASCII']
    classes2 = (PLAIN, QUOTE, BSL)
    n = 0
    for lens in ((1, 1), (1, 2), (2, 1), (2, 2)):
        for classes in itertools.product(classes2, repeat=sum(lens)):
            for order in ((0, 1), (1, 0)) if (tier == 'thorough' or lens != (2, 2)) else ((0, 1),):
                n += run_object(R, I, lens, classes, escapes, order)
    R.check_interp_clean(I, 'two-member objects')
    run_object(R, I, (1, 1), (PLAIN, PLAIN), escapes, (1, 0), nested=True)
    run_object(R, I, (1, 2), (PLAIN, PLAIN, QUOTE), escapes, (0, 1), nested=True)
    if tier == 'thorough':
        for lens in ((1, 1, 1), (1, 2, 1), (2, 1, 2)):
            for classes in itertools.product((PLAIN, QUOTE), repeat=sum(lens)):
                for order in itertools.permutations(range(3)):
                    run_object(R, I, lens, classes, escapes, order)
    R.check_interp_clean(I, 'objects')
    for L in (1, 2, 3):
        for classes in itertools.product((PLAIN, QUOTE, BSL, CTRL), repeat=L):
            run_string(R, I, L, classes, escapes)
    run_misc(R, I, escapes)
    R.check_interp_clean(I, 'strings / misc')
    R.samples.append({'object runs': n})
    native_validation(R, tier)
    finalize(R)

# ---------------------------------------------------------------- native side
def canon_native(R, values):
    """run the real formatter on JSON texts (member order as written)"""
    def enc(v):
        if isinstance(v, dict): return {'$obj': [[k, enc(x)] for k, x in v.items()]}
        if isinstance(v, list): return [enc(x) for x in v]
        if isinstance(v, float): return {'$f64': v}
        return v
    res = R.replay('canon', {'values': [enc(v) for v in values]})
    return [bytes.fromhex(o['hex']) if 'hex' in o else None for o in res['outputs']], res['outputs']

ALPHABET = ['a', 'b', '!', '"', '\\', ' ', 'é', 'é']      # includes an NFC pair (é precomposed / decomposed)
def native_validation(R, tier):
    """model validation + the non-ASCII half of the property: all key sets of size <= 3 over an 8-symbol alphabet (prefixes,
    escapes, NFC-equivalent spellings are kept distinct after normalisation), every insertion order; plus an NFC corpus."""
    vals = []
    syms = ALPHABET + ['a' + 'b', 'a!', 'a"', 'a\\', 'a ']
    for r in (1, 2, 3):
        for ks in itertools.combinations(syms, r):
            if len({unicodedata.normalize('NFC', k) for k in ks}) < len(ks): continue
            for order in itertools.permutations(ks) if r < 3 or tier == 'thorough' else [ks, ks[::-1]]:
                vals.append({k: i for i, k in enumerate(order)})
    corpus = ['é', 'é', 'Å', 'Å', 'ö', '가', '가', 'q̣̇', 'q̣̇', '\u0001\u001f', 'tab\there', 'nl\nx', '/',
              ' ', '\U0001f600', 'fiﬁ']
    vals += corpus + [{c: c} for c in corpus] + [[c, {c: [c]}] for c in corpus[:6]]
    # member order is by code point (= UTF-8 byte order), not by UTF-16 code unit: the two differ exactly between U+E000..U+FFFF and the astral planes
    for a_, b_ in (('\uffff', '\U00010000'), ('\ue000', '\U0001f600'), ('\uff5e', '\U00020000'), ('a\uffff', 'a\U00010000'), ('\ud7ff', '\ue000')):
        vals += [{a_: 0, b_: 1}, {b_: 0, a_: 1}, {'z': [{b_: {a_: 1, b_: 2}}], a_: 0}]
    vals += [0, -1, 18446744073709551615, -9223372036854775808, [1, [2, [3, [4]]]], {'a': {'b': {'c': {'d': None}}}}, True, None, '', {}, []]
    outs, raw = canon_native(R, vals)
    bad = 0
    for v, o, r in zip(vals, outs, raw):
        R.differential['scenarios'] += 1
        exp = ref_canon(v)
        if o == exp: R.differential['agree'] += 1; continue
        bad += 1
        if bad <= 3:
            R.native_deviation = getattr(R, 'native_deviation', []) + [{'value': v, 'expected': exp.decode('utf-8', 'replace'), 'got': (o.decode('utf-8', 'replace') if o is not None else str(r))}]
    fo, fl = canon_native(R, [1.5, [1000.0], {'a': 0.0}])
    for o in fl:
        R.differential['scenarios'] += 1
        if 'error' in o: R.differential['agree'] += 1
        else: R.native_deviation = getattr(R, 'native_deviation', []) + [{'value': 'float', 'expected': 'refused', 'got': str(o)}]

def finalize(R):
    reported = set()
    for cx in R.counterexamples:
        sc = cx.get('scenario')
        if sc and sc.get('kind') == 'canon':
            ks = sc['keys']; order = sc['order']
            v = {}
            for i in order: v[ks[i]] = ({'z': 0} if sc['nested'] and i == len(ks) - 1 else i + 1)
            outs, raw = canon_native(R, [v])
            exp = ref_canon(v)
            if outs[0] != exp:
                kind = 'object-member-order' if outs[0] is not None and sorted(outs[0]) == sorted(exp) else 'object-output'
                if kind not in reported:
                    reported.add(kind)
                    R.report_violation(f'canonical form of {json.dumps(v)} is {exp.decode("latin1")!r} but the formatter produced {(outs[0] or b"<error>").decode("latin1")!r}', {'value': v},
                                       finding_key=('members-ordered-by-escaped-key' if kind == 'object-member-order' else None))
            else:
                R.inconclusive.append(f'counterexample for "{cx["obligation"]}" did not reproduce natively: {sc}')
        elif sc and sc.get('kind') == 'canon_string':
            s = bytes(sc['bytes']).decode('latin1')
            outs, raw = canon_native(R, [s]); exp = ref_canon(s)
            if outs[0] != exp:
                if 'string' not in reported:
                    reported.add('string'); R.report_violation(f'canonical form of the string {s!r} is {exp!r} but the formatter produced {outs[0]!r}', {'value': s})
            else: R.inconclusive.append(f'counterexample for "{cx["obligation"]}" did not reproduce natively: {sc}')
        else:
            R.inconclusive.append(f'counterexample for "{cx["obligation"]}" has no replayable scenario: {str(cx.get("model"))[:200]}')
    for d in getattr(R, 'native_deviation', [])[:3]:
        key = 'members-ordered-by-escaped-key' if isinstance(d['value'], dict) and sorted(d['expected']) == sorted(d['got']) and all(ord(c) < 128 for k in d['value'] for c in k) else None
        if (key or 'native') in reported and key: continue
        reported.add(key or 'native')
        R.report_violation(f"canonical form of {json.dumps(d['value'], ensure_ascii=True)} should be {d['expected']!r}; the formatter produced {d['got']!r}", {'value': d['value']}, finding_key=key)

def replay_file(R, path):
    v = json.load(open(path))['scenario']['value']
    outs, raw = canon_native(R, [v]); print(json.dumps({'got': raw, 'expected': ref_canon(v).decode('utf-8', 'replace')})); return 0
