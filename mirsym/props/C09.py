"""C09 — work and data taken from an untrusted repository are bounded; legitimate files are not refused for size."""
import z3, json, re
from client import *
import deleg

TITLE = 'every metadata fetch is bounded by its own applicable bound; root fetches by max_root_updates; delegation traversal terminates'

def total_served(p):
    t = BV64(0)
    for e in p.events:
        if e[0] == 'chunk_len': t = t + e[1]
    return t

def no_wrap(p):
    """the property is about byte counts; a sum of chunk lengths that wraps u64 is outside it (2^64 bytes cannot be served)"""
    cs = []; t = BV64(0)
    for e in p.events:
        if e[0] == 'chunk_len':
            cs.append(z3.BVAddNoOverflow(t, e[1], False)); t = t + e[1]
    return cs

def bound_obligations(R, label, paths, bound_of, dec=None):
    for p in paths:
        if p.cls == 'panic': continue
        R.paths += 1
        b = bound_of(p)
        R.obligation(f'{label}: bytes accepted from the stream never exceed the applicable bound', list(p.pc) + no_wrap(p), z3.ULE(p.accepted_total(), b), decode=dec, group=label + '/accepted<=bound')
        if 'MaxSizeExceeded' in p.cls:
            R.obligation(f'{label}: refused for size only if more than the applicable bound was served', list(p.pc) + no_wrap(p), z3.UGT(total_served(p), b), decode=dec, group=label + '/refusal-justified')
        if any(e[0] == 'endless_read' for e in p.events):
            R.obligation(f'{label}: an endless stream is never read to its (non-existent) end', p.pc, z3.BoolVal(False), decode=dec, group=label + '/endless')
    R.reach_any(f'{label}: MaxSizeExceeded reachable', [p.pc for p in paths if 'MaxSizeExceeded' in p.cls])
    R.reach_any(f'{label}: success with a file exactly as large as its bound', [list(p.pc) for p in paths if p.ok and p.ev('chunk_len')],
                None)

def check(R, tier):
    R.fallback_kinds = {'meta'}
    I = R.interp('tough'); install_world(I)
    nch = 2
    R.bounds.update({'chunks per file': f'0..{nch} plus an optional endless tail', 'limits / lengths': 'any u64 (including 0)', 'root hops': 2,
                     'delegation shapes': 'flat, nested, self-delegating, mutually delegating; unwinding depth %d' % deleg.UNWIND})
    R.assumptions += ['chunk lengths whose sum wraps u64 are outside the claim', 'parse oracle; V / VD = C01 oracles; clock disabled (C04)']
    def prep(P):
        P['lkt_present'] = z3.BoolVal(False); P['safe'] = z3.BoolVal(False); P['join_fails'] = z3.BoolVal(False); return P
    # ---- timestamp: configured limit
    P = prep(ts_params(nch)); paths = summarize_load_timestamp(I, P); R.check_interp_clean(I, 'load_timestamp')
    bound_obligations(R, 'load_timestamp', paths, lambda p: P.maxsz)
    # ---- snapshot / targets: pinned length if any, else the configured limit
    P = prep(sn_params(nch)); paths = summarize_load_snapshot(I, P); R.check_interp_clean(I, 'load_snapshot')
    bound_obligations(R, 'load_snapshot', paths, lambda p: z3.If(MHasLen(P.ts, IDV(0)), MLen(P.ts, IDV(0)), P.maxsz))
    Pt = prep(tg_params(nch)); tpaths = summarize_load_targets(I, Pt); R.check_interp_clean(I, 'load_targets')
    bound_obligations(R, 'load_targets', tpaths, lambda p: z3.If(MHasLen(Pt.sn, IDV(1)), MLen(Pt.sn, IDV(1)), Pt.maxsz))
    # the bound handed down to the delegation traversal is the CONFIGURED limit, not another file's pinned length
    for p in tpaths:
        for e in p.ev('load_delegations'):
            fn = find_fn(I, 'load_delegations'); args = e[1]
            pos = {n: int(re.match(r'^_(\d+)$', pl.strip()).group(1)) for n, pl in fn.debug.items() if re.match(r'^_(\d+)$', pl.strip())}
            a = args[pos['max_targets_size'] - 1]
            R.obligation('load_targets: delegated roles are bounded by the configured max_targets_size, not by the length pinned for targets.json', p.pc,
                         I.as_z3(p.state, a) == Pt.maxsz, decode=lambda m: {'kind': 'deleg_bound_param', 'pinned': True}, group='delegated/bound-param')
    # ---- root files: configured limit and update budget
    Pr = prep(root_params(2, nch)); rpaths = summarize_load_root(I, Pr); R.check_interp_clean(I, 'load_root')
    for p in rpaths:
        if p.cls == 'panic': continue
        R.paths += 1
        # per fetched root file
        lens = []; cur = None
        for e in p.events:
            if e[0] == 'fetch': lens.append(BV64(0))
            if e[0] == 'accepted_bytes' and lens: lens[-1] = lens[-1] + e[1]
        for k, t in enumerate(lens):
            R.obligation(f'load_root: bytes accepted for root file {k} never exceed max_root_size', list(p.pc) + no_wrap(p), z3.ULE(t, Pr.maxsz), group='load_root/accepted<=bound')
            R.obligation(f'load_root: root file {k} requested only within the update budget', p.pc, z3.ULT(BV64(k), Pr.max_updates), group='load_root/update-budget')
        if p.ok:
            R.obligation('load_root: version + max_root_updates did not overflow on an accepted path', p.pc, z3.BVAddNoOverflow(Ver(Pr.shipped), Pr.max_updates, False), group='load_root/no-overflow')
    R.reach_any('load_root: MaxUpdatesExceeded reachable', [p.pc for p in rpaths if 'MaxUpdatesExceeded' in p.cls])
    # ---- delegated roles: own pinned length or the configured limit; traversal bounded by the number of distinct roles
    shapes = [{'a': None}, {'a': None, 'b': None}, {'a': {'c': None}}, {'a': 'self'}, {'a': {'b': {'a': 'self'}}}]
    for shape in shapes:
        T = deleg.Tree(shape); P = deleg.dparams(T)
        paths = deleg.summarize_load_delegations(I, T, P); R.check_interp_clean(I, f'load_delegations{shape}')
        label = 'load_delegations' + str(shape).replace("'", '')
        for p in paths:
            if p.cls == 'panic': continue
            R.paths += 1
            fetches = p.ev('fetch')
            per = [];
            for e in p.events:
                if e[0] == 'fetch':
                    n = re.search(r'enc\(([^)]*)\)', ''.join(e[1][1])).group(1); per.append([n, BV64(0), BV64(0)])
                if e[0] == 'accepted_bytes' and per: per[-1][1] = per[-1][1] + e[1]
                if e[0] == 'chunk_len' and per: per[-1][2] = per[-1][2] + e[1]
            for k, (n, acc, served) in enumerate(per):
                sl = IDV(T.slot[n + '.json'])
                own = z3.If(MHasLen(P.sn, sl), MLen(P.sn, sl), P.maxsz)
                R.obligation(f'{label}: bytes accepted for delegated role {n} never exceed its own pinned length (or the configured limit)', list(p.pc) + no_wrap(p),
                             z3.ULE(acc, own), decode=lambda m: {'kind': 'deleg_own_bound'}, group='delegated/accepted<=own-bound')
                if 'MaxSizeExceeded' in p.cls and k == len(per) - 1:
                    R.obligation(f'{label}: delegated role {n} refused for size only if larger than its own bound', list(p.pc) + no_wrap(p), z3.UGT(served, own),
                                 decode=lambda m: {'kind': 'deleg_own_bound'}, group='delegated/refusal-justified')
            R.obligation(f'{label}: number of role files requested <= number of distinct delegated roles', p.pc, z3.BoolVal(len(fetches) <= len(T.names) and not p.ev('unwind_exceeded')),
                         decode=lambda m, shape=shape: {'kind': 'deleg_cycle', 'shape': str(shape)}, group='delegated/terminates')
        R.samples.append({'delegation shape': str(shape), 'paths': len(paths)})
    finalize(R)

# ---------------------------------------------------------------- native replay
def repo(delegations, sn_meta=None, limits=None, max_requests=60):
    sc = {'nkeys': 6, 'roots': [{'version': 1, 'consistent': False, 'table': [0, 1, 2, 3], 'signers': [0],
                                 'roles': {'root': {'keys': [0], 'thr': 1}, 'timestamp': {'keys': [1], 'thr': 1}, 'snapshot': {'keys': [2], 'thr': 1}, 'targets': {'keys': [3], 'thr': 1}}}]}
    c = {'shipped': 0, 'serve_roots': {}, 'safe': False, 'timestamp': {'version': 1, 'signers': [1]}, 'snapshot': {'version': 1, 'signers': [2]},
         'targets': {'version': 1, 'signers': [3], 'delegations': delegations}, 'ts_meta': {'pin_len': True, 'pin_hash': True},
         'sn_meta': sn_meta or {'pin_len': True, 'pin_hash': True}, 'max_requests': max_requests}
    if limits: c['limits'] = limits
    sc['cycles'] = [c]
    return sc

def finalize(R):
    groups = {}
    for cx in R.counterexamples: groups.setdefault(cx['group'], cx)
    # native differential validation of the size-bound models (always), which also reproduces size counterexamples
    swept = {fn: size_recipes(R, fn, 'sweep') for fn in ('load_timestamp', 'load_snapshot', 'load_targets')}
    for g in list(groups):
        if g.split('/')[0] in swept and g.split('/')[1] in ('accepted<=bound', 'refusal-justified', 'endless'):
            cx = groups.pop(g)
            if not swept[g.split('/')[0]]:
                R.inconclusive.append(f'counterexample for "{cx["obligation"]}" ({g}) did not reproduce with the native size recipes: {str(cx.get("model"))[:200]}')
    # the root-update budget, natively (always): with max_root_updates = k and more newer roots on offer, at most k root files may be requested
    budget_dev = False
    for k in (1, 2):
        sc = repo(None, limits={'max_root_updates': k})
        base_root = sc['roots'][0]
        sc['roots'] += [dict(base_root, version=v) for v in (2, 3, 4, 5)]
        sc['cycles'][0]['serve_roots'] = {str(v): v - 1 for v in (2, 3, 4, 5)}
        real = R.replay('history', sc)['cycles'][0]
        nroot = len([x for x in real['requests'] if x[0].endswith('.root.json')])
        R.differential['scenarios'] += 1
        if nroot > k or real.get('ok'):
            budget_dev = True
            R.report_violation(f"max_root_updates = {k} with root versions 2..5 on offer: {nroot} root files were requested" + (' and the cycle succeeded' if real.get('ok') else f" (result: {real.get('err')})"), sc)
            break
        R.differential['agree'] += 1
    for g in [g for g in groups if g in ('load_root/update-budget', 'load_root/no-overflow')]:
        if budget_dev: groups.pop(g)
    for g, cx in groups.items():
        if g == 'delegated/bound-param' or g == 'delegated/refusal-justified':
            d = [{'name': 'd', 'keys': [4], 'thr': 1, 'table': [4], 'doc': {'version': 1, 'signers': [4], 'ntargets': 200}}]
            sc = repo(d, sn_meta={'pin_len': True, 'pin_hash': True, 'delegated': {'d': {'pin_len': True}}})
            real = R.replay('history', sc)['cycles'][0]
            if not real['ok'] and real.get('err') in ('Transport',) and 'max' in real.get('msg', '').lower() or (not real['ok'] and 'MaxSize' in real.get('msg', '')):
                R.report_violation(f"a correctly signed delegated role ({real['sizes'].get('d.json')} bytes, within its own pinned length and the default 10 MiB limit) is refused because it is larger than "
                                   f"targets.json ({real['sizes'].get('targets.json')} bytes): {real.get('msg', '')[:160]}", sc, finding_key='delegated-bounded-by-targets-json-length')
            else:
                R.inconclusive.append(f'counterexample for "{cx["obligation"]}" did not reproduce natively: {real.get("ok")} {real.get("err")} {real.get("msg", "")[:100]}')
        elif g == 'delegated/accepted<=own-bound':
            d = [{'name': 'd', 'keys': [4], 'thr': 1, 'table': [4], 'doc': {'version': 1, 'signers': [4], 'ntargets': 1}}]
            sc = repo(d, sn_meta={'pin_len': False, 'pin_hash': False, 'delegated': {'d': {'pin_len': True, 'len_delta': -10}}})
            real = R.replay('history', sc)['cycles'][0]
            if real['ok']:
                R.report_violation(f"delegated role file of {real['sizes'].get('d.json')} bytes accepted although the trusted snapshot pins its length 10 bytes lower", sc,
                                   finding_key='delegated-pinned-length-ignored')
            else:
                R.inconclusive.append(f'counterexample for "{cx["obligation"]}" did not reproduce natively: {real.get("err")} {real.get("msg", "")[:100]}')
        elif g == 'delegated/terminates':
            inner = [{'name': 'd', 'keys': [4], 'thr': 1, 'table': [4]}]
            d = [{'name': 'd', 'keys': [4], 'thr': 1, 'table': [4], 'doc': {'version': 1, 'signers': [4], 'delegations': inner}}]
            sc = repo(d, max_requests=60)
            real = R.replay('history', sc, timeout=120)['cycles'][0]
            nreq = len([x for x in real['requests'] if x[0] == 'd.json'])
            if nreq > 2:
                R.report_violation(f"a role that delegates to itself makes the client request d.json {nreq} times (stopped by the harness transport after 60 requests); result: {real.get('err')}", sc,
                                   finding_key='self-delegation-unbounded')
            else:
                # a ring of two roles: d delegates to e, e delegates back to d
                back = [{'name': 'd', 'keys': [4], 'thr': 1, 'table': [4]}]
                e = [{'name': 'e', 'keys': [4], 'thr': 1, 'table': [4], 'doc': {'version': 1, 'signers': [4], 'delegations': back}}]
                d2 = [{'name': 'd', 'keys': [4], 'thr': 1, 'table': [4], 'doc': {'version': 1, 'signers': [4], 'delegations': e}}]
                sc2 = repo(d2, max_requests=60)
                real2 = R.replay('history', sc2, timeout=120)['cycles'][0]
                n2 = len([x for x in real2['requests'] if x[0] in ('d.json', 'e.json')])
                if n2 > 3:
                    R.report_violation(f"two roles delegating to each other make the client request their files {n2} times (stopped by the harness transport after 60 requests); result: {real2.get('err')}", sc2)
                else:
                    R.inconclusive.append(f'counterexample for "{cx["obligation"]}" did not reproduce natively: {nreq} requests for d.json (self-delegation), {n2} for d.json / e.json (ring of two)')
        elif g.split('/')[0] in ('load_timestamp', 'load_snapshot', 'load_targets') and g.split('/')[1] in ('accepted<=bound', 'refusal-justified', 'endless'):
            hit = size_recipes(R, g.split('/')[0], g.split('/')[1])
            if not hit: R.inconclusive.append(f'counterexample for "{cx["obligation"]}" ({g}) did not reproduce with the native size recipes: {str(cx.get("model"))[:200]}')
        else:
            R.inconclusive.append(f'counterexample for "{cx["obligation"]}" ({g}) has no native replay recipe: {str(cx.get("model"))[:300]}')

def size_recipes(R, fn, kind):
    """native scenarios around the size bound of one top-level metadata file: pinned length (with and without a pinned digest),
    configured limit, exact size, one byte less, endless body"""
    fname = {'load_timestamp': 'timestamp.json', 'load_snapshot': 'snapshot.json', 'load_targets': 'targets.json'}[fn]
    limit_key = {'load_timestamp': 'max_timestamp_size', 'load_snapshot': 'max_snapshot_size', 'load_targets': 'max_targets_size'}[fn]
    meta_key = {'load_snapshot': 'ts_meta', 'load_targets': 'sn_meta'}.get(fn)
    cases = []
    def mk(meta=None, limits=None, endless=False):
        sc = repo(None, sn_meta={'pin_len': False, 'pin_hash': False}); c = sc['cycles'][0]; c['ts_meta'] = {'pin_len': False, 'pin_hash': False}
        if meta is not None and meta_key: c[meta_key] = meta
        if limits: c['limits'] = limits
        if endless: c['endless'] = [fname]
        return sc
    probe = R.replay('history', mk())['cycles'][0]
    size = probe['sizes'][fname]
    if meta_key:
        for pin_hash in (False, True):
            cases.append((f'{fname} is one byte longer than the length pinned for it (digest pinned: {pin_hash})', mk({'pin_len': True, 'pin_hash': pin_hash, 'len_delta': -1}), False))
            cases.append((f'{fname} is exactly as long as the length pinned for it (digest pinned: {pin_hash})', mk({'pin_len': True, 'pin_hash': pin_hash}), True))
        cases.append((f'endless {fname} with a pinned length and no pinned digest', mk({'pin_len': True, 'pin_hash': False}, endless=True), False))
    cases.append((f'{fname} ({size} bytes) with {limit_key} = {size - 1}', mk(limits={limit_key: size - 1}), False))
    cases.append((f'{fname} ({size} bytes) with {limit_key} = {size}', mk(limits={limit_key: size}), True))
    cases.append((f'endless {fname} with {limit_key} = {size + 10}', mk(limits={limit_key: size + 10}, endless=True), False))
    for desc, sc, want_ok in cases:
        real = R.replay('history', sc)['cycles'][0]
        R.differential['scenarios'] += 1
        pulled = real['pulled'].get(fname, 0)
        bound = None
        if real['ok'] != want_ok:
            R.report_violation(f'{desc}: expected {"acceptance" if want_ok else "refusal"}, observed ok={real["ok"]} ({real.get("err")}: {real.get("msg", "")[:120]}); {pulled} bytes pulled', sc)
            return True
        R.differential['agree'] += 1
    return False

def replay_file(R, path):
    sc = json.load(open(path))['scenario']; print(json.dumps(R.replay('history', sc))); return 0
