"""C15 — stored trust state survives crashes and I/O failures of the client."""
import z3, json
from histreplay import *
import props.C03 as C03

TITLE = 'a cycle cut short at any file-system call (death or ENOSPC/EIO) neither loses rollback protection nor locks out a valid newer repository'

def build(sums_clean, sums_fault, tag='x'):
    """cycle 1 clean, cycle 2 with fault/crash points at every datastore call, cycle 3 clean"""
    shipped = z3.BitVec('shipped', 8)
    pre = EMPTY_DS; cyc = []; f = []
    for k, S in enumerate((sums_clean, sums_fault, sums_clean), 1):
        c = Cycle(S, f'{tag}{k}', pre, shipped=shipped); f.append(c.formula); cyc.append(c); pre = c.post
    RT = variants('RoleType')
    for c in cyc:
        f += [RoleOf(c.served['ts']) == RT.index('Timestamp'), RoleOf(c.served['sn']) == RT.index('Snapshot'), RoleOf(c.served['tg']) == RT.index('Targets')]
        f += [RoleOf(h) == RT.index('Root') for h in c.hops]
    f.append(RoleOf(shipped) == RT.index('Root'))
    roots = [shipped] + [h for c in cyc for h in c.hops]
    for i in range(len(roots)):
        for j in range(i + 1, len(roots)):
            f.append(z3.Implies(Ver(roots[i]) == Ver(roots[j]), roots[i] == roots[j]))
    for x in range(3):
        for y in range(x + 1, 3):
            fx, fy = cyc[x].env['root']['hop_fetch_err'][0], cyc[y].env['root']['hop_fetch_err'][0]
            f.append(z3.Implies(z3.And(z3.Not(fx), z3.Not(fy)), cyc[x].hops[0] == cyc[y].hops[0]))
    return shipped, cyc, f

def valid_env(c, earlier, shipped):
    """cycle c is offered a complete, correctly signed repository (no newer root) whose versions are at least those of everything
    any earlier cycle was offered"""
    cs = [c.env['root']['shipped_parses'], V(shipped, shipped), c.env['root']['hop_fetch_err'][0], z3.UGE(c.env['root']['max_updates'], 1),
          z3.BVAddNoOverflow(Ver(shipped), c.env['root']['max_updates'], False)]
    for ch in c.chunks: cs += [ch[0], z3.Not(ch[1]), z3.ULE(ch[2], 1000)]
    for lim in c.limits: cs.append(z3.UGE(lim, 1000))
    for nm in ('ts', 'sn', 'tg'):
        d = c.served[nm]
        cs += [c.env[nm]['served_parses'], z3.Not(c.env[nm]['fetch_err']), V(shipped, d)]
        for e in earlier: cs.append(z3.UGE(Ver(d), Ver(e.served[nm])))
    ts, sn, tg = c.served['ts'], c.served['sn'], c.served['tg']
    cs += [MPresent(ts, IDV(0)), MVer(ts, IDV(0)) == Ver(sn), z3.Not(MHasLen(ts, IDV(0))), z3.Not(MHasHash(ts, IDV(0))),
           MPresent(sn, IDV(1)), MVer(sn, IDV(1)) == Ver(tg), z3.Not(MHasLen(sn, IDV(1))), z3.Not(MHasHash(sn, IDV(1)))]
    for e in earlier: cs.append(z3.UGE(MVer(sn, IDV(1)), MVer(e.served['sn'], IDV(1))))
    return cs

def check(R, tier):
    I = R.interp('tough'); install_world(I)
    R.bounds.update({'history': 'clean cycle, then a cycle with a fault or death possible at every datastore call, then a clean cycle', 'root hops per cycle': 1,
                     'faults': 'each open/write/rename/unlink may fail (ENOSPC/EIO) leaving what was done so far; the process may die after each step (write = open+truncate, then write)'})
    R.assumptions += ['a created or truncated file that was not completely written does not parse', 'rename(2) is atomic', 'clock disabled (C04); V = W(KS, Thr, doc)']
    cycle_composition(R, I)
    sums_clean = build_summaries(I, hops=1); R.check_interp_clean(I, 'clean summaries')
    sums_fault = build_summaries(I, hops=1, io_faults='crash'); R.check_interp_clean(I, 'fault summaries')
    if len(sums_clean[0].P.ds) != len(sums_fault[0].P.ds):
        sums_clean = build_summaries(I, hops=1)        # the faulting code touches more files: rebuild the clean summaries over the same slots
    for s in sums_fault:
        R.paths += len(s.paths)
        R.samples.append({'summary with fault/crash points': s.name, 'paths': len(s.paths), 'crash paths': sum(1 for p in s.paths if p.cls == 'crash')})
    R.samples.append({'datastore files tracked': list(DSFILES)})
    shipped, cyc, f = build(sums_clean, sums_fault)
    c1, c2, c3 = cyc
    # (a) protection established by cycle 1 survives whatever happened to cycle 2
    v_online, v_tg = C03.violation_terms(cyc)
    R.obligation('interrupted middle cycle: no rollback of timestamp / snapshot / snapshot-listed targets afterwards (outside the recorded root-persistence classes)', f,
                 z3.Not(z3.Or(v_online)), group='a/online-roles')
    R.obligation('interrupted middle cycle: no rollback of targets.json afterwards', f, z3.Not(z3.Or(v_tg)), group='a/targets')
    # (b) no lock-out: a valid repository at least as new as everything offered before is accepted by a fault-free cycle
    R.obligation('after an interrupted cycle a complete, valid, at-least-as-new repository is accepted', f + [c1.ok] + valid_env(c3, [c1, c2], shipped), c3.ok, group='b/no-lockout')
    R.obligation('after an interrupted FIRST cycle a complete valid repository is accepted', f + [z3.Not(c1.ok)] + valid_env(c3, [c1, c2], shipped), c3.ok, group='b/no-lockout-first')
    R.reach('cycle 2 is cut short in the datastore write of a valid, newer timestamp', f + [c1.ok, z3.Not(c2.ok_ts), c2.ok_root, z3.Not(c2.older_ts),
            c2.env['ts']['served_parses'], z3.Not(c2.env['ts']['fetch_err']), V(c2.root, c2.served['ts']), z3.UGT(Ver(c2.served['ts']), Ver(c1.ts))] +
            [x for ch in c2.chunks[-3:-2] for x in (ch[0], z3.Not(ch[1]), z3.ULE(ch[2], c2.limits[1]))])
    R.reach('cycle 3 accepted after an interrupted cycle 2', f + [c1.ok, z3.Not(c2.ok), c3.ok])
    R.reach('cycle 3 rejects a replayed older timestamp after an interrupted cycle 2', f + [c1.ok, z3.Not(c2.ok), c3.older_ts])
    finalize(R, sums_clean, sums_fault)
    replay_composition(R)
    damaged_store_scenarios(R)

def damaged_store_scenarios(R):
    """always run: what an interrupted cycle can leave behind in the datastore (an empty, truncated or garbage file; a missing file) must neither lock the client
    out of a valid repository that is at least as new, nor let an older timestamp in when the damaged file is not the timestamp"""
    import menu
    if R.violations: return
    for f in ('timestamp.json', 'snapshot.json', 'targets.json'):
        for op in ('truncate', 'garbage', 'remove'):
            sc = menu.scenario([menu.base_root()], [menu.cyc(5), menu.cyc(6, pre=[{'op': op, 'file': f}]), menu.cyc(7)])
            real = R.replay('history', sc); R.differential['scenarios'] += 1
            oks = [c['ok'] for c in real['cycles']]
            if oks[0] and not (oks[1] and oks[2]):
                bad = real['cycles'][1] if not oks[1] else real['cycles'][2]
                R.report_violation(f'after a cycle trusted version 5, the stored {f} is left {"empty" if op == "truncate" else ("unparsable" if op == "garbage" else "missing")} (interrupted cycle); a valid repository at version 6 / 7 is then refused: '
                                   f'{bad.get("err")}: {bad.get("msg", "")[:140]}', sc)
                return
            R.differential['agree'] += 1

def damage_ops(m, c1, c2):
    """datastore differences the interrupted cycle left behind, as native pre-operations for the next cycle"""
    ops = []
    ev = lambda t: z3.is_true(m.eval(t, model_completion=True))
    for fname in DSFILES:
        p1, q1, _ = c1.post[fname]; p2, q2, _ = c2.post[fname]
        if ev(p2) and not ev(q2) and (not ev(p1) or ev(q1)): ops.append({'op': 'truncate' if ev(p1) else 'garbage', 'file': fname})
        if ev(p1) and not ev(p2): ops.append({'op': 'remove', 'file': fname})
    return ops

def finalize(R, sums_clean, sums_fault):
    groups = {}
    for cx in R.counterexamples:
        if not cx['group'].startswith('composition/'): groups.setdefault(cx['group'], cx)
    for g, cx in groups.items():
        shipped, cyc, f = build(sums_clean, sums_fault, 'w')
        c1, c2, c3 = cyc
        clean = clean_constraints([c1, c3], shipped)
        # the interrupted cycle is emulated natively by its effect on the datastore, so it must not have stored new documents itself
        quiet2 = [z3.Not(c2.ok_ts), c2.env['root']['hop_fetch_err'][0], c2.env['root']['shipped_parses'], V(shipped, shipped)]
        if g.startswith('a/'):
            v_online, v_tg = C03.violation_terms([c1, c3])
            q = f + clean + quiet2 + [z3.Or(v_online + v_tg)]
        else:
            q = f + clean + quiet2 + ([c1.ok] if g == 'b/no-lockout' else [z3.Not(c1.ok_root)]) + valid_env(c3, [c1, c2], shipped) + [z3.Not(c3.ok)]
        r, s = R._solve(q)
        if r != z3.sat:
            R.inconclusive.append(f'violation of "{cx["obligation"]}" has no witness inside the natively replayable sub-class ({r})'); continue
        m = s.model()
        ops = damage_ops(m, c1, c2)
        sc, pred = decode_history(m, [c1, c3], shipped, extra_pre={1: ops})
        real = R.replay('history', sc)
        d = agree(pred, real)
        if d:
            R.inconclusive.append(f'counterexample for "{cx["obligation"]}" did not reproduce natively: ' + '; '.join(d) + f' (datastore damage {ops})'); continue
        a, b = real['cycles']
        if g.startswith('a/'):
            R.report_violation(f"after cycle 1 trusted {a['versions']} an interrupted cycle left {ops}; the next cycle accepted the older {b['versions']}", sc,
                               finding_key='truncated-datastore-file-voids-rollback-protection')
        else:
            R.report_violation(f"after an interrupted cycle left {ops} a valid newer repository is refused: {b.get('err')}: {b.get('msg', '')[:160]}", sc)

def replay_file(R, path):
    sc = json.load(open(path))['scenario']; print(json.dumps(R.replay('history', sc))); return 0
