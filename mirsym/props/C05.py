"""C05 — each role matches what the role above it pinned (version, digest, length, file name)."""
import z3, json
from client import *
import deleg

TITLE = 'snapshot matches the timestamp pin, targets and delegated roles match the snapshot pin; versioned names under consistent snapshots'

def name_ok(rel, cons, ver, base):
    """the requested file name is "{ver}.{base}" iff consistent else "{base}" (as a condition over the path)"""
    if len(rel) == 1 and rel[0] == base: return z3.Not(cons)
    if len(rel) == 2 and rel[1] == '.' + base and z3.is_bv(rel[0]): return z3.And(cons, rel[0] == ver)
    return z3.BoolVal(False)

def one_file(R, I, label, P, paths, pin_doc, slot, base, dec):
    RT = variants('RoleType')
    for p in paths:
        if p.cls == 'panic': continue
        R.paths += 1
        fetches = p.ev('fetch'); digests = p.ev('digest'); ends = p.ev('stream_end')
        sl = IDV(slot)
        if p.ok:
            g = label + '/'
            R.obligation(f'{label}: trusted => the pinning document lists the file', p.pc, MPresent(pin_doc, sl), decode=dec, group=g + 'listed')
            R.obligation(f'{label}: trusted => version equals the pinned version', p.pc, Ver(P.served) == MVer(pin_doc, sl), decode=dec, group=g + 'version-eq')
            R.obligation(f'{label}: exactly one request, for the name the pin and the consistent-snapshot flag determine', p.pc,
                         z3.And(z3.BoolVal(len(fetches) == 1), name_ok(fetches[0][2], Cons(P.root), MVer(pin_doc, sl), base)) if fetches else z3.BoolVal(False), decode=dec, group=g + 'name')
            parts = tuple(str(x) for x in (ends[-1][1:2] and ()) ) if False else None
            acc = [e[1] for e in p.events if e[0] == 'accepted_bytes']
            got_parts = tuple(str(e) for e in [x[2] for x in p.events if False])
            # digest: when pinned, the SHA-256 of exactly the accepted bytes equals the pinned one
            if digests:
                dg_ok = z3.Or([d[2] == MSha(pin_doc, sl) for d in digests])
            else:
                dg_ok = z3.BoolVal(False)
            R.obligation(f'{label}: trusted and digest pinned => SHA-256 of the accepted bytes equals the pinned digest', p.pc,
                         z3.Implies(MHasHash(pin_doc, sl), dg_ok), decode=dec, group=g + 'digest')
            if digests:
                chunks_seen = [e for e in p.events if e[0] == 'chunk']
                R.obligation(f'{label}: the digest covers every accepted chunk', p.pc, z3.BoolVal(len(digests[-1][1]) == len(chunks_seen)), decode=dec, group=g + 'digest-covers-all')
            R.obligation(f'{label}: trusted and length pinned => accepted bytes <= pinned length; otherwise <= configured limit', p.pc,
                         z3.If(MHasLen(pin_doc, sl), z3.ULE(p.accepted_total(), MLen(pin_doc, sl)), z3.ULE(p.accepted_total(), P.maxsz)), decode=dec, group=g + 'length')
            R.obligation(f'{label}: the trusted document is the one parsed from the accepted bytes', p.pc, doc_id(p.payload) == P.served, decode=dec, group=g + 'returns-served')
        else:
            if 'VersionMismatch' in p.cls:
                R.obligation(f'{label}: VersionMismatch only if versions really differ', p.pc, Ver(P.served) != MVer(pin_doc, sl), group=label + '/reject-justified')
            if 'HashMismatch' in p.cls:
                R.obligation(f'{label}: HashMismatch only if a digest is pinned and differs', p.pc, z3.And(MHasHash(pin_doc, sl), z3.And([d[2] != MSha(pin_doc, sl) for d in digests])), group=label + '/reject-justified')
            if 'MetaMissing' in p.cls:
                alts = [z3.Not(MPresent(pin_doc, sl))]
                if label == 'load_snapshot':
                    # 3.3.3: the new snapshot dropped the targets.json entry that the stored, still verifiable snapshot had
                    alts.append(z3.And(P.old_present, P.old_parses, V(P.root, P.old), MPresent(P.old, IDV(1)), z3.Not(MPresent(P.served, IDV(1)))))
                R.obligation(f'{label}: MetaMissing only if the file is not listed (or the new snapshot dropped targets.json)', p.pc, z3.Or(alts), group=label + '/reject-justified')
            if 'MaxSizeExceeded' in p.cls:
                # byte counts: a sum of chunk lengths that wraps u64 is outside the property (2^64 bytes cannot be served)
                nw = []; tot = BV64(0)
                for e in p.events:
                    if e[0] == 'chunk_len': nw.append(z3.BVAddNoOverflow(tot, e[1], False)); tot = tot + e[1]
                R.obligation(f'{label}: MaxSizeExceeded only if more than the applicable bound was served', list(p.pc) + nw,
                             z3.If(MHasLen(pin_doc, sl), z3.UGT(sum_lens(p), MLen(pin_doc, sl)), z3.UGT(sum_lens(p), P.maxsz)), group=label + '/reject-justified')
    R.reach_any(f'{label}: trusted with digest+length pinned, consistent snapshots', [p.pc for p in paths if p.ok], z3.And(MHasHash(pin_doc, IDV(slot)), MHasLen(pin_doc, IDV(slot)), Cons(P.root)))
    R.reach_any(f'{label}: HashMismatch reachable', [p.pc for p in paths if 'HashMismatch' in p.cls])
    R.reach_any(f'{label}: VersionMismatch reachable', [p.pc for p in paths if 'VersionMismatch' in p.cls])

def sum_lens(p):
    """total length of the chunks the transport delivered (saturating arithmetic is the code's; here plain 65-bit sum)"""
    t = z3.BitVecVal(0, 65)
    for e in p.events:
        if e[0] == 'chunk_len': t = t + z3.ZeroExt(1, e[1])
    return z3.Extract(63, 0, t) if False else t if False else _sum64(p)
def _sum64(p):
    t = BV64(0)
    for e in p.events:
        if e[0] == 'chunk_len': t = t + e[1]
    return t

def decoder(P, which, pin_doc, slot):
    def dec(m):
        ev = lambda t: m.eval(t, model_completion=True)
        sl = IDV(slot)
        return {'kind': 'pin', 'which': which, 'consistent': bool(z3.is_true(ev(Cons(P.root)))), 'served_version': ev(Ver(P.served)).as_long(),
                'pinned_version': ev(MVer(pin_doc, sl)).as_long(), 'pin_len': bool(z3.is_true(ev(MHasLen(pin_doc, sl)))), 'pin_hash': bool(z3.is_true(ev(MHasHash(pin_doc, sl)))),
                'listed': bool(z3.is_true(ev(MPresent(pin_doc, sl)))), 'pinned_len': ev(MLen(pin_doc, sl)).as_long(), 'maxsz': ev(P.maxsz).as_long(),
                'chunk_lens': [ev(c[2]).as_long() for c in P.chunks], 'verifies': bool(z3.is_true(ev(V(P.root, P.served))))}
    return dec

def check(R, tier):
    R.fallback_kinds = {'meta'}
    I = R.interp('tough'); install_world(I)
    nch = 2 if tier == 'thorough' else 1
    R.bounds.update({'chunk lengths': 'any u64 whose running sum does not wrap (a repository cannot serve 2^64 bytes)', 'chunks per file': f'0..{nch}', 'versions / lengths': 'any u64', 'delegation tree': 'depth <= 2, <= 2 roles per level'})
    R.assumptions += ['Sha(content) is a function of the sequence of accepted chunks (cryptographic hash trusted)', 'parse oracle per served file; V = C01 oracle',
                      'expiry clock disabled here (C04)']
    P = sn_params(nch); P['lkt_present'] = z3.BoolVal(False); P['safe'] = z3.BoolVal(False)
    paths = summarize_load_snapshot(I, P); R.check_interp_clean(I, 'load_snapshot')
    one_file(R, I, 'load_snapshot', P, paths, P.ts, 0, 'snapshot.json', decoder(P, 'snapshot', P.ts, 0))
    P2 = tg_params(nch); P2['lkt_present'] = z3.BoolVal(False); P2['safe'] = z3.BoolVal(False)
    paths2 = summarize_load_targets(I, P2, no_deleg=True); R.check_interp_clean(I, 'load_targets')
    one_file(R, I, 'load_targets', P2, paths2, P2.sn, 1, 'targets.json', decoder(P2, 'targets', P2.sn, 1))
    deleg.c05_obligations(R, I, tier)
    finalize(R)

def finalize(R):
    seen = set()
    for cx in R.counterexamples:
        sc = cx.get('scenario')
        if not sc or sc.get('kind') != 'pin':
            R.inconclusive.append(f'counterexample for "{cx["obligation"]}": {str(cx.get("scenario") or cx.get("model"))[:300]}'); continue
        key = (sc['which'], cx['group'])
        if key in seen: continue
        seen.add(key)
        res, expect_reject, why = replay_pin(R, sc, cx['group'])
        if res is None:
            R.inconclusive.append(f'counterexample for "{cx["obligation"]}" is outside what the replay builder expresses: {sc}'); continue
        if expect_reject and res['ok']:
            R.report_violation(f"{sc['which']} trusted although {why}", {'pin': sc, 'history': res['_scenario']})
        else:
            R.inconclusive.append(f'counterexample for "{cx["obligation"]}" did not reproduce natively ({why}; real: ok={res["ok"]} err={res.get("err")})')

def replay_pin(R, sc, group):
    """one clean cycle in which exactly the pinned file deviates as the solver says"""
    which = sc['which']
    base = {'nkeys': 4, 'roots': [{'version': 1, 'consistent': sc['consistent'], 'table': [0, 1, 2, 3], 'signers': [0],
                                   'roles': {'root': {'keys': [0], 'thr': 1}, 'timestamp': {'keys': [1], 'thr': 1}, 'snapshot': {'keys': [2], 'thr': 1}, 'targets': {'keys': [3], 'thr': 1}}}]}
    cyc = {'shipped': 0, 'serve_roots': {}, 'consistent': sc['consistent'], 'safe': False,
           'timestamp': {'version': 1, 'signers': [1]}, 'snapshot': {'version': 1, 'signers': [2]}, 'targets': {'version': 1, 'signers': [3]},
           'ts_meta': {'pin_len': True, 'pin_hash': True}, 'sn_meta': {'pin_len': True, 'pin_hash': True}}
    meta = cyc['ts_meta'] if which == 'snapshot' else cyc['sn_meta']
    docn = which
    why = None
    if group.endswith('/digest'):
        meta.update(pin_hash=True, pin_len=sc['pin_len'], wrong_hash=True); why = 'the pinned SHA-256 differs from the digest of the served bytes (length pinned: %s)' % sc['pin_len']
    elif group.endswith('/version-eq'):
        meta.update(pin_hash=sc['pin_hash'], pin_len=sc['pin_len']); cyc[docn]['version'] = 2 if sc['served_version'] > sc['pinned_version'] else 1
        meta['version'] = 1 if sc['served_version'] > sc['pinned_version'] else 2
        if which == 'snapshot': cyc['consistent'] and None
        why = f'its version {cyc[docn]["version"]} differs from the pinned version {meta["version"]}'
    elif group.endswith('/length'):
        meta.update(pin_hash=False, pin_len=True, len_delta=-1); why = 'it is one byte longer than the pinned length'
    elif group.endswith('/listed'):
        meta.update(drop_targets=True) if which == 'targets' else meta.update(drop_snapshot=True); why = 'the pinning document does not list it'
    else:
        return None, None, None
    base['cycles'] = [cyc]
    res = R.replay('history', base)['cycles'][0]
    res['_scenario'] = base
    return res, True, why

def replay_file(R, path):
    sc = json.load(open(path))['scenario']
    print(json.dumps(R.replay('history', sc['history'])))
    return 0
