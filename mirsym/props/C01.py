"""C01 — only metadata signed by a threshold of DISTINCT authorised keys is trusted."""
import z3, re, itertools
from client import *

TITLE = 'threshold of distinct authorised keys, over the canonical form of the content used, at every verification site'
KW = 3    # key-id universe: 8 abstract ids
U = z3.BitVecSort(KW)
Valid = z3.Function('Valid', U, z3.BitVecSort(8), z3.BitVecSort(8), z3.BoolSort())    # key id, content id, signature id

def kid_of(I, st, v):
    v = deref(I, st, v)
    while isinstance(v, Ref): v = I.deref_load(st, v)
    return v.d['id']

def m_vec_new(I, st, fr, callee, args, dty, dest, ret_bb): return Obj('vec', content=Obj('empty'))
def m_canon_new(I, st, fr, callee, args, dty, dest, ret_bb): return Obj('canon_fmt')
def m_with_formatter(I, st, fr, callee, args, dty, dest, ret_bb):
    return Obj('serializer', out=args[0], fmt=mat(I, st, args[1]))
def m_serializer_new(I, st, fr, callee, args, dty, dest, ret_bb):
    return Obj('serializer', out=args[0], fmt=Obj('compact_fmt'))
def m_serialize(I, st, fr, callee, args, dty, dest, ret_bb):
    val = deref(I, st, args[0]); ser = deref(I, st, args[1])
    canon = isinstance(ser.d['fmt'], Obj) and ser.d['fmt'].kind == 'canon_fmt'
    vec = deref(I, st, ser.d['out'])
    vid = val.fields.get((None, 'id')) if isinstance(val, Adt) else None
    vec.d['content'] = Obj('canon' if canon else 'noncanon', of=vid, what=val.ty if isinstance(val, Adt) else '?')
    st.events.append(('serialize', vid, canon, val.ty if isinstance(val, Adt) else '?'))
    ok = z3.Bool(fresh_name('ser_ok'))
    return mk_result(ok=unit(), err=Obj('serde_error'), discr=z3.If(ok, BV64(0), BV64(1)))
def m_into_iter(I, st, fr, callee, args, dty, dest, ret_bb): return Obj('iter', vec=args[0], pos=0)
def m_contains(I, st, fr, callee, args, dty, dest, ret_bb):
    vec = deref(I, st, args[0]); k = kid_of(I, st, args[1])
    return z3.Or([kid_of(I, st, Ref(c)) == k for c in vec.d['elems']] + [z3.BoolVal(False)])
def m_keys_get(I, st, fr, callee, args, dty, dest, ret_bb):
    m = deref(I, st, args[0]); k = kid_of(I, st, args[1])
    present = z3.Select(m.d['present'], k)
    cell = st.alloc(Obj('key', id=k))
    st.events.append(('keys.get', k))
    return Adt('Option', z3.If(present, BV64(1), BV64(0)), {('Some', 0): Ref(cell)})
def m_key_verify(I, st, fr, callee, args, dty, dest, ret_bb):
    key = deref(I, st, args[0]); data = deref(I, st, args[1]); sig = deref(I, st, args[2])
    while isinstance(sig, Ref): sig = I.deref_load(st, sig)
    c = data.d['content']
    st.events.append(('verify', key.d['id'], c.kind, c.d.get('of'), sig.d['id']))
    if c.kind != 'canon' or c.d.get('of') is None: return z3.Bool(fresh_name('garbage_verify'))
    return Valid(key.d['id'], c.d['of'], sig.d['id'])
def m_set_new(I, st, fr, callee, args, dty, dest, ret_bb): return Obj('set', items=[])
def m_set_insert(I, st, fr, callee, args, dty, dest, ret_bb):
    s = deref(I, st, args[0]); k = kid_of(I, st, args[1])
    fresh = z3.Not(z3.Or([k == x for x in s.d['items']] + [z3.BoolVal(False)]))
    s.d['items'] = s.d['items'] + [k]
    return fresh
def m_u64_from(I, st, fr, callee, args, dty, dest, ret_bb): return I.as_z3(st, args[0])
def m_roles_get_c01(I, st, fr, callee, args, dty, dest, ret_bb):
    m = deref(I, st, args[0]); role = deref(I, st, args[1])
    st.events.append(('roles.get', role.discr if isinstance(role, Adt) else None))
    return Adt('Option', z3.If(m.d['has'], BV64(1), BV64(0)), {('Some', 0): Ref(m.d['cell'])})
def m_find(I, st, fr, callee, args, dty, dest, ret_bb):
    """Iter<DelegatedRole>::find(|role| role.name == name): run the repository's closure on each candidate"""
    it = deref(I, st, args[0])
    while isinstance(it, Ref): it = deref(I, st, it)
    vec = it
    if isinstance(it, Obj) and it.kind == 'iter': vec = deref(I, st, it.d['vec'])
    st.frames.append(ModelFrame(h_find, {'elems': list(vec.d['elems']), 'i': 0, 'clos': st.alloc(mat(I, st, args[1]))}, dest, ret_bb)); return PUSHED
def h_find(I, st, fr):
    d = fr.data
    if 'ret' in d:
        r = I.as_z3(st, d.pop('ret'))
        out = []
        s_yes = st.clone(); s_yes.pc.append(r)
        if I.feasible(s_yes):
            I.do_return(s_yes, mk_some(Ref(d['elems'][d['i'] - 1]))); out.append(s_yes)
        st.pc.append(z3.Not(r))
        if not I.feasible(st): return out
        if d['i'] >= len(d['elems']):
            I.do_return(st, mk_none()); return out + [st]
        out2 = h_find(I, st, fr); return out + out2
    if d['i'] >= len(d['elems']):
        I.do_return(st, mk_none()); return [st]
    el = d['elems'][d['i']]; d['i'] += 1
    fn = I.resolve_closure(st.heap[d['clos']].ty)
    rr = st.alloc(Ref(el))
    I.push_call(st, fn, [Ref(d['clos']), Ref(rr)], None, None); return [st]
def m_str_eq(I, st, fr, callee, args, dty, dest, ret_bb):
    a, b = deref(I, st, args[0]), deref(I, st, args[1])
    while isinstance(a, Ref): a = I.deref_load(st, a)
    while isinstance(b, Ref): b = I.deref_load(st, b)
    na, nb = a.d.get('nid'), b.d.get('nid')
    if na is None or nb is None: raise Stuck('string compare without name ids: %r %r' % (a, b))
    return na == nb
def m_ok_or(I, st, fr, callee, args, dty, dest, ret_bb):
    v = mat(I, st, args[0]); d = discr_of(I, st, v)
    nd = z3.If(d == 1, BV64(0), BV64(1)) if not isinstance(d, int) else 1 - d
    return mk_result(ok=get_field(I, st, v, 'Some', 0), err=error('RoleNotFound'), discr=nd)
def m_opaque_str(I, st, fr, callee, args, dty, dest, ret_bb): return Obj('str', s=None, pieces=['<opaque>'])

# ---- generic Vec / iterator plumbing (so that harmless restructurings of the loops stay executable)
def m_collect_refs(I, st, fr, callee, args, dty, dest, ret_bb):
    it = mat(I, st, args[0]); vec = deref(I, st, it.d['vec'])
    return Obj('vec', elems=[st.alloc(Ref(c)) for c in vec.d['elems'][it.d['pos']:]])
def m_vec_into_iter_val(I, st, fr, callee, args, dty, dest, ret_bb):
    return Obj('iter', vec=Ref(st.alloc(mat(I, st, args[0]))), pos=0, byval=True)
def m_into_iter_next_val(I, st, fr, callee, args, dty, dest, ret_bb):
    it = deref(I, st, args[0]); vec = deref(I, st, it.d['vec']); elems = vec.d['elems']
    if it.d['pos'] < len(elems):
        r = mk_some(st.heap[elems[it.d['pos']]]); it.d['pos'] += 1; return r
    return mk_none()
def m_dedup_by(I, st, fr, callee, args, dty, dest, ret_bb):
    st.frames.append(ModelFrame(h_dedup_by, {'vec': args[0], 'i': 1, 'kept': None, 'clos': st.alloc(mat(I, st, args[1]))}, dest, ret_bb)); return PUSHED
def h_dedup_by(I, st, fr):
    """Vec::dedup_by: drop an element when same_bucket(element, last kept element) is true (std contract)"""
    d = fr.data; vec = deref(I, st, d['vec'])
    if d['kept'] is None: d['kept'] = list(vec.d['elems'][:1]); d['all'] = list(vec.d['elems'])
    if 'ret' in d:
        r = I.as_z3(st, d.pop('ret')); cur = d['all'][d['i'] - 1]
        out = []
        s_drop = st.clone(); s_drop.pc.append(r)
        if I.feasible(s_drop): out.append(s_drop)
        st.pc.append(z3.Not(r))
        if I.feasible(st):
            d['kept'] = d['kept'] + [cur]; out.append(st)
        return out
    if d['i'] >= len(d['all']):
        vec.d['elems'] = list(d['kept']); I.do_return(st, unit()); return [st]
    cur = d['all'][d['i']]; d['i'] += 1
    fn = I.resolve_closure(st.heap[d['clos']].ty)
    if fn is None: raise Stuck('dedup_by closure')
    I.push_call(st, fn, [Ref(d['clos']), Ref(cur), Ref(d['kept'][-1])], None, None); return [st]
def m_hex_eq(I, st, fr, callee, args, dty, dest, ret_bb):
    return kid_of(I, st, args[0]) == kid_of(I, st, args[1])

C01_MODELS = [
    (R(r'^<std::slice::Iter<.*> as Iterator>::collect::<Vec<&'), m_collect_refs),
    (R(r'^<Vec<&schema::Signature> as IntoIterator>::into_iter$'), m_vec_into_iter_val),
    (R(r'^<std::vec::IntoIter<&schema::Signature> as Iterator>::next$'), m_into_iter_next_val),
    (R(r'^Vec::<.*>::dedup_by::<'), m_dedup_by),
    (R(r'^<Decoded<Hex> as PartialEq>::(eq)$'), m_hex_eq),
    (R(r'^core::slice::<impl \[schema::Signature\]>::iter$'), m_slice_iter),
    (R(r'^<Vec<schema::Signature> as Deref>::deref$'), m_identity),
    (R(r'^Vec::<u8>::new$'), m_vec_new),
    (R(r'^CanonicalFormatter::new$'), m_canon_new),
    (R(r'^serde_json::Serializer::<.*>::with_formatter$'), m_with_formatter),
    (R(r'^serde_json::Serializer::<.*>::new$'), m_serializer_new),
    (R(r' as Serialize>::serialize::<'), m_serialize),
    (R(r'^core::fmt::rt::Argument::<.*>::new_display::<'), m_opaque_str),
    (R(r'^Arguments::<.*>::new::<'), m_opaque_str),
    (R(r'^std::fmt::format$'), m_opaque_str),
    (R(r'^<str as ToString>::to_string$'), m_opaque_str),
    (R(r'^HashSet::<.*>::new$'), m_set_new),
    (R(r'^HashSet::<.*>::insert$'), m_set_insert),
    (R(r'^<&Vec<schema::Signature> as IntoIterator>::into_iter$'), m_into_iter),
    (R(r'^<std::slice::Iter<.*schema::Signature> as Iterator>::next$'), m_iter_next_g),
    (R(r'^<Vec<Decoded<Hex>> as Deref>::deref$'), m_identity),
    (R(r'^<Vec<DelegatedRole> as Deref>::deref$'), m_identity),
    (R(r'^<Decoded<Hex> as Deref>::deref$'), m_identity),
    (R(r'^core::slice::<impl \[Decoded<Hex>\]>::contains$'), m_contains),
    (R(r'^core::slice::<impl \[DelegatedRole\]>::iter$'), m_identity),
    (R(r'^HashMap::<Decoded<Hex>, key::Key>::get::<'), m_keys_get),
    (R(r'^HashMap::<RoleType, RoleKeys>::get::<'), m_roles_get_c01),
    (R(r'Iterator>::find::<'), m_find),
    (R(r'^<std::string::String as PartialEq<str>>::eq$'), m_str_eq),
    (R(r'^<std::string::String as PartialEq<&str>>::eq$'), m_str_eq),
    (R(r'^<str as PartialEq>::eq$'), m_str_eq),
    (R(r'^std::option::Option::<.*>::ok_or::<'), m_ok_or),
    (R(r'^key::Key::verify$'), m_key_verify),
    (R(r'^<u64 as From<NonZero<u64>>>::from$'), m_u64_from),
]

def build(I, st, which, nsig, nrk, role_type='Timestamp'):
    kid = [z3.BitVec(f'sig{i}_keyid', KW) for i in range(nsig)]
    sg = [z3.BitVec(f'sig{i}_sig', 8) for i in range(nsig)]
    sigcells = [st.alloc(Adt('Signature', None, {(None, F('Signature', 'keyid')): Obj('hex', id=kid[i]), (None, F('Signature', 'sig')): Obj('hex', id=sg[i])})) for i in range(nsig)]
    content = z3.BitVec('content_id', 8)
    signed_ = Adt('T', None, {(None, 'id'): content})
    role = st.alloc(Adt('Signed<T>', None, {(None, F('Signed', 'signed')): signed_, (None, F('Signed', 'signatures')): Obj('vec', elems=sigcells)}))
    rk = [z3.BitVec(f'rolekey{i}', KW) for i in range(nrk)]
    rkcells = [st.alloc(Obj('hex', id=rk[i])) for i in range(nrk)]
    thr = z3.BitVec('threshold', 64)
    present = z3.Array('key_present', U, z3.BoolSort())
    keys = Obj('keymap', present=present)
    has_role = z3.Bool('has_role')
    st.pc.append(thr != 0)          # NonZeroU64
    if which == 'root':
        rkeys = st.alloc(Adt('RoleKeys', None, {(None, F('RoleKeys', 'keyids')): Obj('vec', elems=rkcells), (None, F('RoleKeys', 'threshold')): thr}))
        root = st.alloc(Adt('Root', None, {(None, F('Root', 'keys')): keys, (None, F('Root', 'roles')): Obj('rolemap', has=has_role, cell=rkeys)}))
        fn = I.resolve_fn('verify::<impl Root>::verify_role::<T>')
        I.push_call(st, fn, [Ref(root), Ref(role)], None, None, generics={'T': role_type})
    else:
        # two delegated roles; the one looked up has name id `want`; the other carries a different key list / threshold
        want = z3.BitVec('want_name', 8); n0 = z3.BitVec('role0_name', 8); n1 = z3.BitVec('role1_name', 8)
        other_keys = [st.alloc(Obj('hex', id=z3.BitVec(f'other_rolekey{i}', KW))) for i in range(1)]
        def drole(nm, cells, t):
            return st.alloc(Adt('DelegatedRole', None, {(None, F('DelegatedRole', 'name')): Obj('str', s=None, nid=nm),
                                                        (None, F('DelegatedRole', 'keyids')): Obj('vec', elems=cells), (None, F('DelegatedRole', 'threshold')): t}))
        pos = z3.Bool('wanted_role_is_second')     # harness enumerates both positions through two runs
        r_want = lambda: drole(want, rkcells, thr)
        r_other = lambda: drole(n1, other_keys, z3.BitVec('other_threshold', 64))
        st.pc.append(n1 != want)
        has = st.env.get('has_role_cfg', True)
        order = st.env.get('order_cfg', 0)
        elems = ([r_want(), r_other()] if order == 0 else [r_other(), r_want()]) if has else [r_other()]
        dele = st.alloc(Adt('Delegations', None, {(None, F('Delegations', 'keys')): keys, (None, F('Delegations', 'roles')): Obj('vec', elems=elems)}))
        fn = I.resolve_fn('verify::<impl Delegations>::verify_role')
        I.push_call(st, fn, [Ref(dele), Ref(role), Obj('str', s=None, nid=want)], None, None)
        st.pc.append(has_role == z3.BoolVal(bool(has)))
    # reference: number of distinct key ids that are authorised for the role, present in the key table, and carry a valid
    # signature over the canonical form of this content
    cnt = BV64(0)
    for u in range(2 ** KW):
        uu = z3.BitVecVal(u, KW)
        authorised = z3.Or([rk[i] == uu for i in range(nrk)] + [z3.BoolVal(False)])
        signed_ok = z3.Or([z3.And(kid[i] == uu, Valid(uu, content, sg[i])) for i in range(nsig)] + [z3.BoolVal(False)])
        cnt = cnt + z3.If(z3.And(authorised, z3.Select(present, uu), signed_ok), BV64(1), BV64(0))
    return dict(cnt=cnt, thr=thr, has_role=has_role, content=content, kid=kid, sg=sg, rk=rk, present=present)

def decode_model(spec, nsig, nrk, which):
    def dec(m):
        ev = lambda t: m.eval(t, model_completion=True)
        content = ev(spec['content'])
        sigs = []
        for i in range(nsig):
            k = ev(spec['kid'][i]).as_long(); s = ev(spec['sg'][i])
            sigs.append({'keyid': k, 'valid': bool(z3.is_true(ev(Valid(z3.BitVecVal(k, KW), content, s)))), 'sig_id': s.as_long()})
        return {'kind': 'verify_role', 'which': which, 'threshold': ev(spec['thr']).as_long(), 'has_role': bool(z3.is_true(ev(spec['has_role']))),
                'role_keyids': [ev(x).as_long() for x in spec['rk']],
                'key_table': [u for u in range(2 ** KW) if z3.is_true(ev(z3.Select(spec['present'], z3.BitVecVal(u, KW))))],
                'signatures': sigs, 'spec_count': ev(spec['cnt']).as_long()}
    return dec

def run_verify_role(R, I, which, nsig, nrk, role_type='Timestamp', cfg=None):
    st = State(); st.env['fs'] = {}
    if cfg: st.env.update(cfg)
    spec = build(I, st, which, nsig, nrk, role_type)
    done = []; I.run(st, done.append)
    label = f'{which}[{role_type if which == "root" else "deleg"},sigs={nsig},rolekeys={nrk}' + (f',{cfg}' if cfg else '') + ']'
    R.check_interp_clean(I, label)
    nok = 0
    for s in done:
        if isinstance(s.result, Obj) and s.result.kind == 'panic':
            # overflow of the `valid` counter: must be unreachable for lists this short
            R.obligation(f'{label}: arithmetic panic unreachable', s.pc, z3.BoolVal(False), group=f'{which}/no-panic'); continue
        R.paths += 1
        r = s.result; ok = (r.discr == 0)
        sers = [e for e in s.events if e[0] == 'serialize']; vers = [e for e in s.events if e[0] == 'verify']
        wellformed = all(e[2] for e in sers) and all(e[2] == 'canon' and e[3] is not None and z3.eq(e[3], spec['content']) for e in vers) \
            and all(e[1] is not None and z3.eq(e[1], spec['content']) for e in sers)
        dec = decode_model(spec, nsig, nrk, which)
        if ok:
            nok += 1
            R.obligation(f'{label}: accepted => role listed and #distinct authorised valid signers >= threshold, message = canonical form of role.signed',
                         s.pc, z3.And(spec['has_role'], z3.UGE(spec['cnt'], spec['thr']), z3.BoolVal(wellformed)), decode=dec, group=f'{which}/accept-sound')
        else:
            ek = r.fields[('Err', 0)].d.get('ekind') if isinstance(r.fields[('Err', 0)], Obj) else None
            R.obligation(f'{label}: rejected => role missing, or serialisation failed, or genuinely below threshold',
                         s.pc, z3.Or(z3.Not(spec['has_role']), z3.BoolVal(ek == 'JsonSerialization'), z3.ULT(spec['cnt'], spec['thr'])), decode=dec, group=f'{which}/reject-justified')
            if ek == 'JsonSerialization': continue
        if which == 'root':
            rg = [e for e in s.events if e[0] == 'roles.get']
            R.obligation(f'{label}: the key list consulted is the one of role type {role_type}', s.pc,
                         z3.BoolVal(len(rg) == 1 and rg[0][1] == variants('RoleType').index(role_type)), group='root/role-type-lookup')
    okp = [s for s in done if not isinstance(s.result, Obj) and s.result.discr == 0]
    if nsig >= 2 and nrk >= 2:
        R.reach_any(f'{label}: accepted with threshold 2 reachable', [s.pc for s in okp], spec['thr'] == 2)
    return len(done)

ALG = {'Rsa': 'RSA_PSS_2048_8192_SHA256', 'Ed25519': 'ED25519', 'Ecdsa': 'ECDSA_P256_SHA256_ASN1', 'EcdsaOld': 'ECDSA_P256_SHA256_ASN1'}
def run_key_verify(R, I):
    """Key::verify from MIR for each key variant: algorithm constant, key bytes, message and signature wiring"""
    kv = variants('Key', 'schema/key.rs')
    fn = I.resolve_fn('key::Key::verify')
    if fn is None: raise Stuck('Key::verify not found')
    for vi, vname in enumerate(kv):
        st = State(); st.env['fs'] = {}
        pub = Obj('pubkey', pid=z3.BitVec('pub', 8))
        keyval = Adt('KeyVal', None, {(None, 0): pub})
        key = st.alloc(Adt('key::Key', vi, {(vname, 0): keyval, (vname, 1): Adt('Scheme', 0, {})}))
        msg = Obj('bytes', content=z3.BitVec('msg', 8)); sig = Obj('bytes', content=z3.BitVec('sg', 8))
        res = z3.Bool('verify_sig_ok')
        calls = []
        def m_verify_sig(I_, s, fr, callee, args, dty, dest, ret_bb):
            alg = mat(I_, s, args[0]); pk = deref(I_, s, args[1]); m_ = deref(I_, s, args[2]); sg_ = deref(I_, s, args[3])
            s.events.append(('verify_sig', alg.d.get('static') if isinstance(alg, Obj) else None, pk, m_, sg_))
            return mk_result(ok=unit(), err=Obj('unspecified'), discr=z3.If(res, BV64(0), BV64(1)))
        saved = list(I.models)
        I.models[:0] = [(R_(r'VerificationAlgorithm>::verify_sig$'), m_verify_sig), (R_(r'^Input::<.*>::from$'), m_identity),
                        (R_(r'^Input::<.*>::as_slice_less_safe$'), lambda I_, s, fr, c, a, d, de, rb: deref(I_, s, a[0])),
                        (R_(r'^<Decoded<\w+> as Deref>::deref$'), m_identity)]
        try:
            I.push_call(st, fn, [Ref(key), msg, sig], None, None)
            done = []; I.run(st, done.append)
        finally:
            I.models[:] = saved
        R.check_interp_clean(I, 'Key::verify/' + vname)
        for s in done:
            R.paths += 1
            vs = [e for e in s.events if e[0] == 'verify_sig']
            good = len(vs) == 1 and vs[0][1] == ALG.get(vname) and isinstance(vs[0][2], Obj) and vs[0][2].kind == 'pubkey' \
                and isinstance(vs[0][3], Obj) and z3.eq(vs[0][3].d['content'], msg.d['content']) and isinstance(vs[0][4], Obj) and z3.eq(vs[0][4].d['content'], sig.d['content'])
            R.obligation(f'Key::verify[{vname}]: exactly one verify_sig({ALG.get(vname)}, key.public, msg, signature)', s.pc, z3.BoolVal(bool(good)), group='key-verify/wiring')
            rv = I.as_z3(s, s.result)
            R.obligation(f'Key::verify[{vname}]: result is exactly verify_sig(..).is_ok()', s.pc, rv == res, group='key-verify/result')
        R.samples.append({'Key::verify': vname, 'alg': ALG.get(vname), 'paths': len(done)})
R_ = R

def site_obligations(R, I):
    """which root / which document every verification in the workflow uses (lkt disabled: not the subject here)"""
    for label, pf, sf in (('load_timestamp', ts_params, summarize_load_timestamp), ('load_snapshot', sn_params, summarize_load_snapshot),
                          ('load_targets', tg_params, summarize_load_targets)):
        P = pf(1); P['lkt_present'] = z3.BoolVal(False)
        paths = sf(I, P, no_deleg=True) if label == 'load_targets' else sf(I, P)
        R.check_interp_clean(I, label)
        for p in paths:
            if not p.ok: continue
            R.paths += 1
            R.obligation(f'{label}: Ok => the returned document verified under the root passed in', p.pc, z3.And(V(P.root, P.served), doc_id(p.payload) == P.served), group='site/' + label)
            fname = {'load_timestamp': 'timestamp.json', 'load_snapshot': 'snapshot.json', 'load_targets': 'targets.json'}[label]
            R.obligation(f'{label}: Ok => the document persisted is the verified one (and nothing else is touched)', p.pc,
                         z3.BoolVal(p.stored_doc_is('/ds/' + fname, P.served) and p.touched() <= {'/ds/' + fname}), group='site/persisted-' + label)
        R.reach(f'{label}: Ok reachable', next((p.pc for p in paths if p.ok), [z3.BoolVal(False)]))
    P = root_params(2, 1); P['lkt_present'] = z3.BoolVal(False)
    paths = summarize_load_root(I, P); R.check_interp_clean(I, 'load_root')
    for p in paths:
        if not p.ok: continue
        R.paths += 1
        fin = doc_id(p.payload)
        chain = [P.shipped]
        for h in P.hop:
            if any(e[0] == 'verify' and z3.eq(e[2], h) for e in p.events): chain.append(h)
        # every root on the accepted chain verified by its predecessor and by itself; the shipped root by itself
        conj = [V(P.shipped, P.shipped)]
        cur = P.shipped
        for h in chain[1:]:
            acc = z3.And(V(cur, h), V(h, h))
            conj.append(z3.Implies(z3.Or(fin == h, *[fin == x for x in chain[chain.index(h) + 1:]]), acc))
            cur = h
        conj.append(z3.Or([fin == x for x in chain]))
        R.obligation('load_root: Ok => shipped root self-verified; each adopted root verified by its predecessor AND itself', p.pc, z3.And(conj), group='site/load_root')
    R.reach('load_root: Ok with two adopted hops reachable', next((p.pc for p in paths if p.ok and z3.eq(doc_id(p.payload), P.hop[1])), [z3.BoolVal(False)]))

def check(R, tier):
    I = R.interp('tough'); install_world(I)
    nsig = 3 if tier == 'quick' else 4
    R.bounds.update({'signatures per document': f'0..{nsig}', 'key-id universe': 2 ** KW, 'role key list': '0..3 (with repeats)', 'threshold': 'any non-zero u64',
                     'delegations.roles': '2 entries, wanted role first / second / absent', 'root hops (site obligations)': 2})
    R.assumptions += ['Valid(key, canonical content, sig) is an uninterpreted predicate: cryptographic verification itself is trusted (aws-lc-rs)',
                      'the serializer model writes Canon(value) iff a CanonicalFormatter was passed (the formatter itself is C11)',
                      'key table lookup returns the key stored under that id (ids are digests of keys: C13)',
                      'HashSet/slice::contains/HashMap::get have std semantics']
    saved = list(I.models); I.models[:0] = C01_MODELS
    try:
        run_key_verify(R, I)
        for role_type in (('Timestamp', 'Root', 'Snapshot', 'Targets') if tier == 'thorough' else ('Timestamp', 'Root')):
            for ns in range(0, nsig + 1):
                for nrk in ((1, 3) if tier == 'quick' else (0, 1, 2, 3)):
                    if tier == 'quick' and role_type != 'Timestamp' and ns != 2: continue
                    run_verify_role(R, I, 'root', ns, nrk, role_type)
        for ns in range(0, nsig + 1):
            for nrk in ((1, 3) if tier == 'quick' else (0, 1, 2, 3)):
                for cfg in ({'has_role_cfg': True, 'order_cfg': 0}, {'has_role_cfg': True, 'order_cfg': 1}, {'has_role_cfg': False}):
                    if tier == 'quick' and cfg.get('order_cfg') == 1 and ns != 2: continue
                    if not cfg['has_role_cfg'] and ns > 1: continue
                    run_verify_role(R, I, 'delegations', ns, nrk, cfg=cfg)
    finally:
        I.models[:] = saved
    site_obligations(R, I)
    site_replay(R, I)
    finalize(R)

def site_replay(R, I):
    """counterexamples of the call-site obligations have no scenario of their own: look for a witness on the composed one-cycle relation
    (a successful cycle in which an accepted document, or an adopted root, was NOT verified as the property demands) and run it natively"""
    site_cx = [c for c in R.counterexamples if c['group'].startswith('site/')]
    if not site_cx: return
    from histreplay import clean_constraints, decode_history, agree, reference_root_walk
    from history import build_summaries
    import props.C03 as C03
    sums = build_summaries(I, hops=2)
    shipped, cyc, f = C03.build_history(sums, 1, 'w'); c = cyc[0]
    bad = [('timestamp', z3.Not(V(c.root, c.ts))), ('snapshot', z3.Not(V(c.root, c.sn))), ('targets', z3.Not(V(c.root, c.tg)))]
    cur = shipped
    for i, h in enumerate(c.hops):
        on = z3.Or([c.root == x for x in c.hops[i:]])
        bad.append((f'root hop {i + 1}', z3.And(on, z3.Not(z3.And(V(cur, h), V(h, h))))))
        cur = z3.If(on, h, cur)
    bad.append(('shipped root', z3.Not(V(shipped, shipped))))
    reproduced = False
    for what, b in bad:
        r, sv = R._solve(f + clean_constraints(cyc, shipped) + [c.ok, b, z3.Distinct([shipped] + list(c.hops))])
        if r != z3.sat: continue
        sc, pred = decode_history(sv.model(), cyc, shipped)
        real = R.replay('history', sc)
        rc = real['cycles'][0]
        adopted = rc.get('versions', {}).get('root')
        if what.startswith('root hop') and rc['ok'] and adopted == sc['roots'][sc['cycles'][0].get('shipped', 0)]['version']:
            R.notes.append(f'site witness for {what}: the native run did not adopt the hop'); continue
        if rc['ok'] and not agree(pred, real):
            R.report_violation(f'an update cycle succeeds although the {what} document does not meet the signature threshold of the root it has to be verified under '
                               f'(trusted root version {rc["versions"].get("root")}; requests {[x[0] for x in rc["requests"]]})', sc)
            reproduced = True; break
        R.notes.append(f'site witness for {what} did not reproduce: predicted {pred}, real {real["cycles"]}')
    if not reproduced:
        import menu
        reproduced = root_hop_menu(R) or menu.run(R, {'signatures'}, 'signature threshold at the call sites')
    for cx in site_cx: cx['site_replayed'] = reproduced

def root_hop_menu(R):
    """directed native scenarios for the root-update sites: root 1 (root keys [A,B], threshold 1, signed by A) and a root 2 whose key list /
    threshold / signers vary; the reference says: adopt iff root 2 meets root 1's threshold under root 1's keys AND its own threshold under its own keys"""
    A, B, C = 0, 1, 2
    def root(ver, rkeys, thr, signers, table):
        return {'id': ver, 'version': ver, 'consistent': False, 'table': table, 'roles': {'root': {'keys': rkeys, 'thr': thr}, 'timestamp': {'keys': [3], 'thr': 1}, 'snapshot': {'keys': [4], 'thr': 1}, 'targets': {'keys': [5], 'thr': 1}}, 'signers': signers}
    menu = [('same keys, threshold raised to 2, signed by one key', [A, B], 2, [A]), ('same keys, threshold raised to 2, signed by both', [A, B], 2, [A, B]),
            ('rotated to [C], signed by the old key only', [C], 1, [A]), ('rotated to [C], signed by the new key only', [C], 1, [C]), ('rotated to [C], signed by old and new', [C], 1, [A, C]),
            ('keys [A,C] threshold 2, signed by A and C', [A, C], 2, [A, C]), ('keys [A,C] threshold 2, signed by A only', [A, C], 2, [A]), ('same keys and threshold, signed by B', [A, B], 1, [B])]
    found = False
    for what, rkeys, thr, signers in menu:
        r1 = root(1, [A, B], 1, [A], [A, B, 3, 4, 5]); r2 = root(2, rkeys, thr, signers, sorted(set(rkeys) | {3, 4, 5}))
        old_ok = len(set(signers) & {A, B}) >= 1; new_ok = len(set(signers) & set(rkeys)) >= thr
        sc = {'nkeys': 6, 'roots': [r1, r2], 'cycles': [{'shipped': 0, 'serve_roots': {'2': 1}, 'consistent': False, 'safe': False, 'timestamp': {'id': 10, 'version': 1, 'signers': [3]},
                                                           'snapshot': {'id': 11, 'version': 1, 'signers': [4]}, 'targets': {'id': 12, 'version': 1, 'signers': [5]}, 'ts_meta': {'version': 1}, 'sn_meta': {'version': 1}}]}
        real = R.replay('history', sc); rc = real['cycles'][0]
        R.differential['scenarios'] += 1
        adopted = rc.get('ok') and rc.get('versions', {}).get('root') == 2
        if adopted and not (old_ok and new_ok):
            R.report_violation(f'root update adopts version 2 ({what}) although it ' + ('does not meet the old root\'s threshold' if not old_ok else 'does not meet its own threshold under its own keys'), sc); found = True; break
        if not adopted and old_ok and new_ok and not rc.get('ok'):
            R.report_violation(f'root update refuses a correctly double-signed version 2 ({what}): {rc.get("msg")}', sc); found = True; break
        R.differential['agree'] += 1
    return found

def finalize(R):
    """replay solver counterexamples natively; report what reproduces"""
    seen = set()
    # per key type: a root signed by its own key (tough's signer; for ECDSA also the fixtures signed by other tooling) verifies, and stops verifying
    # when a signature bit changes.  Model validation on every run, and the replay of the Key::verify wiring counterexamples.
    kt = R.replay('key_types', {})
    R.differential['scenarios'] += kt['cases']; R.differential['agree'] += kt['cases'] - len(kt['deviations'])
    for d in kt['deviations'][:2]:
        R.report_violation('signature verification per key type: ' + d['what'], {'op': 'key_types', 'what': d['what']})
    for cx in R.counterexamples:
        sc = cx.get('scenario')
        if cx.get('site_replayed'): continue
        if not sc or sc.get('kind') != 'verify_role':
            if cx['obligation'].startswith('Key::verify[') and kt['deviations']: continue          # reproduced by the key-type scenarios above
            R.inconclusive.append(f'counterexample for "{cx["obligation"]}" has no replayable scenario'); continue
        key = (sc['which'], cx['group'])
        if key in seen: continue
        seen.add(key)
        res = R.replay('verify_role', sc)
        # native truth: accepted?  spec: distinct authorised present valid signers >= threshold
        spec_accept = sc['has_role'] and res['distinct_valid_authorised'] >= sc['threshold']
        if res['accepted'] != spec_accept:
            what = (f"{sc['which']} verify_role {'ACCEPTS' if res['accepted'] else 'REJECTS'} a document with {res['distinct_valid_authorised']} distinct authorised valid signer(s) "
                    f"against threshold {sc['threshold']} (signature key ids {[s['keyid'] for s in sc['signatures']]}, role keys {sc['role_keyids']})")
            dup = res['accepted'] and len(set(s['keyid'] for s in sc['signatures'])) < len(sc['signatures'])
            R.report_violation(what, sc, finding_key=('delegated-duplicate-signatures' if sc['which'] == 'delegations' and dup else None))
        else:
            R.inconclusive.append(f'counterexample for "{cx["obligation"]}" did not reproduce natively (encoding or model wrong): {sc}')

def replay_file(R, path):
    import json
    sc = json.load(open(path))['scenario']
    if sc.get('op') == 'key_types':
        print(json.dumps(R.replay('key_types', {}))); return 0
    res = R.replay('verify_role', sc); print(json.dumps(res))
    return 0
