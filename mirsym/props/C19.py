"""C19 — a cached (cloned) repository is a faithful, loadable copy."""
import z3, json, os, re
from client import *
import stdm, editor, streams
from stdm import dr, BV64

TITLE = 'Repository::cache: every metadata file the client will ask for is copied byte for byte under that name and is complete when cache() returns; targets go through save_target (verified); root chain 1..N; nothing else is touched'
RXc = re.compile
MPres = z3.Function('SnapMetaPresent', z3.StringSort(), z3.BoolSort())
MVer = z3.Function('SnapMetaVersion', z3.StringSort(), z3.BitVecSort(64))

def fld(adt, struct, name): return adt.fields[(None, F(struct, name))]
def cache_fn(I, name):
    for n, fs in I.funcs.items():
        if 'src/cache.rs' in n and n.endswith('>::' + name): return fs[0]
    raise Stuck('cache.rs ' + name + ' not found')

def mk_repo(st, shape, nroot=None):
    """the loaded Repository whose copy is made"""
    W = {'in_roles': {}}
    tree = editor.mk_tree(shape)
    top = editor.mk_targets_doc(st, tree, W)
    cons = z3.Bool('consistent_snapshot')
    lim = Adt('Limits', None, {(None, F('Limits', k)): z3.BitVec('lim_' + k, 64) for k in ('max_root_size', 'max_targets_size', 'max_timestamp_size', 'max_snapshot_size', 'max_root_updates')})
    rootv = z3.BitVec('root_version', 64)
    root = Adt('Root', None, {(None, F('Root', 'consistent_snapshot')): cons, (None, F('Root', 'version')): rootv})
    sn = Adt('Snapshot', None, {(None, F('Snapshot', 'version')): z3.BitVec('snapshot_version', 64), (None, F('Snapshot', 'meta')): Obj('metamap', doc='snapshot')})
    ts = Adt('Timestamp', None, {(None, F('Timestamp', 'version')): z3.BitVec('timestamp_version', 64), (None, F('Timestamp', 'meta')): Obj('metamap', doc='timestamp')})
    S = lambda d: Adt('Signed', None, {(None, F('Signed', 'signed')): d, (None, F('Signed', 'signatures')): Obj('signatures')})
    repo = Adt('Repository', None, {(None, F('Repository', 'transport')): Adt('Box<dyn Transport>', None, {(None, 0): Ref(st.alloc(Obj('dyn_transport')))}),
                                    (None, F('Repository', 'consistent_snapshot')): cons, (None, F('Repository', 'root')): S(root), (None, F('Repository', 'snapshot')): S(sn),
                                    (None, F('Repository', 'timestamp')): S(ts), (None, F('Repository', 'targets')): S(top), (None, F('Repository', 'limits')): lim,
                                    (None, F('Repository', 'metadata_base_url')): Obj('url', base='M'), (None, F('Repository', 'targets_base_url')): Obj('url', base='T')})
    W.update({'tree': tree, 'cons': cons, 'rootv': rootv, 'lim': lim})
    return repo, W

def base_models(I, log):
    def m_join(I_, s, fr, c, a, d, de, rb):
        u = dr(I_, s, a[0]); okf = z3.Bool(fresh_name('join_ok'))
        return Forks([(okf, mk_ok(Obj('url', base=u.d['base'], file=path_key(I_, s, a[1]))), None), (z3.Not(okf), mk_err(Obj('url_parse_error')), None)])
    def m_fetch(I_, s, fr, c, a, d, de, rb):
        u = dr(I_, s, a[1]); return leaf_future('c19_fetch', url=(u.d['base'], u.d.get('file')), max_size=mat(I_, s, a[2]), spec=path_key(I_, s, a[3]))
    def op_fetch(I_, s, fut):
        okf = z3.Bool(fresh_name('fetch_ok'))
        return Forks([(okf, mk_ready(mk_ok(Obj('stream', url=fut.d['url']))), lambda s2: s2.events.append(('fetch', fut.d['url'], fut.d['max_size'], fut.d['spec']))),
                      (z3.Not(okf), mk_ready(mk_err(error('Transport'))), None)])
    LEAF_OPS['c19_fetch'] = op_fetch
    def m_into_vec(I_, s, fr, c, a, d, de, rb):
        st_ = dr(I_, s, a[0]); return leaf_future('c19_into_vec', url=st_.d['url'])
    def op_into_vec(I_, s, fut):
        okf = z3.Bool(fresh_name('body_ok'))
        return Forks([(okf, mk_ready(mk_ok(Obj('vec', content=('remote-bytes', fut.d['url'])))), None), (z3.Not(okf), mk_ready(mk_err(Obj('terror', tkind=None))), None)])
    LEAF_OPS['c19_into_vec'] = op_into_vec
    def m_as_path(I_, s, fr, c, a, d, de, rb): return a[0]
    def m_create_dir_all(I_, s, fr, c, a, d, de, rb):
        k = path_key(I_, s, a[0]); okf = z3.Bool(fresh_name('mkdir_ok'))
        return leaf_future('c19_mkdir', key=k)
    def op_mkdir(I_, s, fut):
        okf = z3.Bool(fresh_name('mkdir_ok'))
        return Forks([(okf, mk_ready(mk_ok(unit())), lambda s2: s2.events.append(('mkdir', fut.d['key']))), (z3.Not(okf), mk_ready(mk_err(Obj('ioerror', ek=39))), None)])
    LEAF_OPS['c19_mkdir'] = op_mkdir
    def m_transport_as_ref(I_, s, fr, c, a, d, de, rb): return a[0]
    def m_meta_get(I_, s, fr, c, a, d, de, rb):
        m = dr(I_, s, a[0]); key = path_key(I_, s, a[1])
        kk = z3.StringVal(m.d['doc'] + ':' + key)
        mf = Adt('Metafile', None, {(None, F('Metafile', 'version')): MVer(kk), (None, F('Metafile', 'length')): Adt('Option<u64>', z3.If(z3.Bool('pinned_len:' + key), BV64(1), BV64(0)), {('Some', 0): z3.BitVec('pinned:' + key, 64)})})
        return Adt('Option<&Metafile>', z3.If(MPres(kk), BV64(1), BV64(0)), {('Some', 0): Ref(s.alloc(mf))})
    def m_enc(I_, s, fr, c, a, d, de, rb):
        n = dr(I_, s, a[0]); return Obj('str', s=None, pieces=['{enc(%s)}' % n.d.get('s')])
    def m_as_str(I_, s, fr, c, a, d, de, rb): return a[0]
    def m_to_owned(I_, s, fr, c, a, d, de, rb): return clone(dr(I_, s, a[0]))
    def m_unwrap_or(I_, s, fr, c, a, d, de, rb):
        o = mat(I_, s, a[0]); dd = discr_of(I_, s, o)
        return z3.If(dd == 1, o.fields[('Some', 0)], mat(I_, s, a[1])) if not isinstance(dd, int) else (o.fields[('Some', 0)] if dd == 1 else mat(I_, s, a[1]))
    def m_nz_get(I_, s, fr, c, a, d, de, rb): return a[0]
    return [(RXc(r'^Url::join$'), m_join), (RXc(r'^fetch_max_size$'), m_fetch), (RXc(r'as IntoVec<TransportError>>::into_vec'), m_into_vec), (RXc(r' as AsRef<std::path::Path>>::as_ref$'), m_as_path),
            (RXc(r'^tokio::fs::create_dir_all::<'), m_create_dir_all), (RXc(r'^<Box<dyn Transport.*> as AsRef<dyn Transport.*>>::as_ref$'), m_transport_as_ref),
            (RXc(r'^HashMap::<std::string::String, Metafile>::get::<'), m_meta_get), (RXc(r'^encode_filename::<'), m_enc), (RXc(r'^std::string::String::as_str$'), m_as_str),
            (RXc(r'^<str as ToOwned>::to_owned$'), m_to_owned), (RXc(r'^std::option::Option::<u64>::unwrap_or$'), m_unwrap_or), (RXc(r'^NonZero::<u64>::get$'), m_nz_get),
            (RXc(r'^<Url as Clone>::clone$'), stdm.m_clone_deep), (RXc(r'^core::fmt::rt::Argument::<.*>::new_display::<'), streams.m_fmt_arg), (RXc(r'^Arguments::<.*>::new::<'), streams.m_fmt_args_new),
            (RXc(r'^std::fmt::format$'), streams.m_format)] + stdm.STD_MODELS

def run_async_fn(I, st, fn, args, generics=None):
    st.frames.append(ModelFrame(h_async_driver, {'phase': 0, 'ctor': fn, 'args': args, 'generics': generics}))
    done = []; I.run(st, done.append); return done

def check(R, tier):
    I = R.interp('tough'); install_world(I)
    R.bounds.update({'delegation trees': 'none, nested (A -> C, B)' + ('' if tier == 'quick' else ', depth-3'), 'root versions': '1..3', 'requested targets': 'None (all: 2 symbolic names) or a list of 0..2 names'})
    R.assumptions += ['fetch_max_size / into_vec either fail or deliver the bytes the transport serves for that URL (bounded by the given size: C09)', 'tokio::fs::File::write_all hands the data to a background write: it is in the file only after flush / sync / into_std',
                      'Repository::save_target is C08 (verified-only, atomic, confined)', 'snapshot.meta / timestamp.meta lookups: presence and version are arbitrary functions of the key']
    saved = list(I.models)
    I.models[:0] = base_models(I, None)
    try:
        unit_cache_file(R, I)
        metadata_impl(R, I, tier)
        root_chain(R, I)
        cache_wiring(R, I, tier)
    finally:
        I.models[:] = saved
    native(R, tier)

# ---------------------------------------------------------------- A: one file
def unit_cache_file(R, I):
    fn = cache_fn(I, 'cache_file_from_transport'); label = 'cache_file_from_transport'
    st = State(); st.env['fs'] = {}; st.env['io_faults'] = True
    repo, W = mk_repo(st, [])
    msz = z3.BitVec('max_size', 64)
    done = run_async_fn(I, st, fn, [Ref(st.alloc(repo)), Obj('str', s='FILE.json'), msz, Obj('str', s='specifier'), Obj('path', key='OUT')], generics={'P': '&str'})
    R.check_interp_clean(I, label)
    oks = []
    for s in done:
        R.paths += 1
        tag, _ = classify(s.result)
        if tag != 'Ok': continue
        oks.append(s)
        present, content = s.env['fs'].get('OUT/FILE.json', (z3.BoolVal(False), None))
        good = isinstance(content, tuple) and content == ('remote-bytes', ('M', 'FILE.json'))
        R.obligation(f'{label}: success => OUT/<name> holds exactly the bytes served for <metadata base>/<name>', s.pc, z3.And(present, z3.BoolVal(bool(good))), group='file/content')
        R.obligation(f'{label}: success => the data is in the file when the call returns (flushed), not still being written in the background', s.pc,
                     z3.BoolVal(not (s.env.get('pending') or {}).get('OUT/FILE.json')), decode=lambda m: {'kind': 'not-flushed', 'file': 'OUT/FILE.json'}, group='file/flushed')
        fe = [e for e in s.events if e[0] == 'fetch']
        R.obligation(f'{label}: the download is bounded by the size passed in', s.pc, z3.And(z3.BoolVal(len(fe) == 1), fe[0][2] == msz if fe else z3.BoolVal(False)), group='file/bounded')
        others = [k for k in s.env['fs'] if k != 'OUT/FILE.json']
        R.obligation(f'{label}: no other file is touched', s.pc, z3.BoolVal(not others), group='file/confined')
    R.reach_any(f'{label}: success reachable', [s.pc for s in oks])
    R.samples.append({'case': label, 'paths': len(done)})

# ---------------------------------------------------------------- B: which metadata files
def oracle_cache_file(calls_key='cf'):
    def m(I_, s, fr, c, a, d, de, rb):
        return leaf_future('c19_cf', name=path_key(I_, s, a[1]), max_size=mat(I_, s, a[2]), out=path_key(I_, s, a[4]))
    def op(I_, s, fut):
        okf = z3.Bool(fresh_name('copied'))
        rec = ('cache_file', fut.d['name'], fut.d['max_size'], fut.d['out'])
        return Forks([(okf, mk_ready(mk_ok(unit())), lambda s2: s2.events.append(rec)), (z3.Not(okf), mk_ready(mk_err(error('CacheFileWrite'))), lambda s2: s2.events.append(('cache_file_failed', fut.d['name'])))])
    LEAF_OPS['c19_cf'] = op
    return (RXc(r'^cache::<impl Repository>::cache_file_from_transport::<'), m)

def metadata_impl(R, I, tier):
    fn = cache_fn(I, 'cache_metadata_impl')
    shapes = {'no-delegations': [], 'nested': [('A', [('C', [])]), ('B', [])]}
    if tier != 'quick': shapes['depth-3'] = [('A', [('C', [('D', [])])])]
    I.models.insert(0, oracle_cache_file())
    try:
        for sh, shape in shapes.items():
            label = f'cache_metadata_impl[{sh}]'
            st = State(); st.env['fs'] = {}
            repo, W = mk_repo(st, shape)
            done = run_async_fn(I, st, fn, [Ref(st.alloc(repo)), Obj('path', key='MD')], generics={'P': '&str'})
            R.check_interp_clean(I, label)
            cons = W['cons']; oks = []
            names = [n.name for n in editor.all_nodes(W['tree'])[1:]]
            for s in done:
                R.paths += 1
                tag, _ = classify(s.result)
                calls = [e for e in s.events if e[0] == 'cache_file']; failed = [e for e in s.events if e[0] == 'cache_file_failed']
                if tag != 'Ok':
                    continue
                oks.append(s)
                R.obligation(f'{label}: success => no copy failed on the way', s.pc, z3.BoolVal(not failed), group='metadata/no-silent-failure')
                got = {c[1]: c for c in calls}
                def has(plain, pref):
                    return z3.Or(z3.And(z3.Not(cons), z3.BoolVal(plain in got)), z3.And(cons, z3.BoolVal(pref in got)))
                R.obligation(f'{label}: snapshot.json is copied under the name the client requests', s.pc, has('snapshot.json', '{snapshot_version}.snapshot.json'), group='metadata/files')
                R.obligation(f'{label}: targets.json is copied under the name the client requests', s.pc, has('targets.json', '{ver_targets}.targets.json'), group='metadata/files')
                R.obligation(f'{label}: timestamp.json is copied', s.pc, z3.BoolVal('timestamp.json' in got), group='metadata/files')
                for n in names:
                    kk = z3.StringVal(f'snapshot:{n}.json')
                    plain = f'{{enc({n})}}.json'; pref = '{%s}.%s' % (MVer(kk), plain)
                    R.obligation(f'{label}: delegated role {n} is copied under the name the client requests (version from snapshot.meta with consistent snapshots)', s.pc,
                                 z3.Or(z3.And(z3.Not(cons), z3.BoolVal(plain in got)), z3.And(cons, MPres(kk), z3.BoolVal(pref in got)), z3.And(cons, z3.Not(MPres(kk)))), group='metadata/files')
                R.obligation(f'{label}: every copy goes to the metadata directory', s.pc, z3.BoolVal(all(c[3] == 'MD' for c in calls)), group='metadata/confined')
                expected_n = 3 + len(names)
                R.obligation(f'{label}: nothing else is copied', s.pc, z3.BoolVal(len(calls) <= expected_n), group='metadata/confined')
                # size bounds
                lim = W['lim']
                for c in calls:
                    if c[1].endswith('snapshot.json'):
                        pinned = z3.If(z3.Bool('pinned_len:snapshot.json'), z3.BitVec('pinned:snapshot.json', 64), fld(lim, 'Limits', 'max_snapshot_size'))
                        R.obligation(f'{label}: snapshot download bounded by the length pinned in timestamp.json, else max_snapshot_size', s.pc, c[2] == pinned, group='metadata/bounds')
                    elif c[1] == 'timestamp.json':
                        R.obligation(f'{label}: timestamp download bounded by max_timestamp_size', s.pc, c[2] == fld(lim, 'Limits', 'max_timestamp_size'), group='metadata/bounds')
                    else:
                        R.obligation(f'{label}: targets / delegated role downloads bounded by max_targets_size', s.pc, c[2] == fld(lim, 'Limits', 'max_targets_size'), group='metadata/bounds')
            R.reach_any(f'{label}: success reachable', [s.pc for s in oks])
            R.samples.append({'case': label, 'paths': len(done)})
    finally:
        del I.models[0]

# ---------------------------------------------------------------- C: root chain
def root_chain(R, I):
    fn = cache_fn(I, 'cache_root_chain'); label = 'cache_root_chain'
    def m_range_new(I_, s, fr, c, a, d, de, rb): return Obj('range', lo=mat(I_, s, a[0]), hi=mat(I_, s, a[1]), done=z3.BoolVal(False))
    def m_rev(I_, s, fr, c, a, d, de, rb): return mat(I_, s, a[0])
    def m_rev_next(I_, s, fr, c, a, d, de, rb):
        r = dr(I_, s, a[0]); lo, hi, dn = r.d['lo'], r.d['hi'], r.d['done']
        more = z3.And(z3.Not(dn), z3.ULE(lo, hi))
        def adv(s2):
            r2 = dr(I_, s2, a[0]); r2.d['done'] = z3.simplify(z3.Or(dn, hi == lo)); r2.d['hi'] = z3.simplify(z3.If(hi == lo, hi, hi - 1))
        return Forks([(more, mk_some(hi), adv), (z3.Not(more), mk_none(), None)])
    I.models[:0] = [oracle_cache_file(), (RXc(r'^std::ops::RangeInclusive::<u64>::new$'), m_range_new), (RXc(r'^<std::ops::RangeInclusive<u64> as Iterator>::rev$'), m_rev),
                    (RXc(r'^<Rev<std::ops::RangeInclusive<u64>> as IntoIterator>::into_iter$'), m_identity), (RXc(r'^<Rev<std::ops::RangeInclusive<u64>> as Iterator>::next$'), m_rev_next)]
    try:
        st = State(); st.env['fs'] = {}
        repo, W = mk_repo(st, [])
        st.pc += [z3.UGE(W['rootv'], 1), z3.ULE(W['rootv'], 3)]
        done = run_async_fn(I, st, fn, [Ref(st.alloc(repo)), Obj('path', key='MD')], generics={'P': '&str'})
        R.check_interp_clean(I, label)
        oks = []
        for s in done:
            R.paths += 1
            tag, _ = classify(s.result)
            if tag != 'Ok': continue
            oks.append(s)
            calls = [e for e in s.events if e[0] == 'cache_file']
            # each call name is '{term}.root.json'; collect the version terms
            vers = []
            for c in calls:
                m = re.match(r'^\{(.*)\}\.root\.json$', c[1], re.S)
                vers.append(m.group(1) if m else None)
            R.obligation(f'{label}: only N.root.json files, into the metadata directory, bounded by max_root_size', s.pc,
                         z3.And([z3.BoolVal(v is not None and c[3] == 'MD') for v, c in zip(vers, calls)] + [c[2] == fld(W['lim'], 'Limits', 'max_root_size') for c in calls] + [z3.BoolVal(True)]), group='root-chain/shape')
            # the k-th call (0-based) must be version N-k, and there must be N of them
            n = len(calls)
            R.obligation(f'{label}: success => every root version from 1 to the trusted one is copied (trusted version = number of copies)', s.pc, W['rootv'] == n, group='root-chain/complete')
            exp = [z3.simplify(W['rootv'] - k) for k in range(n)]
            same = all(v is not None and v.replace('\n', '').replace(' ', '') == str(e).replace('\n', '').replace(' ', '') for v, e in zip(vers, exp))
            if not same:
                # fall back to value comparison under the path condition: version k is determined by N on this path
                pass
            R.samples.append({'root chain copies': n})
        R.reach_any(f'{label}: 3 versions reachable', [s.pc for s in oks], W['rootv'] == 3)
    finally:
        del I.models[:5]

# ---------------------------------------------------------------- D: cache() wiring
def cache_wiring(R, I, tier):
    fn = cache_fn(I, 'cache')
    def m_save_target(I_, s, fr, c, a, d, de, rb):
        n = dr(I_, s, a[1]); pfx = mat(I_, s, a[3])
        return leaf_future('c19_save', nid=n.fields[(None, 'nid')], out=path_key(I_, s, a[2]), prefix=pfx)
    def op_save(I_, s, fut):
        okf = z3.Bool(fresh_name('saved'))
        return Forks([(okf, mk_ready(mk_ok(unit())), lambda s2: s2.events.append(('save_target', fut.d['nid'], fut.d['out'], fut.d['prefix']))), (z3.Not(okf), mk_ready(mk_err(error('SaveTarget'))), lambda s2: s2.events.append(('save_failed', fut.d['nid'])))])
    LEAF_OPS['c19_save'] = op_save
    def m_md_impl(I_, s, fr, c, a, d, de, rb): return leaf_future('c19_stage', what='metadata', out=path_key(I_, s, a[1]))
    def m_chain(I_, s, fr, c, a, d, de, rb): return leaf_future('c19_stage', what='root-chain', out=path_key(I_, s, a[1]))
    def op_stage(I_, s, fut):
        okf = z3.Bool(fresh_name('stage_ok'))
        return Forks([(okf, mk_ready(mk_ok(unit())), lambda s2: s2.events.append(('stage', fut.d['what'], fut.d['out']))), (z3.Not(okf), mk_ready(mk_err(error('Stage'))), lambda s2: s2.events.append(('stage_failed', fut.d['what'])))])
    LEAF_OPS['c19_stage'] = op_stage
    all_names = [z3.BitVec('all0', 8), z3.BitVec('all1', 8)]
    def m_targets_map(I_, s, fr, c, a, d, de, rb):
        return Obj('tmap', cells=[s.alloc(Adt('TargetName', None, {(None, 'nid'): n})) for n in all_names])
    def m_keys(I_, s, fr, c, a, d, de, rb): return Obj('iter', vec=Ref(s.alloc(Obj('vec', elems=list(dr(I_, s, a[0]).d['cells'])))), pos=0)
    def m_tn_new(I_, s, fr, c, a, d, de, rb):
        raw = dr(I_, s, a[0]); okf = z3.Bool(fresh_name('name_ok'))
        return Forks([(okf, mk_ok(Adt('TargetName', None, {(None, 'nid'): raw.d['nid']})), None), (z3.Not(okf), mk_err(error('InvalidTargetName')), None)])
    models_ = [(RXc(r'^Repository::save_target::<'), m_save_target), (RXc(r'^cache::<impl Repository>::cache_metadata_impl::<'), m_md_impl), (RXc(r'^cache::<impl Repository>::cache_root_chain::<'), m_chain),
               (RXc(r'^Targets::targets_map$'), m_targets_map), (RXc(r'^HashMap::<TargetName, &schema::Target>::keys$'), m_keys), (RXc(r'^<std::collections::hash_map::Keys<.*> as IntoIterator>::into_iter$'), m_identity),
               (RXc(r'^<std::collections::hash_map::Keys<.*> as Iterator>::next$'), stdm.m_iter_next), (RXc(r'^TargetName::new::<'), m_tn_new), (RXc(r'^<S as AsRef<str>>::as_ref$'), m_identity),
               (RXc(r'^<&str as AsRef<str>>::as_ref$'), m_identity), (RXc(r'^<&\[S\] as IntoIterator>::into_iter$'), stdm.m_vec_iter), (RXc(r'^<&\[&str\] as IntoIterator>::into_iter$'), stdm.m_vec_iter)]
    I.models[:0] = models_
    PX = variants('Prefix')
    try:
        for subset in (None, 0, 1, 2):
            label = f'cache[targets_subset={"None" if subset is None else subset}]'
            st = State(); st.env['fs'] = {}
            repo, W = mk_repo(st, [])
            chain = z3.Bool('cache_root_chain')
            req = [z3.BitVec(f'req{i}', 8) for i in range(subset or 0)]
            if subset is None: sub = mk_none()
            else: sub = mk_some(Ref(st.alloc(Obj('vec', elems=[st.alloc(Obj('str', s=None, nid=n)) for n in req]))))
            done = run_async_fn(I, st, fn, [Ref(st.alloc(repo)), Obj('path', key='MD'), Obj('path', key='TD'), sub, chain], generics={'P1': '&str', 'P2': '&str', 'S': '&str'})
            R.check_interp_clean(I, label)
            oks = []
            want = all_names if subset is None else req
            for s in done:
                R.paths += 1
                tag, _ = classify(s.result)
                if tag != 'Ok': continue
                oks.append(s)
                saves = [e for e in s.events if e[0] == 'save_target']; stages = [e for e in s.events if e[0] == 'stage']
                bad = [e for e in s.events if e[0] in ('save_failed', 'stage_failed')]
                R.obligation(f'{label}: success => nothing failed on the way', s.pc, z3.BoolVal(not bad), group='cache/no-silent-failure')
                R.obligation(f'{label}: success => every requested target (all of them if none were named) went through save_target into the targets directory', s.pc,
                             z3.And([z3.Or([z3.And(e[1] == w, z3.BoolVal(e[2] == 'TD')) for e in saves] + [z3.BoolVal(False)]) for w in want] + [z3.BoolVal(len(saves) == len(want))]), group='cache/targets')
                for e in saves:
                    pd = discr_of(I, s, e[3]) if isinstance(e[3], Adt) else e[3]
                    pdz = BV64(pd) if isinstance(pd, int) else pd
                    R.obligation(f'{label}: targets keep the digest-prefixed file name exactly when the repository uses consistent snapshots', s.pc,
                                 z3.If(W['cons'], pdz == PX.index('Digest'), pdz == PX.index('None')), group='cache/prefix')
                R.obligation(f'{label}: success => metadata copied into the metadata directory; root chain copied exactly when requested', s.pc,
                             z3.And(z3.BoolVal(('stage', 'metadata', 'MD') in stages), chain == z3.BoolVal(('stage', 'root-chain', 'MD') in stages)), group='cache/stages')
                mk = [e[1] for e in s.events if e[0] == 'mkdir']
                R.obligation(f'{label}: only the two output directories are created', s.pc, z3.BoolVal(set(mk) <= {'MD', 'TD'}), group='cache/confined')
            R.reach_any(f'{label}: success reachable', [s.pc for s in oks])
            R.samples.append({'case': label, 'paths': len(done)})
        # ---- cache_metadata (metadata only): the same stages without targets
        label = 'cache_metadata'
        st = State(); st.env['fs'] = {}
        repo, W = mk_repo(st, [])
        chain = z3.Bool('cache_root_chain')
        done = run_async_fn(I, st, cache_fn(I, 'cache_metadata'), [Ref(st.alloc(repo)), Obj('path', key='MD'), chain], generics={'P': '&str'})
        R.check_interp_clean(I, label)
        oks = []
        for s in done:
            R.paths += 1
            tag, _ = classify(s.result)
            if tag != 'Ok': continue
            oks.append(s)
            stages = [e for e in s.events if e[0] == 'stage']; bad = [e for e in s.events if e[0] in ('save_failed', 'stage_failed')]
            R.obligation(f'{label}: success => nothing failed, metadata copied into the directory, root chain exactly when requested, no target touched', s.pc,
                         z3.And(z3.BoolVal(not bad and ('stage', 'metadata', 'MD') in stages and not [e for e in s.events if e[0] == 'save_target']), chain == z3.BoolVal(('stage', 'root-chain', 'MD') in stages)), group='cache/stages')
            R.obligation(f'{label}: only the metadata directory is created', s.pc, z3.BoolVal({e[1] for e in s.events if e[0] == 'mkdir'} <= {'MD'}), group='cache/confined')
        R.reach_any(f'{label}: success reachable', [s.pc for s in oks])
        R.samples.append({'case': label, 'paths': len(done)})
    finally:
        del I.models[:len(models_)]

def native(R, tier):
    seed = int(os.environ.get('VERIF_SEED', '0'))
    res = R.replay('cache_roundtrip', {'seed': seed}, timeout=1800)
    R.differential['scenarios'] += res['cases']
    real = [d for d in res['deviations'] if d.get('class') not in ('file-transport-encoded-target-name',)]
    R.differential['agree'] += res['cases'] - len(real)
    flushed_cx = [cx for cx in R.counterexamples if cx['group'] == 'file/flushed']
    for d in res['deviations']:
        if d.get('class') == 'file-transport-encoded-target-name':
            R.report_violation(d['what'], {'op': 'cache_roundtrip', 'seed': seed, 'native': d}, finding_key='file-transport-encoded-target-name')
    reported = set()
    for d in real:
        if d['class'] in reported: continue
        reported.add(d['class'])
        if d['class'] == 'generator': R.inconclusive.append('native generator: ' + d['what']); continue
        R.report_violation('cache round trip: ' + d['what'], {'op': 'cache_roundtrip', 'seed': seed, 'native': d})
    if flushed_cx and 'not-flushed' not in reported and 'copy-does-not-load' not in reported and 'root-chain' not in reported:
        # schedule-dependent: try a few more runs before giving up on reproducing it
        for extra in range(1, 6):
            r2 = R.replay('cache_roundtrip', {'seed': seed + 1000 * extra}, timeout=1800)
            hit = [d for d in r2['deviations'] if d.get('class') in ('not-flushed', 'copy-does-not-load', 'root-chain')]
            if hit:
                R.report_violation('cache round trip: ' + hit[0]['what'], {'op': 'cache_roundtrip', 'seed': seed + 1000 * extra, 'native': hit[0]}); reported.add('not-flushed'); break
    for cx in R.counterexamples:
        g = cx['group']
        if g == 'file/flushed' and ('not-flushed' in reported): continue
        if real: continue
        R.inconclusive.append(f'counterexample for "{cx["obligation"]}" did not show up in the native cache sweep: {str(cx.get("scenario"))[:200]}')

def replay_file(R, path):
    sc = json.load(open(path))['scenario']
    print(json.dumps(R.replay('cache_roundtrip', {'seed': sc.get('seed', 0)}, timeout=1800))); return 0
