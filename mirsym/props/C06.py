"""C06 — target bytes delivered to the caller are exactly the signed content."""
import z3, json, re
from client import *

TITLE = 'read_target yields at most the signed length, ends without error only if the SHA-256 is the signed one, looks the entry up first, uses the digest-prefixed name under consistent snapshots'

TSha = z3.BitVec('signed_sha256', 16); TLen = z3.BitVec('signed_length', 64)

def m_find_target(I, st, fr, callee, args, dty, dest, ret_bb):
    st.events.append(('find_target',))
    tgt = st.alloc(Adt('Target', None, {(None, F('Target', 'length')): TLen,
                                        (None, F('Target', 'hashes')): Adt('Hashes', None, {(None, F('Hashes', 'sha256')): Obj('digest', dig=TSha)})}))
    return mk_result(ok=Ref(tgt), err=error('TargetNotFound'), discr=z3.If(st.env['found'], BV64(0), BV64(1)))
def m_digest_clone(I, st, fr, callee, args, dty, dest, ret_bb): return clone(deref(I, st, args[0]))
def m_into_vec_id(I, st, fr, callee, args, dty, dest, ret_bb): return args[0]
def m_resolved(I, st, fr, callee, args, dty, dest, ret_bb): return Obj('str', s='<resolved>')
def m_hex(I, st, fr, callee, args, dty, dest, ret_bb):
    v = deref(I, st, args[0])
    while isinstance(v, Ref): v = I.deref_load(st, v)
    return Obj('str', s=None, pieces=[('hex', v.d.get('dig'))])
def m_stream_context(I, st, fr, callee, args, dty, dest, ret_bb):
    return Obj('stream', skind='ctx', inner=mat(I, st, args[0]), sel=selector_name(callee))
def m_vec_deref_digest(I, st, fr, callee, args, dty, dest, ret_bb): return args[0]

C06_MODELS = [
    (R(r'^Targets::find_target$'), m_find_target), (R(r'^<Decoded<Hex> as Clone>::clone$'), m_digest_clone), (R(r'^Decoded::<Hex>::into_vec$'), m_into_vec_id),
    (R(r'^<Vec<u8> as Clone>::clone$'), m_digest_clone), (R(r'^TargetName::resolved$'), m_resolved), (R(r'^hex::encode::<'), m_hex),
    (R(r'snafu::futures::TryStreamExt>::context::<'), m_stream_context), (R(r'^std::string::String::as_str$'), m_identity),
    (R(r'^<Box<dyn Transport.*> as AsRef<.*>>::as_ref$'), m_identity),
]

def h_ctx_next(I, st, fr):
    """snafu's Context stream adaptor: items pass through, errors are wrapped with the selector"""
    d = fr.data
    if d['phase'] == 0:
        d['phase'] = 1
        s = I.deref_load(st, d['ref'])
        cell = s.d.get('inner_cell')
        if cell is None: cell = st.alloc(s.d['inner']); s.d['inner_cell'] = cell
        push_stream_next(I, st, Ref(cell)); return [st]
    item = d.pop('ret')
    if item.discr == 0: I.do_return(st, mk_none()); return [st]
    r = item.fields[('Some', 0)]
    if r.discr == 1:
        s = I.deref_load(st, d['ref'])
        I.do_return(st, mk_some(mk_err(error(s.d['sel'], source=r.fields[('Err', 0)])))); return [st]
    I.do_return(st, item); return [st]

def drive_stream(I, st, stream_val, maxitems):
    """pull items until None / Err / maxitems; returns via events ('item', kind, len, content)"""
    cell = st.alloc(stream_val)
    def driver(I_, s, fr):
        d = fr.data
        if 'ret' in d:
            item = d.pop('ret')
            if item.discr == 0: s.events.append(('item', 'end')); I_.do_return(s, Obj('stream_done', how='end')); return [s]
            r = item.fields[('Some', 0)]
            if r.discr == 1:
                s.events.append(('item', 'err', r.fields[('Err', 0)])); I_.do_return(s, Obj('stream_done', how='err', err=r.fields[('Err', 0)])); return [s]
            b = r.fields[('Ok', 0)]; s.events.append(('item', 'ok', b.d['len'], b.d['content'])); d['n'] += 1
            if d['n'] > maxitems: I_.do_return(s, Obj('stream_done', how='unwound')); return [s]
        _push_next(I_, s, Ref(cell)); return [s]
    st.frames.append(ModelFrame(driver, {'n': 0}))

def _push_next(I, st, ref):
    s = I.deref_load(st, ref)
    if isinstance(s, Obj) and s.kind == 'stream' and s.d['skind'] == 'ctx':
        st.frames.append(ModelFrame(h_ctx_next, {'ref': ref, 'phase': 0}))
    else:
        push_stream_next(I, st, ref)

def check(R, tier):
    I = R.interp('tough'); install_world(I)
    nch = 3 if tier == 'thorough' else 2
    R.bounds.update({'transport chunks': f'0..{nch} of any length, an error at any position, or an endless tail after them', 'signed length / digest': 'any'})
    R.assumptions += ['Sha-256 is a function of the sequence of bytes pulled (cryptographic hash trusted)', 'Targets::find_target is an oracle inside read_target and is checked on its own below (C07 harness, shapes flat-2 and nested); expiry prologue is C04 (enforcement off here)',
                      'an endless transport stream is modelled as a tail chunk of 2^63 bytes after the provisioned chunks; single chunks < 2^60 bytes, signed length < 2^62 bytes in the endless runs (byte counts that wrap u64 are outside the claim)']
    P = rt_params(); P['lkt_present'] = z3.BoolVal(False); P['safe'] = z3.BoolVal(False); P['join_fails'] = z3.BoolVal(False)
    P['chunks'] = sym_chunks('t', nch); P['cons'] = z3.Bool('consistent'); P['fetch_err'] = z3.Bool('t_fetch_err')
    for endless in (False, True):
        st = base_state(P); st.env['found'] = P.found
        # byte counts are physical: single chunks below 2^60 bytes (so sums cannot wrap u64); with an endless tail (modelled as one
        # chunk of 2^63 bytes) the signed length is below 2^62
        st.pc += [z3.ULT(c[2], 2 ** 60) for c in P.chunks] + ([z3.ULT(TLen, 2 ** 62)] if endless else [])
        st.env['transport'] = lambda st_, key: {'fetch_err': P.fetch_err, 'fetch_err_kind': P.fetch_err_kind, 'chunks': P.chunks, 'chunk_err_kind': P.chunk_err_kind, 'endless': endless}
        ds_cell = mk_datastore(st)
        repo = st.alloc(Adt('Repository', None, {
            (None, F('Repository', 'datastore')): st.heap[ds_cell], (None, F('Repository', 'earliest_expiration')): z3.Int('earliest'),
            (None, F('Repository', 'earliest_expiration_role')): Adt('RoleType', 0, {}), (None, F('Repository', 'expiration_enforcement')): enforcement(P.safe),
            (None, F('Repository', 'targets')): targets_doc(IDV(13), False), (None, F('Repository', 'consistent_snapshot')): P.cons,
            (None, F('Repository', 'transport')): Obj('dyn_transport'), (None, F('Repository', 'targets_base_url')): Obj('url', key='/t', base='/', rel=['t'])}))
        saved = list(I.models); I.models[:0] = C06_MODELS
        try:
            # phase 1: read_target itself; phase 2: drain the returned stream
            def top(I_, s, fr):
                d = fr.data
                if d['phase'] == 0:
                    d['phase'] = 1
                    ctor = find_fn(I_, 'Repository::read_target')
                    s.frames.append(ModelFrame(h_async_driver, {'phase': 0, 'ctor': ctor, 'args': order_args(ctor, dict(self=Ref(repo), name=Ref(s.alloc(Obj('target_name')))))})); return [s]
                if d['phase'] == 1:
                    res = d.pop('ret'); d['phase'] = 2
                    r = res.fields[('Ready', 0)] if isinstance(res, Adt) and ('Ready', 0) in res.fields else res
                    if r.discr != 0: I_.do_return(s, Obj('rt', how='err', err=r.fields[('Err', 0)])); return [s]
                    o = r.fields[('Ok', 0)]
                    if o.discr == 0: I_.do_return(s, Obj('rt', how='none')); return [s]
                    drive_stream(I_, s, o.fields[('Some', 0)], nch + 1); return [s]
                I_.do_return(s, d.pop('ret')); return [s]
            st.frames.append(ModelFrame(top, {'phase': 0}))
            done = []; I.run(st, done.append)
        finally:
            I.models[:] = saved
        R.check_interp_clean(I, f'read_target(endless={endless})')
        label = 'read_target' + ('[endless tail]' if endless else '')
        for s in done:
            R.paths += 1
            res = s.result; ev = s.events
            items = [e for e in ev if e[0] == 'item']; fetches = [e for e in ev if e[0] == 'fetch']
            oks = [e for e in items if e[1] == 'ok']
            total = z3.BitVecVal(0, 72)            # exact byte count (no wrap-around possible in 72 bits)
            for e in oks: total = total + z3.ZeroExt(8, e[2])
            pc = list(s.pc)
            def dec(m, s=s, oks=oks):
                evl = lambda t: m.eval(t, model_completion=True)
                return {'kind': 'target_stream', 'consistent': bool(z3.is_true(evl(P.cons))), 'signed_length': evl(TLen).as_long(), 'found': bool(z3.is_true(evl(P.found))),
                        'chunk_lens': [evl(c[2]).as_long() for c in P.chunks], 'delivered': [evl(e[2]).as_long() for e in oks]}
            if isinstance(res, Obj) and res.kind == 'rt' and res.d['how'] == 'none':
                R.obligation(f'{label}: "not found" only when the trusted metadata has no authorised entry, and then nothing is fetched', pc,
                             z3.And(z3.Not(P.found), z3.BoolVal(not fetches)), decode=dec, group='lookup/none-no-fetch'); continue
            if isinstance(res, Obj) and res.kind == 'rt': continue       # read_target itself failed (transport error at open, join error)
            R.obligation(f'{label}: data is only served for a name with an authorised entry', pc, P.found, decode=dec, group='lookup/found')
            R.obligation(f'{label}: never more than the signed length is handed to the caller', pc, z3.ULE(total, z3.ZeroExt(8, TLen)), decode=dec, group='stream/length')
            if fetches:
                rel = fetches[0][2]
                good_c = len(rel) == 3 and isinstance(rel[0], tuple) and rel[0][0] == 'hex' and rel[1] == '.' and rel[2] == '<resolved>'
                good_n = len(rel) == 1 and rel[0] == '<resolved>'
                R.obligation(f'{label}: the file fetched is "{{hex(sha256)}}.{{resolved name}}" iff consistent snapshots, else the resolved name', pc,
                             z3.And(P.cons, rel[0][1] == TSha) if good_c else (z3.Not(P.cons) if good_n else z3.BoolVal(False)), decode=dec, group='stream/name')
                R.obligation(f'{label}: exactly one file is fetched', pc, z3.BoolVal(len(fetches) == 1), group='stream/one-fetch')
            if res.d['how'] == 'end':
                dg = [e for e in ev if e[0] == 'digest']
                same_bytes = bool(dg) and tuple(str(x) for x in dg[-1][1]) == tuple(str(e[3]) for e in oks)
                R.obligation(f'{label}: the stream ends without error only if SHA-256(bytes handed out) equals the signed digest', pc,
                             z3.And(z3.BoolVal(same_bytes), dg[-1][2] == TSha) if dg else z3.BoolVal(False), decode=dec, group='stream/digest')
            if res.d['how'] == 'unwound':
                R.obligation(f'{label}: the caller is never handed more items than the transport produced', pc, z3.BoolVal(False), decode=dec, group='stream/bounded')
            if any(e[0] == 'endless_read' for e in ev):
                R.obligation(f'{label}: an endless transport stream cannot end without error', pc, z3.BoolVal(res.d['how'] == 'err'), decode=dec, group='stream/endless')
        R.reach_any(f'{label}: stream ends without error after delivering data', [s.pc for s in done if isinstance(s.result, Obj) and s.result.d.get('how') == 'end' and any(e[0] == 'item' and e[1] == 'ok' for e in s.events)])
        R.reach_any(f'{label}: stream ends in HashMismatch', [s.pc for s in done if isinstance(s.result, Obj) and s.result.d.get('how') == 'err'])
        R.samples.append({'endless': endless, 'paths': len(done)})
    # which entry is "the signed content" of a name: the one Targets::find_target designates (pre-order, own entry first, pruned by the delegated
    # paths).  read_target above takes it from an oracle; the designation itself is C07's harness, run here on two shapes so that this check
    # does not rest on an unverified lookup
    import props.C07 as C07
    saved = list(I.models); I.models[:0] = C07.models_for(I)
    try:
        C07.find_target_obligations(R, I, [('flat-2', False), ('nested', False)])
    except (AttributeError, KeyError, TypeError, IndexError) as e:
        R.inconclusive.append('find_target part stopped on a code shape the harness cannot read: ' + repr(e)[:200])
    finally:
        I.models[:] = saved
    native_validation(R)
    finalize(R)

def native_validation(R):
    """real Repository::read_target on a real repository, transport serving corrupted / truncated / extended / endless / chunked bodies"""
    res = R.replay('target_stream', {'sizes': [0, 1, 5, 4096], 'chunkings': [0, 1, 7]})
    R.differential['scenarios'] += res['cases']; R.differential['agree'] += res['cases'] - len(res['deviations'])
    R.native_dev = res['deviations']

def finalize(R):
    for d in getattr(R, 'native_dev', [])[:2]:
        R.report_violation('read_target: ' + d['what'], d)
    if not R.violations and any(c['group'] in ('preorder-pruned', 'matches-resolved-name', 'not-found-justified') for c in R.counterexamples):
        res = R.replay('delegated_paths', {}, timeout=600)         # the replay of find_target counterexamples (C07's sweep)
        R.differential['scenarios'] += res['cases']; R.differential['agree'] += res['cases'] - len(res['deviations'])
        for d in res['deviations'][:2]:
            R.report_violation('read_target serves the entry of the wrong role: ' + d['what'], {'op': 'delegated_paths', 'what': d['what']})
    if not R.violations:
        for cx in R.counterexamples[:4]:
            R.inconclusive.append(f'counterexample for "{cx["obligation"]}" did not show up in the native target-stream sweep: {str(cx.get("scenario") or cx.get("model"))[:300]}')

def replay_file(R, path):
    print(json.dumps(R.replay('target_stream', {'sizes': [0, 1, 5, 4096], 'chunkings': [0, 1, 7]}))); return 0
