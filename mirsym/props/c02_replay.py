"""Native replay for C02: witnesses from the composed one-cycle relation + differential scenarios."""
import z3
from histreplay import *
import props.C03 as C03

def ref_final(c, shipped):
    cur = shipped; going = z3.BoolVal(True)
    for i, h in enumerate(c.hops):
        acc = z3.And(going, z3.Not(c.env['root']['hop_fetch_err'][i]), V(cur, h), V(h, h), z3.ULT(Ver(cur), Ver(h)))
        cur = z3.If(acc, h, cur); going = acc
    return cur

def finalize(R, I, hops):
    sums = build_summaries(I, hops=hops)
    R.check_interp_clean(I, 'c02 replay summaries')
    reported = False
    if R.counterexamples:
        # a successful cycle whose trusted root is not the reference walk's result, or that adopted a hop not doubly signed / not newer
        shipped, cyc, f = C03.build_history(sums, 1, 'w')
        c = cyc[0]
        bad = [c.root != ref_final(c, shipped), z3.Not(V(shipped, shipped))]
        cur = shipped
        for i, h in enumerate(c.hops):
            on = z3.Or([c.root == x for x in c.hops[i:]])
            bad.append(z3.And(on, z3.Not(z3.And(V(cur, h), V(h, h), z3.ULT(Ver(cur), Ver(h))))))
            cur = z3.If(on, h, cur)
        for b in bad:
            q = f + clean_constraints(cyc, shipped) + [c.ok, b]
            r, s = R._solve(q)
            if r == z3.unknown: R.notes.append('C02 witness query unknown: ' + s.reason_unknown())
            if r == z3.sat: break
        if r == z3.sat:
            sc, pred = decode_history(s.model(), cyc, shipped)
            real = R.replay('history', sc)
            d = agree(pred, real)
            exp_root, names = reference_root_walk(sc, sc['cycles'][0])
            rc = real['cycles'][0]
            if not d and rc['ok'] and (exp_root is None or rc['versions']['root'] != exp_root['version']):
                R.report_violation(f"root walk deviates from the property: trusted root version {rc['versions']['root']}, reference walk " +
                                   ('refuses this chain' if exp_root is None else f"ends at version {exp_root['version']}") + f"; requests {[x[0] for x in rc['requests']]}", sc)
                reported = True
            elif d:
                R.inconclusive.append('C02 witness did not reproduce natively: ' + '; '.join(d) + ' scenario=' + R.save_unreproduced(sc, pred, real))
    # directed chains (always run): the update budget counts in versions, so a hop that jumps 2 000 versions exhausts max_root_updates = 1024;
    # the walk must then FAIL (MaxUpdatesExceeded), not end quietly on that root while a further root is on offer; and plain chains of 1..3 hops
    def root_d(v, signers, rk=0):
        return {'id': v, 'version': v, 'consistent': False, 'table': [0, 1, 2, 3, 4], 'signers': signers,
                'roles': {'root': {'keys': [rk], 'thr': 1}, 'timestamp': {'keys': [1], 'thr': 1}, 'snapshot': {'keys': [2], 'thr': 1}, 'targets': {'keys': [3], 'thr': 1}}}
    def cyc_d(serve):
        return {'shipped': 0, 'serve_roots': serve, 'consistent': False, 'safe': False, 'timestamp': {'id': 10, 'version': 1, 'signers': [1]}, 'snapshot': {'id': 11, 'version': 1, 'signers': [2]},
                'targets': {'id': 12, 'version': 1, 'signers': [3]}, 'ts_meta': {'version': 1}, 'sn_meta': {'version': 1}}
    directed = [('a hop from version 1 to 2000 exhausts the budget of 1024 versions while 2001.root.json is on offer', [root_d(1, [0]), root_d(2000, [0]), root_d(2001, [0])], {'2': 1, '2001': 2}),
                ('shipped root 1 not signed by its own root key (signed by an unrelated key only), 2.root.json doubly signed and on offer', [root_d(1, [5]), root_d(2, [0])], {'2': 1}),
                ('shipped root 1 without any signature, chain 1 -> 2 -> 3 on offer', [root_d(1, []), root_d(2, [0]), root_d(3, [0])], {'2': 1, '3': 2}),
                ('shipped root 1 without its own signature, nothing newer on offer', [root_d(1, [5])], {}),
                ('plain chain 1 -> 2 -> 3 -> 4, then nothing', [root_d(1, [0]), root_d(2, [0]), root_d(3, [0]), root_d(4, [0])], {'2': 1, '3': 2, '4': 3}),
                ('chain 1 -> 2 (key rotated 0 -> 4, doubly signed) -> 3 signed by the new key only', [root_d(1, [0]), root_d(2, [0, 4], rk=4), root_d(3, [4], rk=4)], {'2': 1, '3': 2})]
    for desc, roots, serve in directed:
        sc = {'nkeys': 6, 'roots': roots, 'cycles': [cyc_d(serve)]}
        real = R.replay('history', sc); rc = real['cycles'][0]
        R.differential['scenarios'] += 1
        exp_root, names = reference_root_walk(sc, sc['cycles'][0])
        bad = (rc['ok'] and (exp_root is None or rc['versions']['root'] != exp_root['version'])) or (not rc['ok'] and exp_root is not None)
        if bad and not reported:
            R.report_violation(f"root walk deviates from the property on a directed chain ({desc}): " + (f"trusted root version {rc['versions']['root']}" if rc['ok'] else f"refused with {rc.get('err')}") + ', reference walk ' +
                               ('refuses this chain' if exp_root is None else f"ends at version {exp_root['version']}"), sc); reported = True
        elif not bad: R.differential['agree'] += 1
    # differential scenarios: always run (encoder validation); deviations from the reference are violations
    for desc, sc in differential(R, sums, 1, max_models=(8 if R.tier == 'quick' else 24), label='C02 differential'):
        if not reported:
            R.report_violation('root walk deviates from the reference on a solver-chosen scenario: ' + desc, sc); reported = True
    if R.counterexamples and not reported and not R.inconclusive:
        for cx in R.counterexamples[:3]:
            R.inconclusive.append(f'counterexample for "{cx["obligation"]}" could not be reproduced natively: {str(cx.get("scenario") or cx.get("model"))[:300]}')
