"""C16 — role names never steer file access outside the metadata directories, nor collide."""
import z3, re, json, itertools, urllib.parse
from client import *
import deleg

TITLE = 'encode_filename output is one plain path component for every role name, is injective, and is what every site uses to build file names'
B8 = lambda v: z3.BitVecVal(v, 8)
RX = re.compile
ALNUM = set(range(0x30, 0x3a)) | set(range(0x41, 0x5b)) | set(range(0x61, 0x7b))

def ev_remove(I, st, args):
    s = args[0]
    while isinstance(s, Ref): s = I.deref_load(st, s)
    b = z3.simplify(I.as_z3(st, args[1])).as_long()
    return Obj('asciiset', members=frozenset(members_of(s)) - {b})
def ev_add(I, st, args):
    s = args[0]
    while isinstance(s, Ref): s = I.deref_load(st, s)
    b = z3.simplify(I.as_z3(st, args[1])).as_long()
    return Obj('asciiset', members=frozenset(members_of(s)) | {b})
def members_of(s):
    if isinstance(s, Obj) and s.kind == 'asciiset': return s.d['members']
    if isinstance(s, Obj) and s.kind == 'item':
        base = {'percent_encoding::NON_ALPHANUMERIC': frozenset(range(0x80)) - ALNUM, 'percent_encoding::CONTROLS': frozenset(list(range(0x20)) + [0x7f])}
        p = s.d['path'].replace('&', '').strip()
        if p in base: return base[p]
    raise Stuck('AsciiSet value ' + repr(s)[:60])

def m_as_ref_str(I, st, fr, callee, args, dty, dest, ret_bb):
    v = deref(I, st, args[0])
    while isinstance(v, Ref): v = I.deref_load(st, v)
    return v
def m_percent_encode(I, st, fr, callee, args, dty, dest, ret_bb):
    s = deref(I, st, args[0])
    while isinstance(s, Ref): s = I.deref_load(st, s)
    aset = deref(I, st, args[1])
    while isinstance(aset, Ref): aset = I.deref_load(st, aset)
    st.events.append(('percent_encode', frozenset(members_of(aset))))
    return Obj('percent_encode', of=s, aset=frozenset(members_of(aset)))
def m_pe_to_string(I, st, fr, callee, args, dty, dest, ret_bb):
    pe = deref(I, st, args[0])
    src = pe.d['of']
    if src.d.get('data') is not None:
        return Obj('str', s=None, data_enc=(src.d['data'], pe.d['aset']), pieces=[('enc', src.d.get('tag', 'name'))])
    return Obj('str', s=None, pieces=['enc(%s)' % src.d.get('s')], enc_of=src.d.get('s'), aset=pe.d['aset'])

C16_MODELS = [
    (R(r'^<S as AsRef<str>>::as_ref$'), m_as_ref_str), (R(r'^<&?std::string::String as AsRef<str>>::as_ref$'), m_as_ref_str), (R(r'^<&str as AsRef<str>>::as_ref$'), m_as_ref_str),
    (R(r'^utf8_percent_encode$'), m_percent_encode), (R(r'^<PercentEncode<.*> as ToString>::to_string$'), m_pe_to_string),
]

def enc_bytes(data, aset, pattern):
    """output byte terms for an input under a kept/escaped pattern, plus the condition that the pattern is the real one"""
    out = []; cond = []
    def inset(b): return z3.Or([b == m for m in sorted(aset)] + [z3.BoolVal(False)])
    def hexd(n):    # upper-case hex digit of a 4-bit term
        return z3.If(z3.ULT(n, 10), z3.ZeroExt(4, n) + 0x30, z3.ZeroExt(4, n) + 0x37)
    for b, kept in zip(data, pattern):
        is_kept = z3.And(z3.ULT(b, 0x80), z3.Not(inset(b)))
        cond.append(is_kept if kept else z3.Not(is_kept))
        if kept: out.append(b)
        else: out += [B8(0x25), hexd(z3.Extract(7, 4, b)), hexd(z3.Extract(3, 0, b))]
    return out, cond

def safe_component_byte(b):
    """what may appear in a plain file-name component that is also inert in a relative URL reference"""
    return z3.Or(z3.And(z3.UGE(b, 0x30), z3.ULE(b, 0x39)), z3.And(z3.UGE(b, 0x41), z3.ULE(b, 0x5a)), z3.And(z3.UGE(b, 0x61), z3.ULE(b, 0x7a)),
                 b == 0x5f, b == 0x2e, b == 0x2d, b == 0x7e, b == 0x25)

def check(R, tier):
    I = R.interp('tough'); install_world(I)
    I.const_calls = [(re.compile(r'^AsciiSet::remove$'), ev_remove), (re.compile(r'^AsciiSet::add$'), ev_add)]
    if not getattr(I, '_c16_const', False):
        orig_const = I.const
        def const2(st, frame, text, ty_hint=None):
            t = text.strip()
            if t in ('percent_encoding::NON_ALPHANUMERIC', 'percent_encoding::CONTROLS'):      # &'static AsciiSet of the percent-encoding crate (documented contents)
                return Ref(st.alloc(Obj('asciiset', members=members_of(Obj('item', path=t)))))
            return orig_const(st, frame, text, ty_hint)
        I.const = const2; I._c16_const = True
    maxlen = 3 if tier == 'quick' else 4
    R.bounds.update({'role name length': f'0..{maxlen} arbitrary bytes (every byte value)', 'injectivity': 'pairs of names of length <= 2 (quick) / 3 (thorough)',
                     'sites': 'encode_filename, DelegatedTargets::filename, Repository::delegated_filename, load_delegations (URL and datastore path)'})
    R.assumptions += ['utf8_percent_encode(s, SET).to_string(): a byte is kept iff it is ASCII and not in SET, otherwise written as %XX with upper-case hex digits (validated natively for all names of length <= 2 over the full byte alphabet that is valid UTF-8 and a 14-symbol hazard alphabet up to length 3)',
                      'percent_encoding::NON_ALPHANUMERIC = all ASCII bytes that are not letters or digits; AsciiSet::remove/add are set operations',
                      'Url::join leaves a relative reference made only of [A-Za-z0-9_.~%-] unchanged unless it is "." or ".." (file names always carry a ".json" suffix)']
    saved = list(I.models); I.models[:0] = C16_MODELS
    try:
        fn = find_fn(I, 'encode_filename')
        aset = None
        for L in range(0, maxlen + 1):
            st = State(); st.env['fs'] = {}
            data = [z3.BitVec(f'n{j}', 8) for j in range(L)]
            I.push_call(st, fn, [Obj('str', s=None, data=data, tag='name')], None, None, generics={'S': 'S'})
            done = []; I.run(st, done.append)
            R.check_interp_clean(I, f'encode_filename(len {L})')
            for s in done:
                R.paths += 1
                res = s.result
                ok_shape = isinstance(res, Obj) and res.kind == 'str' and res.d.get('data_enc') is not None and all(z3.eq(a, b) for a, b in zip(res.d['data_enc'][0], data))
                R.obligation(f'encode_filename(len {L}): the result is the percent-encoding of exactly the role name', s.pc, z3.BoolVal(bool(ok_shape)), group='encode/is-percent-encoding')
                if not ok_shape: continue
                aset = res.d['data_enc'][1]
                for pattern in itertools.product((True, False), repeat=L):
                    out, cond = enc_bytes(data, aset, pattern)
                    def dec(m, data=data): return {'kind': 'name', 'bytes': [m.eval(b, model_completion=True).as_long() for b in data]}
                    R.obligation(f'encode_filename(len {L}): every output byte is a letter, digit or one of _ . - ~ % (no separator, no NUL, no URL syntax, no control or non-ASCII byte)',
                                 list(s.pc) + cond, z3.And([safe_component_byte(b) for b in out] + [z3.BoolVal(True)]), decode=dec, group='encode/safe-bytes')
                    if L == maxlen and (all(pattern) or not any(pattern)):
                        # vacuity witnesses: names whose bytes are all escaped / all kept exist (the case split is not empty on either side)
                        R.reach(f'encode_filename(len {L}): a name whose bytes are all ' + ('kept' if all(pattern) else 'escaped') + ' exists', list(s.pc) + cond)
                if L == 1:
                    R.reach('encode_filename: "/" is a possible input byte and is escaped', list(s.pc) + [data[0] == 0x2f] + enc_bytes(data, aset, (False,))[1])
        R.samples.append({'escape set size': len(aset) if aset else None, 'kept ASCII': ''.join(chr(c) for c in range(0x80) if aset is not None and c not in aset)})
        if aset is not None:
            R.obligation('the escape set contains % (so that escapes cannot be forged) and every path/URL-significant ASCII byte', [],
                         z3.BoolVal(all(c in aset for c in b'%/\\?#: \x00\x7f') and all(c in aset for c in range(0x20))), group='encode/set')
            R.obligation('the escape set is exactly everything but letters, digits and _ . - ~ (RFC 3986 unreserved; what urllib.parse.quote(name, safe="") keeps)', [],
                         z3.BoolVal(set(range(0x80)) - set(aset) == ALNUM | set(b'_.-~')), group='encode/set-exact')
            # injectivity: different names never encode to the same string
            ilen = 2 if tier == 'quick' else 3
            for la in range(0, ilen + 1):
                for lb in range(la, ilen + 1):
                    a = [z3.BitVec(f'a{j}', 8) for j in range(la)]; b = [z3.BitVec(f'b{j}', 8) for j in range(lb)]
                    differ = z3.BoolVal(True) if la != lb else z3.Or([x != y for x, y in zip(a, b)] + [z3.BoolVal(False)])
                    for pa in itertools.product((True, False), repeat=la):
                        for pb in itertools.product((True, False), repeat=lb):
                            oa, ca = enc_bytes(a, aset, pa); ob, cb = enc_bytes(b, aset, pb)
                            if len(oa) != len(ob): continue
                            R.obligation(f'injective: names of length {la} and {lb} with the same encoding are the same name', ca + cb + [differ],
                                         z3.Or([x != y for x, y in zip(oa, ob)] + [z3.BoolVal(False)]),
                                         decode=lambda m, a=a, b=b: {'kind': 'collision', 'a': [m.eval(x, model_completion=True).as_long() for x in a], 'b': [m.eval(x, model_completion=True).as_long() for x in b]},
                                         group='encode/injective')
        # ---- sites
        sites(R, I)
    finally:
        I.models[:] = saved
    file_transport(R, I)
    native_validation(R, tier)
    finalize(R)

def sites(R, I):
    """every place that turns a delegated role name into a file name does it through encode_filename"""
    # DelegatedTargets::filename (schema): both consistent settings
    fn = None
    for n, fs in I.funcs.items():
        if n.endswith('::filename') and 'schema/mod.rs' in n:
            st_, tr_ = I.find_impl_self(n)
            if st_ == 'DelegatedTargets': fn = fs[0]
    if fn is None: raise Stuck('DelegatedTargets::filename not found')
    for cons in (True, False):
        st = State(); st.env['fs'] = {}
        ver = z3.BitVec('role_version', 64)
        tg = Adt('Targets', None, {(None, F('Targets', 'version')): ver})
        dt = st.alloc(Adt('DelegatedTargets', None, {(None, F('DelegatedTargets', 'name')): Obj('str', s='ROLE'), (None, F('DelegatedTargets', 'targets')): tg}))
        I.push_call(st, fn, [Ref(dt), z3.BoolVal(cons)], None, None)
        done = []; I.run(st, done.append); R.check_interp_clean(I, 'DelegatedTargets::filename')
        for s in done:
            R.paths += 1
            ps = pieces_of(s.result) if isinstance(s.result, Obj) else []
            want = (len(ps) == 4 and z3.is_bv(ps[0]) and z3.eq(ps[0], ver) and ps[1:] == ['.', 'enc(ROLE)', '.json']) if cons else ps == ['enc(ROLE)', '.json']
            R.obligation(f'DelegatedTargets::filename(consistent={cons}) = ' + ('"{version}.{encode_filename(name)}.json"' if cons else '"{encode_filename(name)}.json"'), s.pc, z3.BoolVal(bool(want)),
                         decode=lambda m, ps=ps: {'kind': 'site', 'site': 'DelegatedTargets::filename', 'pieces': [str(p) for p in ps]}, group='site/schema-filename')
    # Repository::delegated_filename (cache)
    fn = None
    for n, fs in I.funcs.items():
        if n.endswith('::delegated_filename') and 'cache.rs' in n: fn = fs[0]
    if fn is None: raise Stuck('Repository::delegated_filename not found')
    for cons in (True, False):
        st = State(); st.env['fs'] = {}
        sn = snapshot_doc(IDV(12), extra_slots={'ROLE.json': 2})
        repo = st.alloc(Adt('Repository', None, {(None, F('Repository', 'root')): Adt('Signed<Root>', None, {(None, F('Signed', 'signed')): Adt('Root', None, {(None, F('Root', 'consistent_snapshot')): z3.BoolVal(cons)})}),
                                                 (None, F('Repository', 'snapshot')): sn}))
        I.push_call(st, fn, [Ref(repo), Obj('str', s='ROLE')], None, None)
        done = []; I.run(st, done.append); R.check_interp_clean(I, 'Repository::delegated_filename')
        for s in done:
            R.paths += 1
            r = s.result
            if not (isinstance(r, Adt) and r.discr == 1): continue
            ps = pieces_of(r.fields[('Some', 0)])
            want = (len(ps) == 4 and z3.is_bv(ps[0]) and z3.eq(ps[0], MVer(IDV(12), IDV(2))) and ps[1:] == ['.', 'enc(ROLE)', '.json']) if cons else ps == ['enc(ROLE)', '.json']
            R.obligation(f'Repository::delegated_filename(consistent={cons}) uses the snapshot-listed version and the encoded name', s.pc, z3.BoolVal(bool(want)),
                         decode=lambda m, ps=ps: {'kind': 'site', 'site': 'Repository::delegated_filename', 'pieces': [str(p) for p in ps]}, group='site/cache-filename')
            lk = [e for e in s.events if e[0] == 'meta.get']
            if cons: R.obligation('Repository::delegated_filename looks the role up in the snapshot under "{name}.json"', s.pc, z3.BoolVal(len(lk) == 1 and lk[0][2] == 'ROLE.json'), group='site/cache-lookup')
    # load_delegations: URL and datastore path
    T = deleg.Tree({'a': None}); P = deleg.dparams(T)
    paths = deleg.summarize_load_delegations(I, T, P); R.check_interp_clean(I, 'load_delegations')
    for p in paths:
        if not p.ok: continue
        R.paths += 1
        f = p.ev('fetch')[0]; rel = [str(x) if not isinstance(x, str) else x for x in f[2]]
        stored_keys = [k for k in p.fs if 'enc(a)' in k]
        R.obligation('load_delegations: the datastore file of a delegated role is named like the file requested (encoded role name), directly inside the datastore', p.pc,
                     z3.BoolVal(any('enc(a)' in x for x in rel) and len(stored_keys) >= 1 and all(k.count('/') == 2 and k.startswith('/ds/') for k in stored_keys) and not any('/ds/a.json' == k for k in p.fs)),
                     group='site/client-datastore')
        R.obligation('load_delegations: encode_filename is applied to the role name for the request', p.pc, z3.BoolVal(any(e[0] == 'encode_filename' and e[1] == 'a' for e in p.events)), group='site/client-url')

def file_transport(R, I):
    """FilesystemTransport::fetch (and SafeUrlPath::safe_url_filepath, FilesystemTransport::open) from MIR: the only file-system access is one open of the
    path component of the URL taken verbatim — never a percent-decoded spelling of it, which could turn `..%2F` back into a traversal or make the
    file of role `a/b` answer for role `a%2Fb` — and a URL of another scheme touches nothing."""
    import stdm
    from deleg import m_box_pin
    fn = None
    for n, fs in I.funcs.items():
        if 'transport.rs' in n and n.endswith('>::fetch') and fs[0].args.startswith('_1: &FilesystemTransport'): fn = fs[0]
    if fn is None: raise Stuck('FilesystemTransport::fetch not found in the MIR')
    is_file = z3.Bool('scheme_is_file')
    st = State(); st.env['fs'] = {}
    def m_scheme(I_, s, fr, c, a, d, de, rb): return Obj('str', s=None, tag='scheme')
    def m_str_ne(I_, s, fr, c, a, d, de, rb):
        x = dr2(I_, s, a[0]); y = dr2(I_, s, a[1])
        tags = [v.d.get('tag') for v in (x, y) if isinstance(v, Obj)]; lits = [v.d.get('s') for v in (x, y) if isinstance(v, Obj)]
        if 'scheme' in tags and 'file' in lits: return z3.Not(is_file) if c.endswith('::ne') else is_file
        raise Stuck(f'string comparison {x!r} / {y!r}')
    def dr2(I_, s, v):
        v = mat(I_, s, v)
        while isinstance(v, Ref): v = mat(I_, s, I_.deref_load(s, v))
        return v
    def m_url_path(I_, s, fr, c, a, d, de, rb): return Obj('str', s=None, tag='url.path() verbatim')
    def m_pathbuf_from(I_, s, fr, c, a, d, de, rb): return Obj('path', key=dr2(I_, s, a[0]).d.get('tag') or dr2(I_, s, a[0]).d.get('s'))
    def m_to_file_path(I_, s, fr, c, a, d, de, rb):
        okf = z3.Bool(fresh_name('to_file_path_ok'))
        return Forks([(okf, mk_ok(Obj('path', key='url.to_file_path() percent-DECODED')), None), (z3.Not(okf), mk_err(unit()), None)])
    def key_of(I_, s, v):
        v = dr2(I_, s, v); return v.d.get('key') if isinstance(v, Obj) else repr(v)
    def m_open(I_, s, fr, c, a, d, de, rb): return leaf_future('c16_fs', what='open', key=key_of(I_, s, a[0]))
    def m_probe(I_, s, fr, c, a, d, de, rb): return leaf_future('c16_fs', what=c.split('::<')[0].split('::')[-1], key=key_of(I_, s, a[0]))
    def op_fs(I_, s, fut):
        okf = z3.Bool(fresh_name(fut.d['what'] + '_ok')); ev = lambda s2: s2.events.append(('fs', fut.d['what'], fut.d['key']))
        if fut.d['what'] == 'open':
            return Forks([(okf, mk_ready(mk_ok(Obj('file', key=fut.d['key']))), ev), (z3.Not(okf), mk_ready(mk_err(Obj('ioerror', ek=None))), ev)])
        yes = z3.Bool(fresh_name('exists'))
        return Forks([(z3.And(okf, yes), mk_ready(mk_ok(z3.BoolVal(True))), ev), (z3.And(okf, z3.Not(yes)), mk_ready(mk_ok(z3.BoolVal(False))), ev), (z3.Not(okf), mk_ready(mk_err(Obj('ioerror', ek=None))), ev)])
    LEAF_OPS['c16_fs'] = op_fs
    def m_wrap(I_, s, fr, c, a, d, de, rb): return Obj('stream', of=mat(I_, s, a[0]))
    def m_map_err(I_, s, fr, c, a, d, de, rb):
        v = mat(I_, s, a[0]); dd = discr_of(I_, s, v)
        return mk_result(ok=get_field(I_, s, v, 'Ok', 0), err=Obj('terror', tkind=None), discr=dd)
    def m_terr_new(I_, s, fr, c, a, d, de, rb): return Obj('terror', tkind='UnsupportedUrlScheme')
    def m_unwrap_or(I_, s, fr, c, a, d, de, rb):
        v = mat(I_, s, a[0]); dd = discr_of(I_, s, v); dflt = mat(I_, s, a[1]); okv = get_field(I_, s, v, 'Ok', 0)
        if isinstance(dd, int): return okv if dd == 0 else dflt
        return Forks([(dd == 0, okv, None), (dd != 0, dflt, None)])
    ms = [(RX(r'^Url::scheme$'), m_scheme), (RX(r'^<&str as PartialEq>::(ne|eq)$'), m_str_ne), (RX(r'^Url::path$'), m_url_path), (RX(r'^<std::path::PathBuf as From<&str>>::from$'), m_pathbuf_from),
          (RX(r'^Url::to_file_path$'), m_to_file_path), (RX(r'^tokio::fs::File::open::<'), m_open), (RX(r'^(tokio::fs::)?(try_exists|metadata|symlink_metadata|canonicalize|read_link)::<'), m_probe),
          (RX(r'^tokio::io::BufReader::<.*>::new$'), m_wrap), (RX(r'^ReaderStream::<.*>::new$'), m_wrap), (RX(r'^std::result::Result::<ReaderStream<.*>, std::io::Error>::map_err::<'), m_map_err),
          (RX(r'as futures::TryStreamExt>::map_err::<'), m_wrap), (RX(r'as StreamExt>::boxed::<'), m_wrap), (RX(r'^TransportError::new::<'), m_terr_new), (RX(r'^<\{closure@.*transport\.rs.*\} as Clone>::clone$'), stdm.m_clone_deep),
          (RX(r'^std::result::Result::<bool, std::io::Error>::unwrap_or$'), m_unwrap_or), (RX(r'^Box::<\{async block@.*\}>::pin$'), m_box_pin)]
    saved = list(I.models); I.models[:0] = ms
    try:
        st.frames.append(ModelFrame(h_async_driver, {'phase': 0, 'ctor': fn, 'args': [Ref(st.alloc(Obj('fs_transport'))), Obj('url', key='U')], 'generics': None}))
        done = []; I.run(st, done.append)
    finally:
        I.models[:] = saved
    R.check_interp_clean(I, 'FilesystemTransport::fetch')
    oks = []
    for s in done:
        R.paths += 1
        try: tag, _ = classify(s.result)
        except (KeyError, AttributeError, TypeError): tag = 'unreadable'
        fs = [e for e in s.events if e[0] == 'fs']
        R.obligation('FilesystemTransport::fetch: the file system is accessed at most once, by opening the path component of the URL taken verbatim (no percent-decoded spelling is opened or probed)', s.pc,
                     z3.BoolVal(len(fs) <= 1 and all(e[1] == 'open' and e[2] == 'url.path() verbatim' for e in fs)), group='file-transport/verbatim-path')
        R.obligation('FilesystemTransport::fetch: a URL whose scheme is not file touches nothing and is refused', s.pc, z3.Implies(z3.Not(is_file), z3.BoolVal(not fs and tag != 'Ok')), group='file-transport/scheme')
        if tag == 'Ok':
            oks.append(s)
            R.obligation('FilesystemTransport::fetch: Ok => the file was opened', s.pc, z3.BoolVal(len(fs) == 1), group='file-transport/verbatim-path')
    R.reach_any('FilesystemTransport::fetch: a successful fetch is reachable', [s.pc for s in oks])
    R.samples.append({'function': 'FilesystemTransport::fetch', 'paths': len(done)})

def native_validation(R, tier):
    hazard = ['/', '\\', '.', '%', '?', '#', ':', ' ', '\x01', '\x7f', 'é', 'a', 'Z', '0']
    names = [''] + [chr(c) for c in range(1, 0x80)] + ['é', '€', '😀', '..', '.', 'a.json', '%2e%2e', '%2F', 'a/b', '../x', 'timestamp', 'targets', 'a b', 'A~_-.z']
    names += [''.join(t) for r in (2, 3) for t in itertools.product(hazard, repeat=r)]
    names = list(dict.fromkeys(names))
    res = R.replay('filenames', {'names': names})
    outs = res['filenames']
    dev = []
    seen = {}
    for n, o in zip(names, outs):
        R.differential['scenarios'] += 1
        exp = urllib.parse.quote(n, safe='') + '.json'
        bad = None
        if o != exp: bad = f'role name {n!r}: file name {o!r}, reference {exp!r}'
        elif '/' in o or '\\' in o or '\x00' in o or o in ('.', '..'): bad = f'role name {n!r}: file name {o!r} is not a plain path component'
        elif o in seen and seen[o] != n: bad = f'role names {seen[o]!r} and {n!r} map to the same file {o!r}'
        seen.setdefault(o, n)
        if bad: dev.append(bad)
        else: R.differential['agree'] += 1
    # end to end: cache() and load() of a repository whose delegated roles have hazardous names, both consistent settings
    e2e = R.replay('cache_roles', {'roles': ['plain', '../x', 'a/b', '/../../y', 'a.json#', 'q?x', 'a%2Fb', 'sp ace', 'ü', '.', '..', 'c:d', 'b\\c']}, timeout=300)
    R.differential['scenarios'] += e2e['cases']; R.differential['agree'] += e2e['cases'] - len(e2e['deviations'])
    ft = R.replay('file_transport', {'names': ['a/b', '../x', '../../y', 'a%2Fb', 'sp ace', 'ü', 'q?x', 'a#b', 'c:d', 'b\\c', '%2e%2e/z', 'x/../../w']}, timeout=120)
    R.differential['scenarios'] += ft['cases']; R.differential['agree'] += ft['cases'] - len(ft['deviations'])
    R.native_dev = dev[:3] + [d['what'] for d in e2e['deviations'][:3]] + [d['what'] for d in ft['deviations'][:3]]

def finalize(R):
    for d in getattr(R, 'native_dev', [])[:3]:
        R.report_violation('role file names: ' + d, {'what': d})
    if not R.violations:
        for cx in R.counterexamples[:3]:
            R.inconclusive.append(f'counterexample for "{cx["obligation"]}" did not show up natively: {str(cx.get("scenario") or cx.get("model"))[:300]}')

def replay_file(R, path):
    print(json.dumps(json.load(open(path)))); return 0
