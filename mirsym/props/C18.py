"""C18 — HTTP transport yields exactly the resource bytes or an error; retries bounded."""
import z3, json, re
from sym import *
import models, streams
from models import *
from streams import *
from layout import F, variants

TITLE = 'RetryStream: contiguous bytes of the resource, complete at end, Range only after Accept-Ranges, 403/404/410 = FileNotFound, other 4xx fatal, requests <= tries'
BV64 = lambda v: z3.BitVecVal(v, 64)
STATUSES = (200, 500, 503, 403, 404, 410, 400, 416)

class Script:
    """the server: response i has a status, may announce byte ranges, and for a 200 a body of <= NCH chunks that may break off"""
    def __init__(self, n, nch):
        self.n, self.nch = n, nch
        self.L = z3.BitVec('resource_len', 64)
        self.srv_ranges = z3.Bool('server_honours_ranges')
        self.status = [z3.BitVec(f'r{i}_status', 16) for i in range(n)]
        self.announce = [z3.Bool(f'r{i}_announces_ranges') for i in range(n)]
        self.exec_err = [z3.Bool(f'r{i}_request_fails') for i in range(n)]           # no response at all (timeout / connection error / internal)
        self.err_timeout = [z3.Bool(f'r{i}_err_is_timeout') for i in range(n)]
        self.err_request = [z3.Bool(f'r{i}_err_is_request') for i in range(n)]
        self.tail_break = [z3.Bool(f'r{i}_body_breaks_after_chunks') for i in range(n)]
        self.tail_timeout = [z3.Bool(f'r{i}_tail_err_is_timeout') for i in range(n)]
        self.chunks = [[(z3.Bool(f'r{i}c{j}_exists'), z3.Bool(f'r{i}c{j}_breaks'), z3.Bool(f'r{i}c{j}_err_timeout'), z3.Bool(f'r{i}c{j}_err_request'),
                         z3.BitVec(f'r{i}c{j}_len', 64)) for j in range(nch)] for i in range(n)]
    def constraints(self):
        cs = [z3.ULE(self.L, 256 * 1024)]
        for i in range(self.n):
            cs.append(z3.Or([self.status[i] == s for s in STATUSES]))
            cs.append(z3.Implies(self.announce[i], self.srv_ranges))         # a server that does not honour ranges does not announce them
            for c in self.chunks[i]: cs += [z3.ULT(c[4], 2 ** 40), z3.UGE(c[4], 1)]
        return cs

def install(I, S, st):
    """reqwest / tokio / http models driven by the script"""
    def m_client_builder(I_, s, fr, callee, args, dty, dest, ret_bb): return Obj('client_builder')
    def m_builder_build(I_, s, fr, callee, args, dty, dest, ret_bb): return mk_ok(Obj('client'))
    def m_client_request(I_, s, fr, callee, args, dty, dest, ret_bb): return Obj('request_builder', range=None)
    def m_rb_header(I_, s, fr, callee, args, dty, dest, ret_bb):
        rb = mat(I_, s, args[0]); hv = mat(I_, s, args[2])
        return Obj('request_builder', range=hv.d.get('range'), header=mat(I_, s, args[1]))
    def m_rb_build(I_, s, fr, callee, args, dty, dest, ret_bb):
        rb = mat(I_, s, args[0]); return mk_ok(Obj('request', range=rb.d.get('range')))
    def m_header_from_str(I_, s, fr, callee, args, dty, dest, ret_bb):
        v = deref(I_, s, args[0])
        while isinstance(v, Ref): v = I_.deref_load(s, v)
        ps = pieces_of(v)
        rng = ps[1] if len(ps) == 3 and ps[0] == 'bytes=' and ps[2] == '-' else ('malformed', ps)
        return mk_ok(Obj('header_value', range=rng))
    def m_sleep(I_, s, fr, callee, args, dty, dest, ret_bb): return leaf_future('ready', val=unit())
    def m_execute(I_, s, fr, callee, args, dty, dest, ret_bb):
        req = mat(I_, s, args[1]); return leaf_future('http_execute', req=req)
    def op_http_execute(I_, s, fut):
        i = s.env['nreq']
        rng = fut.d['req'].d.get('range')
        if i >= S.n:
            # more requests than the script has responses (the script is longer than `tries`, so the request bound is already broken on this path): cut the path here with a fatal request error
            s.env['nreq'] = i + 1; s.events.append(('http.request', i, rng)); s.events.append(('beyond_script', i))
            return mk_ready(mk_err(Obj('reqwest_error', i=i, status=None, timeout=z3.BoolVal(False), request=z3.BoolVal(False))))
        s.env['nreq'] = i + 1
        s.events.append(('http.request', i, rng))
        start = BV64(0) if rng is None else z3.If(S.srv_ranges, rng, BV64(0))
        resp = Obj('response', i=i, start=start)
        # error classes: timeout (retryable), or not-timeout-but-request (retryable), or neither (fatal); two symbolic flags give all three
        err = Obj('reqwest_error', i=i, status=None, timeout=S.err_timeout[i], request=z3.And(z3.Not(S.err_timeout[i]), S.err_request[i]))
        return Forks([(S.exec_err[i], mk_ready(mk_err(err)), None), (z3.Not(S.exec_err[i]), mk_ready(mk_ok(resp)), None)])
    LEAF_OPS['http_execute'] = op_http_execute
    def m_error_for_status(I_, s, fr, callee, args, dty, dest, ret_bb):
        r = mat(I_, s, args[0]); i = r.d['i']
        bad = z3.UGE(S.status[i], 400)
        return mk_result(ok=r, err=Obj('reqwest_error', i=i, status=S.status[i], timeout=z3.BoolVal(False), request=z3.BoolVal(False)), discr=z3.If(bad, BV64(1), BV64(0)))
    def m_err_status(I_, s, fr, callee, args, dty, dest, ret_bb):
        e = deref(I_, s, args[0])
        if e.d['status'] is None: return mk_none()
        return mk_some(Obj('status', code=e.d['status']))
    def m_is_server_error(I_, s, fr, callee, args, dty, dest, ret_bb):
        c = deref(I_, s, args[0]).d['code']; return z3.And(z3.UGE(c, 500), z3.ULT(c, 600))
    def m_as_u16(I_, s, fr, callee, args, dty, dest, ret_bb): return deref(I_, s, args[0]).d['code']
    def m_is_timeout(I_, s, fr, callee, args, dty, dest, ret_bb): return deref(I_, s, args[0]).d['timeout']
    def m_is_request(I_, s, fr, callee, args, dty, dest, ret_bb): return deref(I_, s, args[0]).d['request']
    def m_headers(I_, s, fr, callee, args, dty, dest, ret_bb): return Obj('headers', i=deref(I_, s, args[0]).d['i'])
    def m_headers_get(I_, s, fr, callee, args, dty, dest, ret_bb):
        h = deref(I_, s, args[0]); i = h.d['i']
        s.events.append(('headers.get', i, repr(mat(I_, s, args[1]))[:60]))
        return Adt('Option<&HeaderValue>', z3.If(S.announce[i], BV64(1), BV64(0)), {('Some', 0): Ref(s.alloc(Obj('header_value', text='bytes')))})
    def m_to_str(I_, s, fr, callee, args, dty, dest, ret_bb): return mk_ok(Obj('str', s=deref(I_, s, args[0]).d.get('text')))
    def m_str_contains(I_, s, fr, callee, args, dty, dest, ret_bb):
        a = deref(I_, s, args[0]); b = deref(I_, s, args[1])
        while isinstance(b, Ref): b = I_.deref_load(s, b)
        return z3.BoolVal(b.d['s'] in a.d['s'])
    def m_bytes_stream(I_, s, fr, callee, args, dty, dest, ret_bb):
        r = mat(I_, s, args[0]); return Obj('body', i=r.d['i'], start=r.d['start'], pos=0, delivered=BV64(0))
    def m_body_poll_next(I_, s, fr, callee, args, dty, dest, ret_bb):
        pin = mat(I_, s, args[0]); ref = pin.fields[(None, 0)]
        b = I_.deref_load(s, ref)
        while isinstance(b, (Ref, Adt)) and not (isinstance(b, Obj)):
            ref = b if isinstance(b, Ref) else b.fields[(None, 0)]; b = I_.deref_load(s, ref)
        i, pos = b.d['i'], b.d['pos']
        if pos >= S.nch:
            # after the provisioned chunks the body either breaks off or ends normally; a body that ends normally is the complete
            # (remaining) resource
            tb, tto = S.tail_break[i], S.tail_timeout[i]
            def fin(s2): s2.pc.append(S.L == b.d['start'] + b.d['delivered'])
            def brk2(s2):
                bb = I_.deref_load(s2, ref); bb.d['pos'] = pos   # stays broken
            return Forks([(tb, mk_ready(mk_some(mk_err(Obj('reqwest_error', i=i, status=None, timeout=tto, request=z3.BoolVal(False))))), brk2),
                          (z3.Not(tb), mk_ready(mk_none()), fin)])
        ex, brk, eto, erq, ln = S.chunks[i][pos]
        def adv(s2, delivered=None):
            bb = I_.deref_load(s2, ref); bb.d['pos'] = pos + 1
            if delivered is not None: bb.d['delivered'] = delivered
        alts = [(z3.Not(ex), mk_ready(mk_none()), lambda s2: (s2.pc.append(S.L == b.d['start'] + b.d['delivered']), adv(s2))),
                (z3.And(ex, brk), mk_ready(mk_some(mk_err(Obj('reqwest_error', i=i, status=None, timeout=eto, request=erq)))), lambda s2: adv(s2)),
                (z3.And(ex, z3.Not(brk)), mk_ready(mk_some(mk_ok(Obj('bytes', len=ln, content=None, offset=b.d['start'] + b.d['delivered'])))),
                 lambda s2: (s2.pc.append(z3.ULE(b.d['start'] + b.d['delivered'] + ln, S.L)), adv(s2, b.d['delivered'] + ln)))]
        return Forks(alts)
    def m_waker(I_, s, fr, callee, args, dty, dest, ret_bb): return Obj('waker')
    def m_wake(I_, s, fr, callee, args, dty, dest, ret_bb): s.events.append(('wake',)); return unit()
    def m_into_opt(I_, s, fr, callee, args, dty, dest, ret_bb): return mk_some(args[0])
    def m_or_else(I_, s, fr, callee, args, dty, dest, ret_bb):
        o = mat(I_, s, args[0])
        if not isinstance(o.discr, int): raise Stuck('or_else on symbolic Option')
        if o.discr == 1: return o
        fn = I_.resolve_closure(args[1].ty); I_.push_call(s, fn, [args[1]], dest, ret_bb); return PUSHED
    def m_unwrap_or_else(I_, s, fr, callee, args, dty, dest, ret_bb):
        o = mat(I_, s, args[0])
        if not isinstance(o.discr, int): raise Stuck('unwrap_or_else on symbolic Option')
        if o.discr == 1: return o.fields[('Some', 0)]
        fn = I_.resolve_closure(args[1].ty); I_.push_call(s, fn, [args[1]], dest, ret_bb); return PUSHED
    def m_dur_mul(I_, s, fr, callee, args, dty, dest, ret_bb): return Obj('duration', t=z3.BitVec(fresh_name('dur'), 64))
    def m_dur_cmp(I_, s, fr, callee, args, dty, dest, ret_bb):
        return Adt('Ordering', 0, {})      # back-off durations only feed tokio::time::sleep: their ordering does not influence what is requested or yielded
    def m_url_as_str(I_, s, fr, callee, args, dty, dest, ret_bb): return Obj('str', s='<url>')
    def m_max_level(I_, s, fr, callee, args, dty, dest, ret_bb): return Obj('levelfilter')
    def m_terr_into(I_, s, fr, callee, args, dty, dest, ret_bb):
        t = mat(I_, s, args[0]); fn = None
        for n, fs in I_.funcs.items():
            if n.endswith('::from') and 'http.rs:550' in n: fn = fs[0]
        if fn is None:
            for n, fs in I_.funcs.items():
                if n.endswith('::from') and 'http.rs' in n and '(Url, HttpError)' in fs[0].args: fn = fs[0]
        if fn is None: raise Stuck('From<(Url, HttpError)> for TransportError not found')
        I_.push_call(s, fn, [t], dest, ret_bb); return PUSHED
    def m_unreachable(I_, s, fr, callee, args, dty, dest, ret_bb):
        s.events.append(('unreachable_hit', callee)); raise Stuck('unreachable!() reached: ' + callee[:60])
    I.models[:0] = [
        (R(r'^ClientBuilder::(new|timeout|connect_timeout)$'), m_client_builder), (R(r'^ClientBuilder::build$'), m_builder_build),
        (R(r'^reqwest::Client::request::<'), m_client_request), (R(r'^RequestBuilder::header::<'), m_rb_header), (R(r'^RequestBuilder::build$'), m_rb_build),
        (R(r'^HeaderValue::from_str$'), m_header_from_str), (R(r'^tokio::time::sleep$'), m_sleep), (R(r'^reqwest::Client::execute$'), m_execute),
        (R(r'^Response::error_for_status$'), m_error_for_status), (R(r'^reqwest::Error::status$'), m_err_status), (R(r'^StatusCode::is_server_error$'), m_is_server_error),
        (R(r'^StatusCode::as_u16$'), m_as_u16), (R(r'^reqwest::Error::is_timeout$'), m_is_timeout), (R(r'^reqwest::Error::is_request$'), m_is_request),
        (R(r'^Response::headers$'), m_headers), (R(r'^reqwest::header::HeaderMap::get::<'), m_headers_get), (R(r'^HeaderValue::to_str$'), m_to_str),
        (R(r'^core::str::<impl str>::contains::<'), m_str_contains), (R(r'^Response::bytes_stream$'), m_bytes_stream),
        (R(r'^<dyn futures::Stream<Item = std::result::Result<bytes::Bytes, reqwest::Error>>.*as futures::Stream>::poll_next$'), m_body_poll_next),
        (R(r'^Pin::<Box<dyn futures::(Stream|Future)<.*>>::as_mut$'), m_pin_as_mut),
        (R(r'^std::task::Context::<.*>::waker$'), m_waker), (R(r'^Waker::wake_by_ref$'), m_wake),
        (R(r'^<Poll<.*> as Into<std::option::Option<Poll<.*>>>>::into$'), m_into_opt),
        (R(r'^std::option::Option::<Poll<.*>>::or_else::<'), m_or_else), (R(r'^std::option::Option::<Poll<.*>>::unwrap_or_else::<'), m_unwrap_or_else),
        (R(r'Duration::mul_f32$'), m_dur_mul), (R(r'^<Duration as Ord>::cmp$'), m_dur_cmp), (R(r'^<Duration as Clone>::clone$'), m_clone),
        (R(r'^Url::as_str$'), m_url_as_str), (R(r'^std::string::String::as_str$'), m_identity), (R(r'^max_level$'), m_max_level), (R(r'^<Level as PartialOrd<LevelFilter>>::le$'), lambda *a: z3.BoolVal(False)),
        (R(r'^<\(Url, HttpError\) as Into<TransportError>>::into$'), m_terr_into), (R(r'^unreachable_display::<'), m_unreachable),
        (R(r'FutureExt>::boxed::<'), m_boxed), (R(r'as StreamExt>::boxed::<'), m_boxed),
        (R(r'^<dyn futures::Future<Output = std::result::Result<Response, reqwest::Error>>.*as futures::Future>::poll$'), m_poll_dynfuture),
        (R(r'^<reqwest::async_impl::client::Pending as futures::Future>::poll$'), models.m_poll_leaf), (R(r'^<Sleep as futures::Future>::poll$'), models.m_poll_leaf),
    ]

def run_script(R, I, tries_val, nresp, nch):
    S = Script(nresp, nch)
    st = State(); st.env['fs'] = {}; st.env['nreq'] = 0
    st.pc += S.constraints()
    saved = list(I.models)
    install(I, S, st)
    RS = variants('RequestState')
    tries = z3.BitVecVal(tries_val, 32)
    settings = Adt('HttpTransportBuilder', None, {(None, F('HttpTransportBuilder', 'timeout')): Obj('duration', t=BV64(30)), (None, F('HttpTransportBuilder', 'connect_timeout')): Obj('duration', t=BV64(10)),
                                                   (None, F('HttpTransportBuilder', 'tries')): tries, (None, F('HttpTransportBuilder', 'initial_backoff')): Obj('duration', t=BV64(1)),
                                                   (None, F('HttpTransportBuilder', 'max_backoff')): Obj('duration', t=BV64(9)), (None, F('HttpTransportBuilder', 'backoff_factor')): Obj('f32')})
    rs = st.alloc(Adt('RetryStream', None, {
        (None, F('RetryStream', 'retry_state')): Adt('RetryState', None, {(None, F('RetryState', 'current_try')): z3.BitVecVal(0, 32), (None, F('RetryState', 'wait')): Obj('duration', t=BV64(1)),
                                                                          (None, F('RetryState', 'next_byte')): BV64(0)}),
        (None, F('RetryStream', 'settings')): settings, (None, F('RetryStream', 'url')): Obj('url', key='/u', base='/', rel=['u']),
        (None, F('RetryStream', 'request')): Adt('RequestState', RS.index('None'), {}), (None, F('RetryStream', 'done')): z3.BoolVal(False),
        (None, F('RetryStream', 'has_range_support')): z3.BoolVal(False)}))
    pn = None
    for n, fs in I.funcs.items():
        if n.endswith('::poll_next') and 'http.rs' in n: pn = fs[0]
    if pn is None: raise Stuck('RetryStream::poll_next not found')
    MAXPOLL = 8 * (nresp + 1)
    cxc = st.alloc(Obj('cx'))
    def driver(I_, s, fr):
        d = fr.data
        if 'ret' in d:
            p = d.pop('ret')
            if p.discr == 1:       # Pending: poll again (the waker was woken by the code itself)
                d['pending'] += 1
            else:
                item = p.fields[('Ready', 0)]
                if item.discr == 0:
                    s.events.append(('end',)); I_.do_return(s, Obj('stream_done', how='end')); return [s]
                r = item.fields[('Some', 0)]
                if r.discr == 1:
                    s.events.append(('error', r.fields[('Err', 0)])); d['errs'] += 1
                    if d['errs'] >= 2: I_.do_return(s, Obj('stream_done', how='two-errors')); return [s]
                    d['after_err'] = True
                else:
                    b = r.fields[('Ok', 0)]; s.events.append(('yield', b.d['len'], b.d.get('offset')))
            if d.get('after_err') and p.discr != 1 and not (p.fields[('Ready', 0)].discr == 1 and p.fields[('Ready', 0)].fields[('Some', 0)].discr == 1):
                pass
        d['polls'] += 1
        if d['polls'] > MAXPOLL: I_.do_return(s, Obj('stream_done', how='unwound')); return [s]
        I_.push_call(s, pn, [Adt('Pin', None, {(None, 0): Ref(rs)}), Ref(cxc)], None, None); return [s]
    st.frames.append(ModelFrame(driver, {'polls': 0, 'pending': 0, 'errs': 0}))
    done = []
    try:
        I.run(st, done.append)
    finally:
        I.models[:] = saved
    return S, done

def check(R, tier):
    I = R.interp('tough-http'); models.install(I); install_streams(I)
    max_tries = 3
    nch = 1 if tier == 'quick' else 2
    extra = 1 if tier == 'quick' else 2
    R.bounds.update({'tries': f'1..{max_tries}', 'server script': f'tries+{extra} (tries = 3: tries+1) responses over {200, 500, 503, 403, 404, 410, 400, 416}, request-level failures (timeout / connection / internal)',
                     'body': f'<= {nch} chunks per response (tries = 3: 1 chunk), each may break off with a timeout / request / other error', 'resource length': '< 2^40 bytes'})
    R.assumptions += ['reqwest: error_for_status/status/is_timeout/is_request/headers/bytes_stream as documented; a body that ends without error is the complete remaining resource',
                      'a server announces Accept-Ranges: bytes only if it honours Range requests; a Range request to a server that does not honour them returns the whole resource',
                      'durations opaque; tokio::time::sleep completes']
    for tries in range(1, max_tries + 1):
        nresp = tries + (extra if tries < 3 else 1)      # tries = 3: one response beyond the bound is enough to see an excess request
        S, done = run_script(R, I, tries, nresp, nch if tries < 3 else 1)      # tries = 3: one chunk per response in both tiers (two chunks: > 40 min and solver time-outs on a loaded machine)
        R.check_interp_clean(I, f'tries={tries}')
        label = f'tries={tries}'
        for s in done:
            R.paths += 1
            ev = s.events; how = s.result.d['how'] if isinstance(s.result, Obj) and s.result.kind == 'stream_done' else '?'
            reqs = [e for e in ev if e[0] == 'http.request']; yields = [e for e in ev if e[0] == 'yield']; errs = [e for e in ev if e[0] == 'error']
            def dec(m, s=s, reqs=reqs, S=S, tries=tries):
                evl = lambda t: m.eval(t, model_completion=True)
                out = {'kind': 'http_script', 'tries': tries, 'resource_len': evl(S.L).as_long(), 'server_honours_ranges': bool(z3.is_true(evl(S.srv_ranges))), 'responses': []}
                for i in range(min(len(reqs), S.n)):
                    out['responses'].append({'status': evl(S.status[i]).as_long(), 'announce': bool(z3.is_true(evl(S.announce[i]))), 'request_fails': bool(z3.is_true(evl(S.exec_err[i]))),
                                             'timeout': bool(z3.is_true(evl(S.err_timeout[i]))), 'tail_breaks': bool(z3.is_true(evl(S.tail_break[i]))),
                                             'tail_timeout': bool(z3.is_true(evl(S.tail_timeout[i]))), 'chunks': [{'exists': bool(z3.is_true(evl(c[0]))), 'breaks': bool(z3.is_true(evl(c[1]))),
                                                                                                            'len': evl(c[4]).as_long()} for c in S.chunks[i]]})
                return out
            R.obligation(f'{label}: the driver terminates (no endless Pending, at most one error item)', s.pc, z3.BoolVal(how in ('end',) or (how == 'two-errors' and False) or how == 'end'), decode=dec, group='terminates') if how in ('unwound', 'two-errors') else None
            total = BV64(0)
            for y in yields:
                R.obligation(f'{label}: every chunk handed out continues exactly where the previous one ended (no gap, no duplicate)', s.pc,
                             (y[2] == total) if y[2] is not None else z3.BoolVal(False), decode=dec, group='contiguous')
                total = total + y[1]
            if how == 'end' and not errs:
                R.obligation(f'{label}: a stream that ends without error delivered the whole resource', s.pc, total == S.L, decode=dec, group='complete')
            R.obligation(f'{label}: number of requests <= tries', s.pc, z3.BoolVal(len(reqs) <= tries), decode=dec, group='requests<=tries')
            announced_before = z3.BoolVal(False); yielded_before = {}
            # reconstruct how many bytes had been yielded before each request, and whether a range announcement was seen
            t = BV64(0); ann = z3.BoolVal(False); seen_resp = -1
            for e in ev:
                if e[0] == 'yield': t = t + e[1]
                if e[0] == 'headers.get': ann = z3.Or(ann, S.announce[e[1]])
                if e[0] == 'http.request':
                    rng = e[2]
                    if rng is not None:
                        ok_rng = z3.is_bv(rng) if not isinstance(rng, tuple) else False
                        R.obligation(f'{label}: a Range header is sent only after the server announced byte ranges, and starts at the number of bytes already handed out', s.pc,
                                     z3.And(ann, rng == t) if ok_rng else z3.BoolVal(False), decode=dec, group='range-only-if-announced')
                    else:
                        R.obligation(f'{label}: a request without Range is only sent when nothing has been handed out yet', s.pc, t == 0, decode=dec, group='restart-only-from-zero')
            # status classes
            for k, e in enumerate(reqs):
                i = e[1]
                if i >= S.n: continue          # path cut beyond the script (already a violation of the request bound)
                is_last = (k == len(reqs) - 1)
                fnf = z3.And(z3.Not(S.exec_err[i]), z3.Or(S.status[i] == 403, S.status[i] == 404, S.status[i] == 410))
                other4 = z3.And(z3.Not(S.exec_err[i]), z3.Or(S.status[i] == 400, S.status[i] == 416))
                ek = None
                if errs:
                    terr = errs[0][1]; ek = terr.d.get('tkind') if isinstance(terr, Obj) else None
                tk = variants('TransportErrorKind')
                if is_last:
                    R.obligation(f'{label}: 403/404/410 is reported as FileNotFound', s.pc, z3.Implies(fnf, z3.BoolVal(bool(errs) and ek == tk.index('FileNotFound'))), decode=dec, group='status/file-not-found')
                    R.obligation(f'{label}: another client error fails the fetch (kind Other)', s.pc, z3.Implies(other4, z3.BoolVal(bool(errs) and ek == tk.index('Other'))), decode=dec, group='status/fatal-4xx')
                    R.obligation(f'{label}: FileNotFound is only reported for 403/404/410', s.pc, z3.Implies(z3.BoolVal(bool(errs) and ek == tk.index('FileNotFound')), fnf), decode=dec, group='status/fnf-only')
                else:
                    R.obligation(f'{label}: no request follows a 4xx answer', s.pc, z3.Not(z3.Or(fnf, other4)), decode=dec, group='status/no-retry-after-4xx')
        if tries >= 2: R.reach_any(f'{label}: complete delivery after a retry with a Range request', [s.pc for s in done if isinstance(s.result, Obj) and s.result.d.get('how') == 'end'
                                                                                        and any(e[0] == 'http.request' and e[2] is not None for e in s.events) and not any(e[0] == 'error' for e in s.events)])
        R.reach_any(f'{label}: FileNotFound reachable', [s.pc for s in done if any(e[0] == 'error' and isinstance(e[1], Obj) and e[1].d.get('tkind') == variants('TransportErrorKind').index('FileNotFound') for e in s.events)])
        R.samples.append({'tries': tries, 'responses scripted': nresp, 'paths': len(done)})
    finalize(R)

def finalize(R):
    seen = set()
    for cx in R.counterexamples:
        sc = cx.get('scenario')
        if not sc or (cx['group'], sc['tries']) in seen: continue
        seen.add((cx['group'], sc['tries']))
        res = R.replay('http_script', sc, timeout=120)
        bad = res.get('violations', [])
        if bad:
            fk = 'tries-n-issues-n-plus-1-requests' if cx['group'] == 'requests<=tries' and all('requests' in b for b in bad) else None
            R.report_violation(f"tries={sc['tries']}: " + '; '.join(bad)[:400], {'script': sc, 'observed': res}, finding_key=fk)
        else:
            R.inconclusive.append(f'counterexample for "{cx["obligation"]}" did not reproduce natively: script {json.dumps(sc)[:300]} observed {json.dumps(res)[:200]}')

def replay_file(R, path):
    sc = json.load(open(path))['scenario']['script']; print(json.dumps(R.replay('http_script', sc))); return 0
