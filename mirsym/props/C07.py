"""C07 — a delegated role can only provide targets inside its delegated paths."""
import z3, json, re, itertools
from client import *
from models import R as RX

TITLE = 'find_target = pre-order search that prunes every delegation whose paths do not match the RESOLVED name; validate refuses repositories that list an unreachable target'
NID = z3.BitVecSort(8)
Has = z3.Function('Has', NID, NID, z3.BoolSort())                 # role id lists target name id in its own targets map
Glob = z3.Function('GlobMatch', NID, NID, NID, z3.BoolSort())     # pattern id, string kind (0 resolved / 1 raw), name id
HashP = z3.Function('HashPrefixMatch', NID, NID, NID, z3.BoolSort())

class Node:
    def __init__(self, rid, name, pathset, children, loaded=True):
        self.rid, self.name, self.pathset, self.children, self.loaded = rid, name, pathset, children, loaded

def mk_tree(shape):
    """shape: list of (name, pathset, children-shape); pathset = ('paths', [pattern ids]) | ('hash', [prefix ids])"""
    ctr = itertools.count(1)
    def mk(items): return [Node(next(ctr), n, ps, mk(ch)) for n, ps, ch in items]
    return Node(0, 'targets', None, mk(shape))

def build_targets(st, node, name_ids):
    dele = None
    if node.children:
        elems = []
        for c in node.children:
            kind, ids = c.pathset
            PS = variants('PathSet')
            if kind == 'paths':
                pats = [st.alloc(Adt('PathPattern', None, {(None, F('PathPattern', 'value')): Obj('str', s=f'pat{i}'), (None, F('PathPattern', 'glob')): Obj('glob', pid=IDV(i))})) for i in ids]
                ps = Adt('PathSet', PS.index('Paths'), {('Paths', 0): Obj('vec', elems=pats)})
            else:
                pre = [st.alloc(Adt('PathHashPrefix', None, {(None, 0): Obj('str', s=f'prefix{i}', hid=IDV(i))})) for i in ids]
                ps = Adt('PathSet', PS.index('PathHashPrefixes'), {('PathHashPrefixes', 0): Obj('vec', elems=pre)})
            sub = build_targets(st, c, name_ids)
            tgt = Adt('Option<Signed<Targets>>', 1, {('Some', 0): Adt('Signed<Targets>', None, {(None, F('Signed', 'signed')): sub})}) if c.loaded else Adt('Option<Signed<Targets>>', 0, {})
            elems.append(st.alloc(Adt('DelegatedRole', None, {(None, F('DelegatedRole', 'name')): Obj('str', s=c.name), (None, F('DelegatedRole', 'paths')): ps,
                                                              (None, F('DelegatedRole', 'targets')): tgt})))
        dele = Adt('Option<Delegations>', 1, {('Some', 0): Adt('Delegations', None, {(None, F('Delegations', 'roles')): Obj('vec', elems=elems)})})
    else:
        dele = Adt('Option<Delegations>', 0, {})
    return Adt('Targets', None, {(None, F('Targets', 'targets')): Obj('targetsmap', rid=node.rid), (None, F('Targets', 'delegations')): dele, (None, 'rid'): node.rid})

def ref_find(node, nid):
    """reference: (found Bool term, (role id, name id) of the entry as a pair of terms)"""
    found = Has(IDV(node.rid), nid); who = IDV(node.rid)
    rest_found = z3.BoolVal(False); rest_who = IDV(255)
    for c in reversed(node.children):
        kind, ids = c.pathset
        m = z3.Or([(Glob if kind == 'paths' else HashP)(IDV(i), IDV(0), nid) for i in ids] + [z3.BoolVal(False)])
        if c.loaded:
            cf, cw = ref_find(c, nid)
            hit = z3.And(m, cf)
        else:
            hit, cw = z3.BoolVal(False), IDV(255)
        rest_who = z3.If(hit, cw, rest_who); rest_found = z3.Or(hit, rest_found)
    return z3.Or(found, rest_found), z3.If(found, who, rest_who)

def all_nodes(node):
    out = [node]
    for c in node.children:
        if c.loaded: out += all_nodes(c)
    return out

def models_for(I):
    def m_map_get(I_, s, fr, c, a, d, de, rb):
        m = deref(I_, s, a[0]); n = deref(I_, s, a[1])
        while isinstance(n, Ref): n = I_.deref_load(s, n)
        nid = n.fields[(None, 'nid')]
        s.events.append(('targets.get', m.d['rid']))
        cell = s.alloc(Obj('target', rid=IDV(m.d['rid']), nid=nid))
        return Adt('Option<&Target>', z3.If(Has(IDV(m.d['rid']), nid), BV64(1), BV64(0)), {('Some', 0): Ref(cell)})
    def m_is_match(I_, s, fr, c, a, d, de, rb):
        g = deref(I_, s, a[0]); x = deref(I_, s, a[1])
        while isinstance(g, Ref): g = I_.deref_load(s, g)
        while isinstance(x, Ref): x = I_.deref_load(s, x)
        s.events.append(('glob', x.d.get('which')))
        return Glob(g.d['pid'], IDV(x.d['which']), x.d['nid'])
    def m_as_bytes(I_, s, fr, c, a, d, de, rb): return a[0]
    def m_digest(I_, s, fr, c, a, d, de, rb):
        x = deref(I_, s, a[1])
        while isinstance(x, Ref): x = I_.deref_load(s, x)
        alg = mat(I_, s, a[0])
        s.events.append(('hash-of', x.d.get('which'), alg.d.get('static') if isinstance(alg, Obj) else None))
        return Obj('digest_of', which=x.d['which'], nid=x.d['nid'])
    def m_encode_hex(I_, s, fr, c, a, d, de, rb):
        x = deref(I_, s, a[0]); return Obj('str', s=None, hexof=(x.d['which'], x.d['nid']))
    def m_value(I_, s, fr, c, a, d, de, rb): return SKIP
    def m_str_starts_with(I_, s, fr, c, a, d, de, rb):
        x = deref(I_, s, a[0]); p = deref(I_, s, a[1])
        while isinstance(x, Ref): x = I_.deref_load(s, x)
        while isinstance(p, Ref): p = I_.deref_load(s, p)
        if x.d.get('hexof') is None or p.d.get('hid') is None: raise Stuck('starts_with on something else')
        return HashP(p.d['hid'], IDV(x.d['hexof'][0]), x.d['hexof'][1])
    def m_into_iter(I_, s, fr, c, a, d, de, rb): return Obj('iter', vec=a[0], pos=0)
    def m_clone(I_, s, fr, c, a, d, de, rb): return clone(deref(I_, s, a[0]))
    def m_targets_iter(I_, s, fr, c, a, d, de, rb):
        t = deref(I_, s, a[0])
        return Obj('all_targets_iter', root=t, pos=0)
    def m_box_into_iter(I_, s, fr, c, a, d, de, rb): return a[0]
    return [(RX(r'^HashMap::<TargetName, schema::Target>::get::<'), m_map_get), (RX(r'^GlobMatcher::is_match::<'), m_is_match), (RX(r'^core::str::<impl str>::as_bytes$'), m_as_bytes),
            (RX(r'^digest$'), m_digest), (RX(r'^<Digest as ToHex>::encode_hex::<'), m_encode_hex), (RX(r'^core::str::<impl str>::starts_with::<'), m_str_starts_with),
            (RX(r'^<&Vec<(DelegatedRole|PathPattern|PathHashPrefix)> as IntoIterator>::into_iter$'), m_into_iter),
            (RX(r'^<std::slice::Iter<.*(DelegatedRole|PathPattern|PathHashPrefix)> as Iterator>::next$'), m_iter_next_g), (RX(r'^<TargetName as Clone>::clone$'), m_clone),
            (RX(r'^<std::string::String as Deref>::deref$'), m_identity)]

def target_name(nid, resolves=True):
    """resolves: the raw name differs from its resolved form (resolved = Some(..)); otherwise the raw string IS the resolved name (resolved = None)"""
    if resolves:
        return Adt('TargetName', None, {(None, F('TargetName', 'raw')): Obj('str', s=None, which=1, nid=nid),
                                        (None, F('TargetName', 'resolved')): Adt('Option<String>', 1, {('Some', 0): Obj('str', s=None, which=0, nid=nid)}), (None, 'nid'): nid})
    return Adt('TargetName', None, {(None, F('TargetName', 'raw')): Obj('str', s=None, which=0, nid=nid), (None, F('TargetName', 'resolved')): Adt('Option<String>', 0, {}), (None, 'nid'): nid})

SHAPES = {
    'flat-2':      [('A', ('paths', [1]), []), ('B', ('paths', [2, 3]), [])],
    'nested':      [('A', ('paths', [1]), [('C', ('paths', [2]), [])]), ('B', ('hash', [3]), [])],
    'hash-nested': [('A', ('hash', [1, 2]), [('C', ('hash', [3]), [])])],
    'depth-3':     [('A', ('paths', [1]), [('C', ('paths', [2]), [('D', ('hash', [3]), [])])]), ('B', ('paths', [4]), [])],
    'fan-3':       [('A', ('paths', [1]), []), ('B', ('hash', [2]), []), ('C', ('paths', [3]), [('D', ('paths', [4]), [])])],
}

def find_target_obligations(R, I, cases):
    """Targets::find_target from MIR on the given (shape, name-needs-resolution) cases; the caller has installed models_for(I)"""
    fn = None
    for n, fs in I.funcs.items():
        if n.endswith('>::find_target') and 'schema/mod.rs' in n: fn = fs[0]
    if fn is None: raise Stuck('Targets::find_target not found')
    for sh, resolves in cases:
        tree = mk_tree(SHAPES[sh])
        st = State(); st.env['fs'] = {}
        nid = z3.BitVec('name', 8)
        top = st.alloc(build_targets(st, tree, [nid]))
        name = st.alloc(target_name(nid, resolves))
        sh = sh + ('/name-needs-resolution' if resolves else '/plain-name')
        I.push_call(st, fn, [Ref(top), Ref(name)], None, None)
        done = []; I.run(st, done.append)
        R.check_interp_clean(I, f'find_target[{sh}]')
        rf, rw = ref_find(tree, nid)
        def dec(m, sh=sh, tree=tree, nid=nid):
            ev = lambda t: m.eval(t, model_completion=True)
            out = {'kind': 'find_target', 'shape': sh, 'lists': {}, 'matches': {}}
            for nd in all_nodes(tree):
                out['lists'][nd.name] = bool(z3.is_true(ev(Has(IDV(nd.rid), nid))))
                if nd.pathset:
                    kind, ids = nd.pathset
                    out['matches'][nd.name] = [bool(z3.is_true(ev((Glob if kind == 'paths' else HashP)(IDV(i), IDV(0), nid)))) for i in ids]
            return out
        for s in done:
            R.paths += 1
            r = s.result
            used_raw = [e for e in s.events if e[0] in ('glob', 'hash-of') and e[1] != 0]
            R.obligation(f'find_target[{sh}]: patterns and hash prefixes are applied to the RESOLVED name (hash = SHA-256)', s.pc,
                         z3.BoolVal(not used_raw and all(e[2] == 'SHA256' for e in s.events if e[0] == 'hash-of')), decode=dec, group='matches-resolved-name')
            if r.discr == 0:
                t = I.deref_load(s, r.fields[('Ok', 0)])
                if not (isinstance(t, Obj) and 'rid' in t.d and 'nid' in t.d):
                    # the entry returned was not taken from a role's own map through the modelled lookups (calls without a model on this path)
                    R.obligation(f'find_target[{sh}]: the entry served is the first one in pre-order whose every delegation on the chain matches the name', s.pc,
                                 z3.BoolVal(False), decode=dec, group='preorder-pruned', tainted=['entry obtained through unmodelled calls'])
                    continue
                R.obligation(f'find_target[{sh}]: the entry served is the first one in pre-order whose every delegation on the chain matches the name', s.pc,
                             z3.And(rf, t.d['rid'] == rw, t.d['nid'] == nid), decode=dec, group='preorder-pruned')
            else:
                R.obligation(f'find_target[{sh}]: "not found" only if no authorised chain reaches an entry', s.pc, z3.Not(rf), decode=dec, group='not-found-justified')
        R.reach_any(f'find_target[{sh}]: entry served from the deepest role', [s.pc for s in done if s.result.discr == 0], rw == IDV(max(n.rid for n in all_nodes(tree))))
        R.samples.append({'shape': sh, 'paths': len(done)})

def check(R, tier):
    I = R.interp('tough'); install_world(I)
    shapes = ['flat-2', 'nested', 'hash-nested'] if tier == 'quick' else list(SHAPES)
    R.bounds.update({'delegation trees': ', '.join(shapes) + ' (depth <= 3, fan-out <= 3, 1..2 patterns or hash prefixes per delegation)', 'names': 'one symbolic name per lookup; membership of every role symbolic',
                     'matching': 'GlobMatch(pattern, name) / HashPrefixMatch(prefix, name) uninterpreted'})
    R.assumptions += ['globset GlobMatcher::is_match and sha256-hex starts_with are functions of (pattern, string); the obligation is about WHICH string they are applied to and how the results are combined',
                      'HashMap::get finds an entry iff the role lists that TargetName', 'Targets::targets_iter yields every entry of every loaded role (validate harness)']
    saved = list(I.models); I.models[:0] = models_for(I)
    try:
        find_target_obligations(R, I, [(s_, r_) for s_ in shapes for r_ in (True, False)])
        # ---- validate: every listed (role, name) pair must be reachable; two names
        vfn = None
        for n, fs in I.funcs.items():
            if n.endswith('>::validate') and 'schema/mod.rs' in n: vfn = fs[0]
        for sh in shapes[:2] if tier == 'quick' else shapes:
            tree = mk_tree(SHAPES[sh]); nodes = all_nodes(tree)
            st = State(); st.env['fs'] = {}
            names = [z3.BitVec('nameA', 8), z3.BitVec('nameB', 8)]
            st.pc.append(names[0] != names[1])
            top = st.alloc(build_targets(st, tree, names))
            listed = [(nd, nm) for nd in nodes for nm in names]
            def m_targets_iter(I_, s, fr, c, a, d, de, rb): return Obj('listed_iter', pos=0)
            def m_listed_next(I_, s, fr, c, a, d, de, rb):
                """next listed (role, name) pair: pairs whose membership flag is false are skipped"""
                it = deref(I_, s, a[0])
                while isinstance(it, Ref): it = I_.deref_load(s, it)
                pos = it.d['pos']
                alts = []; skipped = []
                def setpos(j):
                    def f(s2):
                        it2 = deref(I_, s2, a[0])
                        while isinstance(it2, Ref): it2 = I_.deref_load(s2, it2)
                        it2.d['pos'] = j
                    return f
                for j in range(pos, len(listed)):
                    nd, nm = listed[j]
                    some = mk_some(Adt('tuple', None, {(None, 0): Ref(s.alloc(target_name(nm))), (None, 1): Ref(s.alloc(Obj('target', rid=IDV(nd.rid), nid=nm)))}))
                    alts.append((z3.And(skipped + [Has(IDV(nd.rid), nm)]), some, setpos(j + 1)))
                    skipped = skipped + [z3.Not(Has(IDV(nd.rid), nm))]
                alts.append((z3.And(skipped + [z3.BoolVal(True)]), mk_none(), setpos(len(listed))))
                return Forks(alts)
            I.models[:0] = [(RX(r'^Targets::targets_iter$'), m_targets_iter), (RX(r'^<Box<dyn Iterator<Item = \(&TargetName, &schema::Target\)>> as IntoIterator>::into_iter$'), m_identity),
                            (RX(r'^<Box<dyn Iterator<Item = \(&TargetName, &schema::Target\)>> as Iterator>::next$'), m_listed_next)]
            I.push_call(st, vfn, [Ref(top)], None, None)
            done = []; I.run(st, done.append)
            del I.models[:3]
            R.check_interp_clean(I, f'validate[{sh}]')
            every = z3.And([z3.Implies(Has(IDV(nd.rid), nm), ref_find(tree, nm)[0]) for nd, nm in listed])
            for s in done:
                R.paths += 1
                if s.result.discr == 0:
                    R.obligation(f'validate[{sh}]: accepted => every target listed by any loaded role is reachable through an authorised chain', s.pc, every, group='validate/accept-sound')
                else:
                    R.obligation(f'validate[{sh}]: refused => some listed target is unreachable', s.pc, z3.Not(every), group='validate/reject-justified')
            R.reach_any(f'validate[{sh}]: refusal reachable', [s.pc for s in done if s.result.discr == 1])
            R.samples.append({'validate shape': sh, 'paths': len(done)})
    except (AttributeError, KeyError, TypeError, IndexError) as e:
        R.inconclusive.append('solver part stopped on a code shape the harness cannot read: ' + repr(e)[:200])
    finally:
        I.models[:] = saved
    native_validation(R, tier)
    finalize(R)

def native_validation(R, tier):
    res = R.replay('delegated_paths', {}, timeout=600)
    R.differential['scenarios'] += res['cases']; R.differential['agree'] += res['cases'] - len(res['deviations'])
    R.native_dev = [d['what'] for d in res['deviations']]

def finalize(R):
    for d in getattr(R, 'native_dev', [])[:3]:
        R.report_violation('delegated paths: ' + d, {'what': d})
    if not R.violations:
        for cx in R.counterexamples[:3]:
            R.inconclusive.append(f'counterexample for "{cx["obligation"]}" did not show up in the native delegation sweep: {str(cx.get("scenario") or cx.get("model"))[:400]}')

def replay_file(R, path):
    print(json.dumps(json.load(open(path)))); return 0
