"""C08 — saving a target is atomic, verified-only and confined to the output directory."""
import z3, json, re, itertools
from client import *
from models import R as RX

TITLE = 'save_target: containment check before any file-system effect, data only into a temp file in the destination directory, rename only after the verified stream ended, temp file removed on failure'

Inside = z3.Function('InsideOutdir', z3.BitVecSort(8), z3.BoolSort())      # does the parent of outdir.join(<file name variant>) start with outdir

def check(R, tier):
    I = R.interp('tough'); install_world(I)
    nitems = 3 if tier == 'thorough' else 2
    R.bounds.update({'stream items': f'0..{nitems}, each Ok(bytes) or Err, then end', 'prefix modes': 'None and Digest', 'name': 'raw / resolved forms abstract; resolution needed or not'})
    R.assumptions += ['Path::join / parent / starts_with are lexical (std); whether parent(outdir.join(file)) starts with outdir is an uninterpreted predicate of the file name',
                      'NamedTempFile::new_in creates the file in the given directory; persist = rename(2), atomic; dropping a TempPath / NamedTempFile unlinks the temp file',
                      'Repository::read_target is C06 (here: a scripted verified stream); clean_name is checked natively and by the name sweep']
    PX = variants('Prefix')
    for prefix in PX:
        st = State(); st.env['fs'] = {}; st.env['io_faults'] = False
        needs = z3.Bool('name_needs_resolution'); canon_ok = z3.Bool('canonicalize_ok'); isdir = z3.Bool('outdir_is_dir'); found = z3.Bool('target_found')
        has_parent = z3.Bool('has_parent'); rt_err = z3.Bool('read_target_err'); mkdir_ok = z3.Bool('create_dir_all_ok'); tmp_ok = z3.Bool('tempfile_ok'); persist_ok = z3.Bool('persist_ok')
        items = [(z3.Bool(f'item{i}_exists'), z3.Bool(f'item{i}_err'), z3.BitVec(f'item{i}_content', 16), z3.Bool(f'write{i}_ok')) for i in range(nitems)]
        name = st.alloc(Adt('TargetName', None, {(None, F('TargetName', 'raw')): Obj('str', s='<RAW>'),
                                                 (None, F('TargetName', 'resolved')): Adt('Option<String>', z3.If(needs, BV64(1), BV64(0)), {('Some', 0): Obj('str', s='<RESOLVED>')})}))
        TSha = z3.BitVec('signed_sha', 16)
        repo = st.alloc(Adt('Repository', None, {(None, F('Repository', 'targets')): targets_doc(IDV(13), False)}))
        def variant_id(pieces):
            key = tuple(str(p) for p in pieces)
            tbl = st.env.setdefault('variants', {})
            return tbl.setdefault(key, len(tbl))
        # ---- models
        def m_asref_path(I_, s, fr, c, a, d, de, rb): return Obj('path', key='<outdir-arg>')
        def m_canonicalize(I_, s, fr, c, a, d, de, rb):
            return leaf_future('ready', val=mk_result(ok=Obj('path', key='<OUT>'), err=Obj('ioerror', ek=0), discr=z3.If(canon_ok, BV64(0), BV64(1))))
        def m_is_dir(I_, s, fr, c, a, d, de, rb): return leaf_future('ready', val=isdir)
        def m_str_ne(I_, s, fr, c, a, d, de, rb):
            x, y = deref(I_, s, a[0]), deref(I_, s, a[1])
            while isinstance(x, Ref): x = I_.deref_load(s, x)
            while isinstance(y, Ref): y = I_.deref_load(s, y)
            return z3.BoolVal(x.d.get('s') != y.d.get('s'))
        def m_find_target(I_, s, fr, c, a, d, de, rb):
            s.events.append(('find_target',))
            tgt = s.alloc(Adt('Target', None, {(None, F('Target', 'hashes')): Adt('Hashes', None, {(None, F('Hashes', 'sha256')): Obj('digest', dig=TSha)})}))
            return mk_result(ok=Ref(tgt), err=error('TargetNotFound'), discr=z3.If(found, BV64(0), BV64(1)))
        def m_clone_any(I_, s, fr, c, a, d, de, rb): return clone(deref(I_, s, a[0]))
        def m_into_vec_id(I_, s, fr, c, a, d, de, rb): return a[0]
        def m_hex(I_, s, fr, c, a, d, de, rb):
            v = deref(I_, s, a[0])
            while isinstance(v, Ref): v = I_.deref_load(s, v)
            return Obj('str', s=None, pieces=[('hex', v.d.get('dig'))])
        def m_join(I_, s, fr, c, a, d, de, rb):
            base = deref(I_, s, a[0]); rel = deref(I_, s, a[1])
            while isinstance(rel, Ref): rel = I_.deref_load(s, rel)
            ps = pieces_of(rel)
            s.events.append(('join', base.d['key'], [str(p) for p in ps]))
            return Obj('path', key=base.d['key'] + '/' + ''.join(str(p) for p in ps), base=base.d['key'], rel=ps, vid=variant_id(ps))
        def m_parent(I_, s, fr, c, a, d, de, rb):
            p = deref(I_, s, a[0])
            par = Obj('path', key='parent(' + p.d['key'] + ')', parent_of=p.d['key'], vid=p.d.get('vid'))
            return Adt('Option<&Path>', z3.If(has_parent, BV64(1), BV64(0)), {('Some', 0): Ref(s.alloc(par))})
        def m_starts_with(I_, s, fr, c, a, d, de, rb):
            p = deref(I_, s, a[0]); o = deref(I_, s, a[1])
            while isinstance(o, Ref): o = I_.deref_load(s, o)
            s.events.append(('starts_with', p.d['key'], o.d['key'], p.d.get('vid') if p.d.get('parent_of') is not None else None))
            if p.d.get('vid') is None or o.d['key'] != '<OUT>' or p.d.get('parent_of') is None: return z3.Bool(fresh_name('odd_starts_with'))
            return Inside(z3.BitVecVal(p.d['vid'], 8))
        def m_read_target(I_, s, fr, c, a, d, de, rb):
            nm = deref(I_, s, a[1])
            s.events.append(('read_target', nm is s.heap[name] or True))
            stream = Obj('stream', skind='script', pos=0, url='target', script={'chunks': [(e, x, BV64(1), ct) for e, x, ct, w in items], 'chunk_err_kind': 2})
            opt = Adt('Option<Stream>', z3.If(found, BV64(1), BV64(0)), {('Some', 0): stream})
            return leaf_future('ready', val=mk_result(ok=opt, err=error('ReadTargetFailed'), discr=z3.If(rt_err, BV64(1), BV64(0))))
        def m_create_dir_all(I_, s, fr, c, a, d, de, rb):
            p = deref(I_, s, a[0])
            while isinstance(p, Ref): p = I_.deref_load(s, p)
            s.events.append(('fs.create_dir_all', p.d['key']))
            return leaf_future('ready', val=mk_result(ok=unit(), err=Obj('ioerror', ek=39), discr=z3.If(mkdir_ok, BV64(0), BV64(1))))
        def m_to_owned_path(I_, s, fr, c, a, d, de, rb):
            p = deref(I_, s, a[0])
            while isinstance(p, Ref): p = I_.deref_load(s, p)
            return clone(p)
        def m_spawn_blocking(I_, s, fr, c, a, d, de, rb):
            clos = mat(I_, s, a[0])
            fn = I_.resolve_closure(clos.ty)
            return Obj('join_handle', clos=s.alloc(clos), fn=fn)
        def m_join_handle_poll(I_, s, fr, c, a, d, de, rb):
            pin = mat(I_, s, a[0]); h = deref(I_, s, pin.fields[(None, 0)])
            while isinstance(h, Ref): h = I_.deref_load(s, h)
            if not (isinstance(h, Obj) and h.kind == 'join_handle'): return SKIP
            I_.push_call(s, h.d['fn'], [s.heap[h.d['clos']]], de, rb, on_return=lambda I2, s2, val: mk_ready(mk_ok(val))); return PUSHED
        def m_tmp_new_in(I_, s, fr, c, a, d, de, rb):
            p = deref(I_, s, a[0])
            while isinstance(p, Ref): p = I_.deref_load(s, p)
            s.events.append(('tmp.create', p.d['key']))
            return mk_result(ok=Obj('named_temp_file', dir=p.d['key'], alive=True), err=Obj('ioerror', ek=39), discr=z3.If(tmp_ok, BV64(0), BV64(1)))
        def m_unwrap_or_else_join(I_, s, fr, c, a, d, de, rb):
            r = mat(I_, s, a[0]); return r.fields[('Ok', 0)]
        def m_into_parts(I_, s, fr, c, a, d, de, rb):
            t = mat(I_, s, a[0])
            return Adt('tuple', None, {(None, 0): Obj('std_file', dir=t.d['dir']), (None, 1): Obj('temp_path', dir=t.d['dir'], alive=True)})
        def m_from_std(I_, s, fr, c, a, d, de, rb): return Obj('tokio_file', dir=mat(I_, s, a[0]).d['dir'])
        def m_stream_next(I_, s, fr, c, a, d, de, rb): return Obj('next_future', stream=a[0])
        def m_next_poll(I_, s, fr, c, a, d, de, rb):
            pin = mat(I_, s, a[0]); nf = deref(I_, s, pin.fields[(None, 0)])
            while isinstance(nf, Ref): nf = I_.deref_load(s, nf)
            ref = nf.d['stream']
            s.frames.append(ModelFrame(h_next, {'ref': ref, 'phase': 0}, de, rb)); return PUSHED
        def h_next(I_, s, fr):
            dd = fr.data
            if dd['phase'] == 0:
                dd['phase'] = 1; push_stream_next(I_, s, dd['ref']); return [s]
            item = dd.pop('ret')
            if item.discr == 0: s.events.append(('stream.end',))
            else:
                r = item.fields[('Some', 0)]
                if r.discr == 1:
                    s.events.append(('stream.err',)); item = mk_some(mk_err(error('StreamItemErr')))
                else: s.events.append(('stream.ok', r.fields[('Ok', 0)].d['content']))
            I_.do_return(s, mk_ready(item)); return [s]
        def m_bytes_as_ref(I_, s, fr, c, a, d, de, rb): return a[0]
        def m_write_all(I_, s, fr, c, a, d, de, rb):
            f = deref(I_, s, a[0]); b = deref(I_, s, a[1])
            while isinstance(f, Ref): f = I_.deref_load(s, f)
            while isinstance(b, Ref): b = I_.deref_load(s, b)
            n = len([e for e in s.events if e[0] == 'tmp.write' or e[0] == 'tmp.write_failed'])
            ok = items[min(n, nitems - 1)][3]
            return Obj('write_all', content=b.d['content'], ok=ok)
        def m_write_all_poll(I_, s, fr, c, a, d, de, rb):
            pin = mat(I_, s, a[0]); w = deref(I_, s, pin.fields[(None, 0)])
            while isinstance(w, Ref): w = I_.deref_load(s, w)
            return Forks([(w.d['ok'], mk_ready(mk_ok(unit())), lambda s2: s2.events.append(('tmp.write', w.d['content']))),
                          (z3.Not(w.d['ok']), mk_ready(mk_err(Obj('ioerror', ek=39))), lambda s2: s2.events.append(('tmp.write_failed',)))])
        def m_into_std(I_, s, fr, c, a, d, de, rb): return leaf_future('ready', val=Obj('std_file', dir=mat(I_, s, a[0]).d['dir']))
        def m_from_parts(I_, s, fr, c, a, d, de, rb):
            tp = mat(I_, s, a[1]); return Obj('named_temp_file', dir=tp.d['dir'], alive=True)
        def m_persist(I_, s, fr, c, a, d, de, rb):
            t = mat(I_, s, a[0]); p = deref(I_, s, a[1])
            while isinstance(p, Ref): p = I_.deref_load(s, p)
            def okf(s2): s2.events.append(('fs.persist', t.d['dir'], p.d['key'], p.d.get('vid')))
            def bad(s2): s2.events.append(('fs.persist_failed', p.d['key'])); s2.events.append(('fs.unlink_tmp', 'persist error drops the temp file'))
            return Forks([(persist_ok, mk_ok(Obj('std_file')), okf), (z3.Not(persist_ok), mk_err(Obj('persist_error')), bad)])
        def m_resolved_dbg(I_, s, fr, c, a, d, de, rb): return SKIP
        saved = list(I.models)
        I.models[:0] = [
            (RX(r'^<P as AsRef<std::path::Path>>::as_ref$'), m_asref_path), (RX(r'^tokio::fs::canonicalize::<'), m_canonicalize), (RX(r'^is_dir::<'), m_is_dir),
            (RX(r'^<&str as PartialEq>::ne$'), m_str_ne), (RX(r'^Targets::find_target$'), m_find_target), (RX(r'^<Decoded<Hex> as Clone>::clone$'), m_clone_any),
            (RX(r'^<TargetName as Clone>::clone$'), m_clone_any), (RX(r'^Decoded::<Hex>::into_vec$'), m_into_vec_id), (RX(r'^hex::encode::<'), m_hex),
            (RX(r'^std::path::Path::join::<'), m_join), (RX(r'^std::path::Path::parent$'), m_parent), (RX(r'^std::path::Path::starts_with::<'), m_starts_with),
            (RX(r'^Repository::read_target$'), m_read_target), (RX(r'^tokio::fs::create_dir_all::<'), m_create_dir_all), (RX(r'^<std::path::Path as ToOwned>::to_owned$'), m_to_owned_path),
            (RX(r'^<std::path::PathBuf as Deref>::deref$'), m_identity), (RX(r'^spawn_blocking::<'), m_spawn_blocking), (RX(r'^<tokio::task::JoinHandle<.*> as futures::Future>::poll$'), m_join_handle_poll),
            (RX(r'^NamedTempFile::new_in::<'), m_tmp_new_in), (RX(r'Result::<std::result::Result<NamedTempFile, std::io::Error>, JoinError>::unwrap_or_else::<'), m_unwrap_or_else_join),
            (RX(r'^NamedTempFile::into_parts$'), m_into_parts), (RX(r'^tokio::fs::File::from_std$'), m_from_std), (RX(r'as StreamExt>::next$'), m_stream_next),
            (RX(r'^<Next<.*> as futures::Future>::poll$'), m_next_poll), (RX(r'^<bytes::Bytes as AsRef<\[u8\]>>::as_ref$'), m_bytes_as_ref),
            (RX(r'^<tokio::fs::File as tokio::io::AsyncWriteExt>::write_all$'), m_write_all), (RX(r'^<tokio::io::util::write_all::WriteAll<.*> as futures::Future>::poll$'), m_write_all_poll),
            (RX(r'^tokio::fs::File::into_std$'), m_into_std), (RX(r'^NamedTempFile::from_parts$'), m_from_parts), (RX(r'^NamedTempFile::persist::<'), m_persist),
            (RX(r'^std::string::String::as_str$'), m_identity),
        ]
        old_drop = I.on_drop
        def on_drop(s, fr, place):
            try: v = I.load(s, fr, place)
            except Exception: return
            if isinstance(v, Obj) and v.kind in ('temp_path', 'named_temp_file') and v.d.get('alive'):
                s.events.append(('fs.unlink_tmp', v.kind))
        I.on_drop = on_drop
        try:
            done = run_async(I, st, 'Repository::save_target', dict(self=Ref(repo), name=Ref(name), outdir=Obj('path', key='<outdir-arg>'),
                                                                     prepend=Adt('Prefix', PX.index(prefix), {})), generics={'P': 'P'})
        finally:
            I.models[:] = saved; I.on_drop = old_drop
        R.check_interp_clean(I, f'save_target[{prefix}]')
        label = f'save_target[Prefix::{prefix}]'
        for s in done:
            R.paths += 1
            cls, payload = classify(s.result)
            ev = s.events
            effects = [e for e in ev if e[0] in ('fs.create_dir_all', 'tmp.create', 'tmp.write', 'tmp.write_failed', 'fs.persist', 'fs.persist_failed')]
            joins = [e for e in ev if e[0] == 'join']
            def dec(m, s=s, prefix=prefix):
                return {'kind': 'save_target', 'prefix': prefix, 'needs_resolution': bool(z3.is_true(m.eval(needs, model_completion=True))),
                        'events': [str(e[:3]) for e in s.events if e[0].startswith(('fs.', 'tmp.', 'stream', 'join'))][:12]}
            # (ii) containment decided before any effect
            if effects:
                sw = [e for e in ev if e[0] == 'starts_with']
                first_eff = ev.index(effects[0])
                vid = next((e[3] for e in ev if e[0] == 'fs.persist'), None)
                jvid = sw[0][3] if sw and joins and sw[0][1] == 'parent(<OUT>/' + ''.join(joins[0][2]) + ')' else None
                R.obligation(f'{label}: no file-system effect unless the parent of outdir.join(file name) starts with the canonical outdir, checked beforehand', s.pc,
                             z3.And(z3.BoolVal(bool(sw) and ev.index(sw[0]) < first_eff and sw[0][2] == '<OUT>'), Inside(z3.BitVecVal(jvid, 8)) if jvid is not None else z3.BoolVal(False), canon_ok, isdir),
                             decode=dec, group='containment-first')
            # file name: resolved name, digest-prefixed in Digest mode
            if joins:
                ps = joins[0][2]
                want_last = z3.If(needs, z3.BoolVal(ps[-1] == '<RESOLVED>'), z3.BoolVal(ps[-1] == '<RAW>'))
                shape = (len(ps) == 3 and ps[0].startswith("('hex'") and ps[1] == '.') if prefix == 'Digest' else len(ps) == 1
                R.obligation(f'{label}: the file name is built from the RESOLVED target name' + (' with the signed digest as prefix' if prefix == 'Digest' else ''), s.pc,
                             z3.And(z3.BoolVal(bool(shape)), want_last, z3.BoolVal(joins[0][1] == '<OUT>')), decode=dec, group='file-name')
            # (iii) atomic, verified-only
            persists = [e for e in ev if e[0] == 'fs.persist']
            if persists:
                i = ev.index(persists[0])
                before = ev[:i]
                oks = [e[1] for e in before if e[0] == 'stream.ok']; writes = [e[1] for e in before if e[0] == 'tmp.write']
                tmpdir = next((e[1] for e in before if e[0] == 'tmp.create'), None)
                R.obligation(f'{label}: the destination is only ever touched by one rename, after the stream ended without error, of a temp file that lives in the destination directory and holds exactly the verified bytes in order', s.pc,
                             z3.BoolVal(len(persists) == 1 and any(e[0] == 'stream.end' for e in before) and not any(e[0] in ('stream.err', 'tmp.write_failed') for e in before)
                                        and len(oks) == len(writes) and all(z3.eq(a, b) for a, b in zip(oks, writes)) and tmpdir is not None and tmpdir == persists[0][1]
                                        and tmpdir.startswith('parent(<OUT>/')), decode=dec, group='atomic-rename')
                R.obligation(f'{label}: success is reported only after the rename', s.pc, z3.BoolVal(cls == 'Ok'), decode=dec, group='ok-iff-persisted')
            else:
                R.obligation(f'{label}: without a completed rename the call fails', s.pc, z3.BoolVal(cls != 'Ok'), decode=dec, group='ok-iff-persisted')
                if any(e[0] == 'tmp.create' for e in ev) and z3.is_true(z3.simplify(z3.BoolVal(True))):
                    created_ok = [e for e in ev if e[0] == 'tmp.create']
                    R.obligation(f'{label}: on failure the temp file is removed', list(s.pc) + [tmp_ok], z3.BoolVal(any(e[0] == 'fs.unlink_tmp' for e in ev)), decode=dec, group='tmp-removed-on-failure')
            if not z3.is_true(z3.simplify(found)):
                pass
            if cls.startswith('Err') and not effects:
                pass
            # a name without an entry: nothing is created
            R.obligation(f'{label}: a name the trusted metadata does not list creates nothing', list(s.pc) + [z3.Not(found)], z3.BoolVal(not effects), decode=dec, group='not-found-no-effect')
        R.reach_any(f'{label}: success reachable', [s.pc for s in done if classify(s.result)[0] == 'Ok'])
        R.reach_any(f'{label}: failure after data was written to the temp file reachable', [s.pc for s in done if classify(s.result)[0] != 'Ok' and any(e[0] == 'tmp.write' for e in s.events)])
        R.samples.append({'prefix': prefix, 'paths': len(done)})
    native_validation(R, tier)
    finalize(R)

def st_variant(s, joins):
    if not joins: return None
    key = tuple(joins[0][2])
    return s.env.get('variants', {}).get(key)

def native_validation(R, tier):
    res = R.replay('save_targets', {'maxlen': 4 if tier == 'quick' else 5}, timeout=900)
    R.differential['scenarios'] += res['cases']; R.differential['agree'] += res['cases'] - len(res['deviations'])
    R.native_dev = [d['what'] for d in res['deviations']]
    R.samples.append({'native name sweep': {k: res.get(k) for k in ('cases', 'names', 'accepted_names')}})

def finalize(R):
    for d in getattr(R, 'native_dev', [])[:3]:
        R.report_violation('save_target: ' + d, {'what': d})
    if not R.violations:
        for cx in R.counterexamples[:3]:
            R.inconclusive.append(f'counterexample for "{cx["obligation"]}" did not show up in the native save_target sweep: {str(cx.get("scenario") or cx.get("model"))[:400]}')

def replay_file(R, path):
    print(json.dumps(json.load(open(path)))); return 0
