"""C12 — signatures bind all content the client uses; roles cannot be swapped."""
import z3, json, os, re, itertools
from client import *
import stdm, layout
from stdm import dr, BV64

TITLE = 'what is verified is the re-serialisation of the parsed struct: every field of every schema struct reaches the signed bytes exactly once under its own distinct member name, the role tag comes from the Rust type (four distinct constants), unknown members are carried by the flattened map and cannot shadow the tag'
RXc = re.compile
_uid = itertools.count(1)

# fields that are deliberately not part of the serialised form (filled in by the client from elsewhere, never read from the signed document)
ALLOW_SKIP = {('DelegatedTargets', 'name'), ('DelegatedRole', 'targets'), ('PathPattern', 'glob'), ('Decoded', 'bytes'), ('Decoded', 'spooky'), ('TargetName', 'resolved')}
TAGGED = {'Root': 'root', 'Snapshot': 'snapshot', 'Targets': 'targets', 'Timestamp': 'timestamp'}
# struct types that occur as JSON objects inside a signed portion: TUF requires unknown members of such objects to be kept and covered by the signature
SIGNED_OBJECTS = {'Root': '', 'Snapshot': '', 'Targets': '', 'Timestamp': '', 'Metafile': '/meta/NAME', 'Hashes': '/…/hashes', 'Target': '/targets/NAME', 'RoleKeys': '/roles/ROLE',
                  'Delegations': '/delegations', 'DelegatedRole': '/delegations/roles/N', 'RsaKey': '/keys/ID/keyval', 'Ed25519Key': '/keys/ID/keyval', 'EcdsaKey': '/keys/ID/keyval'}

def ser_fns(I):
    """derived / manual Serialize::serialize bodies of the schema types: {self type: Func}"""
    out = {}
    for n, fs in I.funcs.items():
        if not n.endswith('::serialize'): continue
        f = fs[0]
        m = re.match(r'^_1: &(?:schema::|key::|decoded::)?([\w:]+)', f.args)
        if m and ('schema' in n or 'target_name' in n or 'decoded' in n): out[m.group(1).split('::')[-1]] = f
    return out

def models(rec_key='ser'):
    def rec(s, item):
        s.env[rec_key] = list(s.env.get(rec_key) or []) + [item]
    def keystr(I_, s, v):
        k = dr(I_, s, v)
        if isinstance(k, Obj) and k.kind == 'str': return k.d.get('s')
        if isinstance(k, Obj) and k.kind == 'alloc': return k.d.get('static')
        return repr(k)
    def okerr(val, post=None, what='ser'):
        okf = z3.Bool(fresh_name(what + '_ok'))
        return Forks([(okf, mk_ok(val), post), (z3.Not(okf), mk_err(Obj('ser_error')), None)])
    def m_ser_map(I_, s, fr, c, a, d, de, rb): return okerr(Obj('ser_map'), lambda s2: rec(s2, ('begin', 'map')))
    def m_ser_struct(I_, s, fr, c, a, d, de, rb): return okerr(Obj('ser_struct'), lambda s2: rec(s2, ('begin', 'struct', keystr(I_, s2, a[1]))))
    def m_entry(I_, s, fr, c, a, d, de, rb):
        k = keystr(I_, s, a[1]); v = dr(I_, s, a[2])
        return okerr(unit(), lambda s2: rec(s2, ('entry', k, v)), 'entry')
    def m_end(I_, s, fr, c, a, d, de, rb): return okerr(Obj('ser_output'), lambda s2: rec(s2, ('end',)), 'end')
    def m_flatten(I_, s, fr, c, a, d, de, rb):
        v = dr(I_, s, a[0]); return okerr(unit(), lambda s2: rec(s2, ('flatten', v)), 'flatten')
    def m_unit_variant(I_, s, fr, c, a, d, de, rb):
        return okerr(Obj('ser_output'), lambda s2: rec(s2, ('unit_variant', keystr(I_, s2, a[1]), keystr(I_, s2, a[3]))), 'variant')
    def m_ser_str(I_, s, fr, c, a, d, de, rb):
        v = dr(I_, s, a[1]); return okerr(Obj('ser_output'), lambda s2: rec(s2, ('str', v)), 'str')
    def m_newtype_struct(I_, s, fr, c, a, d, de, rb):
        v = dr(I_, s, a[2]); return okerr(Obj('ser_output'), lambda s2: rec(s2, ('str', v)), 'newtype')
    def m_newtype_variant(I_, s, fr, c, a, d, de, rb):
        return okerr(Obj('ser_output'), lambda s2: rec(s2, ('newtype_variant', keystr(I_, s2, a[1]), keystr(I_, s2, a[3]), dr(I_, s2, a[4]))), 'variant')
    def m_is_none(I_, s, fr, c, a, d, de, rb):
        v = dr(I_, s, a[0]); b = z3.Bool(f'absent_{v.d.get("uid")}'); s.events.append(('skip_if', v.d.get('uid'), b)); return b
    def m_deref_field(I_, s, fr, c, a, d, de, rb): return a[0]
    return [(RXc(r' as schema::_::_serde::Serializer>::serialize_map$| as Serializer>::serialize_map$'), m_ser_map), (RXc(r'Serializer>::serialize_struct$'), m_ser_struct),
            (RXc(r'as SerializeMap>::serialize_entry::<'), m_entry), (RXc(r'as SerializeStruct>::serialize_field::<'), m_entry), (RXc(r'as (SerializeMap|SerializeStruct)>::end$'), m_end),
            (RXc(r' as Serialize>::serialize::<.*FlatMapSerializer<'), m_flatten), (RXc(r'Serializer>::serialize_unit_variant$'), m_unit_variant), (RXc(r'Serializer>::serialize_str$'), m_ser_str),
            (RXc(r'Serializer>::serialize_newtype_variant::<'), m_newtype_variant), (RXc(r'Serializer>::serialize_newtype_struct::<'), m_newtype_struct), (RXc(r'^PathHashPrefix::value$'), None), (RXc(r'^std::option::Option::<.*>::is_none$'), m_is_none), (RXc(r'^HashMap::<.*>::is_empty$'), m_is_none),
            (RXc(r'^<std::string::String as (Deref>::deref|AsRef<str>>::as_ref)$'), m_deref_field), (RXc(r'^<&?str as AsRef<str>>::as_ref$'), m_deref_field), (RXc(r'^PathPattern::value$|^TargetName::raw$'), None)]

def tuple_struct_arity(name):
    import glob, os
    from harness import REPO
    for f in glob.glob(os.path.join(REPO, 'tough', 'src', '**', '*.rs'), recursive=True):
        m = re.search(r'struct\s+%s\s*\(([^;{]*)\)\s*;' % re.escape(name), open(f).read())
        if m:
            inner = m.group(1).strip()
            return 0 if not inner else len(split_top(inner))
    return None

def leafval(struct, fname): return Obj('fieldval', uid=next(_uid), of=f'{struct}.{fname}')

def check(R, tier):
    I = R.interp('tough'); install_world(I)
    fns = ser_fns(I)
    R.bounds.update({'types': 'every schema type with a Serialize impl in the MIR (' + ', '.join(sorted(fns)) + ')', 'values': 'every field an opaque symbolic value; optional members present or absent; every enum variant'})
    R.assumptions += ['a Serializer records the members it is given (serde_json + the canonical formatter then write them: C11); serde_json / serde derive PARSING internals are outside the MIR: that half of C12 (re-formatting, re-ordering, foreign extra members) is exercised only by the native mutation sweep',
                      'signature schemes are unforgeable and canonical JSON is injective on the recorded member list (C11)', 'the client only uses the parsed struct, never the raw document text (true by construction of load_*: they keep Signed<T>)']
    saved = list(I.models)
    ms = [m for m in models() if m[1] is not None]
    I.models[:0] = ms + stdm.STD_MODELS
    tags = {}
    try:
        for tname, fn in sorted(fns.items()):
            kinds = layout.scan()
            if tname in kinds['structs']:
                variants_ = [(None, layout.fields(tname))]
            elif tname in kinds['enums']:
                variants_ = [(i, None) for i in range(len(layout.variants(tname)))]
            else:
                # tuple struct (e.g. `pub struct PathHashPrefix(String);`): positional fields read from the source
                arity = tuple_struct_arity(tname)
                if arity is None:
                    R.inconclusive.append(f'{tname} has a Serialize impl but its layout could not be read: not checked'); continue
                variants_ = [(None, [str(i) for i in range(arity)])]
            for vidx, fields_ in variants_:
                label = f'<{tname} as Serialize>' + (f'[{layout.variants(tname)[vidx]}]' if vidx is not None else '')
                st = State(); st.env['fs'] = {}; st.env['ser'] = []
                leaves = {}
                if fields_ is not None:
                    val = Adt(tname, None, {})
                    for i, f in enumerate(fields_):
                        leaves[f] = leafval(tname, f); val.fields[(None, i)] = leaves[f]
                else:
                    val = Adt(tname, vidx, {})          # variant payload fields materialise lazily as Unknowns; give named leaves on demand
                    vname = layout.variants(tname)[vidx]
                    for i in range(4):
                        leaves[f'{vname}.{i}'] = leafval(tname, f'{vname}.{i}'); val.fields[(vname, i)] = leaves[f'{vname}.{i}']
                I.push_call(st, fn, [Ref(st.alloc(val)), Obj('serializer')], None, None, generics={'T': 'T', '__S': 'S'})
                done = []; I.run(st, done.append)
                R.check_interp_clean(I, label)
                oks = []
                for s in done:
                    R.paths += 1
                    r = s.result
                    if not (isinstance(r, Adt) and r.discr == 0): continue
                    oks.append(s)
                    rec = s.env.get('ser') or []
                    entries = [e for e in rec if e[0] == 'entry']; flats = [e for e in rec if e[0] == 'flatten']
                    keys = [e[1] for e in entries]
                    def dec(m, label=label, keys=keys): return {'kind': 'serialize', 'type': label, 'members': keys}
                    R.obligation(f'{label}: member names are distinct constants', s.pc, z3.BoolVal(len(set(keys)) == len(keys) and all(isinstance(k, str) for k in keys)), decode=dec, group='distinct-members')
                    emitted = {}
                    for e in entries + flats:
                        v = e[2] if e[0] == 'entry' else e[1]
                        if isinstance(v, Obj) and v.kind == 'fieldval': emitted[v.d['uid']] = emitted.get(v.d['uid'], 0) + 1
                    strs = [e for e in rec if e[0] in ('str', 'newtype_variant')]
                    for e in strs:
                        v = e[1] if e[0] == 'str' else e[3]
                        if isinstance(v, Obj) and v.kind == 'fieldval': emitted[v.d['uid']] = emitted.get(v.d['uid'], 0) + 1
                    skipped = {e[1]: e[2] for e in s.events if e[0] == 'skip_if'}
                    if fields_ is not None:
                        for f in fields_:
                            if (tname, f) in ALLOW_SKIP:
                                R.obligation(f'{label}: {f} is client-side state and stays out of the signed form', s.pc, z3.BoolVal(emitted.get(leaves[f].d['uid'], 0) == 0), decode=dec, group='client-side-fields')
                                continue
                            n = emitted.get(leaves[f].d['uid'], 0)
                            cond = z3.BoolVal(n == 1)
                            if leaves[f].d['uid'] in skipped:       # skip_serializing_if: absent exactly when the value is None / empty
                                cond = z3.If(skipped[leaves[f].d['uid']], z3.BoolVal(n == 0), z3.BoolVal(n == 1))
                            R.obligation(f'{label}: field `{f}` reaches the serialised form exactly once (omitted only when it is None / empty)', s.pc, cond, decode=dec, group='every-field-signed')
                    else:
                        used = [u for u, n in emitted.items()]
                        R.obligation(f'{label}: every payload field of the variant that is emitted is emitted once', s.pc, z3.BoolVal(all(n == 1 for n in emitted.values())), decode=dec, group='every-field-signed')
                    if tname in SIGNED_OBJECTS:
                        lvl = SIGNED_OBJECTS[tname]
                        R.obligation(f'{label}: the object carries its unknown members into the signed form (a flattened catch-all map is serialised)', s.pc, z3.BoolVal(any(isinstance(e[1], Obj) and str(e[1].d.get('of', '')).endswith('._extra') for e in flats)),
                                     decode=lambda m, lvl=lvl, label=label: {'kind': 'no-catch-all', 'type': label, 'level': lvl}, group='carries-unknown-members')
                    if tname in TAGGED:
                        tag = [e for e in entries if e[1] == '_type']
                        tv = tag[0][2] if tag else None
                        tvs = tv.d.get('s') if isinstance(tv, Obj) and tv.kind == 'str' else (tv.d.get('static') if isinstance(tv, Obj) else None)
                        tags[tname] = tvs
                        R.obligation(f'{label}: the `_type` member is the constant "{TAGGED[tname]}" of the Rust type (never copied from the input)', s.pc, z3.BoolVal(len(tag) == 1 and tvs == TAGGED[tname]), decode=dec, group='role-tag')
                    R.samples.append({'type': label, 'members': keys, 'flattened': len(flats)})
                R.reach_any(f'{label}: success reachable', [s.pc for s in oks])
        R.obligation('the four role tags are pairwise distinct', [], z3.BoolVal(len(set(tags.values())) == 4 and None not in tags.values()), group='role-tag')
        extra_skip_type(R, I)
    finally:
        I.models[:] = saved
    native(R, tier)

def extra_skip_type(R, I):
    """de::extra_skip_type: the flattened map of unknown members is what the parser collected minus `_type`"""
    fn = None
    for n, fs in I.funcs.items():
        if n.endswith('extra_skip_type') and 'schema/de.rs' in n or n == 'extra_skip_type': fn = fs[0]
    if fn is None:
        for n, fs in I.funcs.items():
            if 'extra_skip_type' in n and 'closure' not in n: fn = fs[0]
    if fn is None: raise Stuck('extra_skip_type not found')
    Coll = z3.Function('ParsedMember', z3.StringSort(), stdm.VAL)
    def m_hm_deser(I_, s, fr, c, a, d, de, rb):
        okf = z3.Bool(fresh_name('parse_ok'))
        return Forks([(okf, mk_ok(Obj('smapf', f=lambda k: Coll(k))), None), (z3.Not(okf), mk_err(Obj('de_error')), None)])
    def m_remove(I_, s, fr, c, a, d, de, rb):
        m = dr(I_, s, a[0]); k = dr(I_, s, a[1]); ks = k.d.get('s') if k.kind == 'str' else k.d.get('static')
        old = m.d['f']; m.d['f'] = lambda x: z3.If(x == z3.StringVal(ks), stdm.V0(), old(x)); s.events.append(('removed', ks)); return mk_none()
    I.models[:0] = [(RXc(r'^<HashMap<std::string::String, Value> as Deserialize<.*>>::deserialize::<'), m_hm_deser), (RXc(r'^HashMap::<std::string::String, Value>::remove::<str>$'), m_remove)]
    try:
        st = State(); st.env['fs'] = {}
        I.push_call(st, fn, [Obj('deserializer')], None, None)
        done = []; I.run(st, done.append)
        R.check_interp_clean(I, 'extra_skip_type')
        oks = []
        for s in done:
            R.paths += 1
            if s.result.discr != 0: continue
            oks.append(s); m = dr(I, s, s.result.fields[('Ok', 0)]); k = z3.String('anymember')
            R.obligation('extra_skip_type: the unknown-member map is exactly what was parsed minus `_type` (so the tag emitted from the Rust type is the only `_type` in the signed form)', s.pc,
                         m.d['f'](k) == z3.If(k == z3.StringVal('_type'), stdm.V0(), Coll(k)), group='extra-skip-type')
        R.reach_any('extra_skip_type: success reachable', [s.pc for s in oks])
    finally:
        del I.models[:2]

def native(R, tier):
    seed = int(os.environ.get('VERIF_SEED', '0'))
    res = R.replay('mutate_signed', {'seed': seed, 'thorough': tier != 'quick'}, timeout=1800)
    R.differential['scenarios'] += res['cases']
    R.samples.append({'native mutation sweep': res.get('stats')})
    seen = set(); real = 0
    for d in res['deviations']:
        key = None
        if d['class'] == 'foreign-extra-members' and d.get('level'):
            key = 'unknown-members-dropped:' + re.sub(r'/\d+', '/N', d['level'])
        ident = key or (d['class'] + ':' + d['level'] if d['class'] in ('key-member-mutation-accepted', 'foreign-key-extra-member-refused') else d['class'])
        if ident in seen: continue
        seen.add(ident)
        before = len(R.violations)
        R.report_violation('signed-document mutation sweep: ' + d['what'], {'op': 'mutate_signed', 'seed': seed, 'native': d}, finding_key=key)
        real += len(R.violations) - before
    R.differential['agree'] += res['cases'] - real
    # solver counterexamples: `carries-unknown-members` is replayed by the level probe of the sweep; anything else must show up as a deviation
    for cx in R.counterexamples:
        if cx['group'] == 'carries-unknown-members':
            lvl = (cx.get('scenario') or {}).get('level')
            if ('unknown-members-dropped:' + str(lvl)) in seen: continue
            if any(x in seen for x in ('key-member-mutation-accepted:' + str(lvl), 'foreign-key-extra-member-refused:' + str(lvl))): continue
            R.inconclusive.append(f'counterexample for "{cx["obligation"]}" (level {lvl}) was not reproduced by the native level probe')
        elif not res['deviations']:
            R.inconclusive.append(f'counterexample for "{cx["obligation"]}" did not show up in the native mutation sweep: {str(cx.get("scenario"))[:300]}')

def replay_file(R, path):
    sc = json.load(open(path))['scenario']
    print(json.dumps(R.replay('mutate_signed', {'seed': sc.get('seed', 0), 'thorough': True}, timeout=1800))); return 0
