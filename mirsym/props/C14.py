"""C14 — online-key rotation lets clients recover from fast-forwarded versions."""
import z3, json
from histreplay import *
import props.C03 as C03

TITLE = 'a newer root that replaces timestamp/snapshot keys removes the stored timestamp and snapshot; unchanged keys keep protecting'

def key_list(rid, role_idx, n):
    return [KS(rid, IDV(role_idx))] if n == 1 else [RKey(rid, IDV(role_idx), IDV(i)) for i in range(n)]

def lists_differ(a, b):
    if len(a) != len(b): return z3.BoolVal(True)
    return z3.Or([x != y for x, y in zip(a, b)])

def check(R, tier):
    R.fallback_kinds = {'rollback'}
    I = R.interp('tough'); install_world(I)
    cycle_composition(R, I)
    RT = variants('RoleType'); TS, SN = RT.index('Timestamp'), RT.index('Snapshot')
    R.bounds.update({'key list lengths (timestamp, snapshot)': '1 and 2 on either side of the rotation', 'root hops': '1 (all key-list shapes) and 2 (lists of length 1; thorough: also a list extended at the first hop)', 'stored versions': 'any u64 (up to 2^64-1)',
                     'history': 'cycle 1 trusts the shipped root; cycle 2 sees one newer root'})
    R.assumptions += ['V = W(key set, threshold, doc): a stored document may or may not still verify under the new root (overlapping keys)', 'clock disabled (C04)']
    combos = [((1, 1), (1, 1)), ((1, 1), (2, 1)), ((2, 1), (1, 1)), ((1, 1), (1, 2)), ((1, 2), (1, 1)), ((2, 2), (2, 2))]
    if tier == 'quick': combos = combos[:5]
    for kl_ship, kl_hop in combos:
        P = root_params(1, 1); P['lkt_present'] = z3.BoolVal(False); P['safe'] = z3.BoolVal(False); P['join_fails'] = z3.BoolVal(False)
        paths = summarize_load_root(I, P, klens=(kl_ship, kl_hop)); R.check_interp_clean(I, f'load_root{kl_ship}->{kl_hop}')
        label = f'load_root[key lists {kl_ship} -> {kl_hop}]'
        for p in paths:
            if not p.ok: continue
            R.paths += 1
            fin = doc_id(p.payload)
            adopted = z3.eq(fin, P.hop[0])
            klf = kl_hop if adopted else kl_ship
            rot = z3.Or(lists_differ(key_list(P.shipped, TS, kl_ship[0]), key_list(fin, TS, klf[0])),
                        lists_differ(key_list(P.shipped, SN, kl_ship[1]), key_list(fin, SN, klf[1])))
            un = [e[1] for e in p.ev('fs.unlink')]
            pres_ts, _ = p.fs.get('/ds/timestamp.json', (z3.BoolVal(False), None)); pres_sn, _ = p.fs.get('/ds/snapshot.json', (z3.BoolVal(False), None))
            def dec(m, kl_ship=kl_ship, kl_hop=kl_hop, adopted=adopted):
                ev = lambda t: m.eval(t, model_completion=True)
                return {'kind': 'rotation', 'kl_ship': kl_ship, 'kl_hop': kl_hop, 'adopted': bool(adopted),
                        'ts_ship': [ev(x).as_long() for x in key_list(P.shipped, TS, kl_ship[0])], 'ts_hop': [ev(x).as_long() for x in key_list(P.hop[0], TS, kl_hop[0])],
                        'sn_ship': [ev(x).as_long() for x in key_list(P.shipped, SN, kl_ship[1])], 'sn_hop': [ev(x).as_long() for x in key_list(P.hop[0], SN, kl_hop[1])]}
            R.obligation(f'{label}: timestamp or snapshot key list changed => no stored timestamp.json / snapshot.json survives load_root', p.pc,
                         z3.Implies(rot, z3.And(z3.Not(pres_ts), z3.Not(pres_sn))), decode=dec, group='rotation-deletes')
            R.obligation(f'{label}: key lists unchanged => stored timestamp.json / snapshot.json are left alone', p.pc,
                         z3.Implies(z3.Not(rot), z3.BoolVal(not un)), decode=dec, group='no-rotation-keeps')
            R.obligation(f'{label}: targets.json is never deleted by the rotation step', p.pc, z3.BoolVal(not any(u.endswith('targets.json') for u in un)), group='targets-kept')
        R.reach_any(f'{label}: hop adopted with a changed list', [p.pc for p in paths if p.ok and z3.eq(doc_id(p.payload), P.hop[0])])
        R.samples.append({'key lists': [kl_ship, kl_hop], 'paths': len(paths)})
    # ---- two hops in one walk: what counts is the FINAL root's lists against the ones trusted before the walk (a rotation at the first hop
    #      followed by a plain re-issue is still a rotation; rotating away and back within one walk is not)
    for kls in ([((1, 1), (1, 1), (1, 1))] if tier == 'quick' else [((1, 1), (1, 1), (1, 1)), ((1, 1), (2, 1), (2, 1)), ((1, 1), (2, 1), (1, 1))]):
        P = root_params(2, 1); P['lkt_present'] = z3.BoolVal(False); P['safe'] = z3.BoolVal(False); P['join_fails'] = z3.BoolVal(False)
        paths = summarize_load_root(I, P, klens=kls); R.check_interp_clean(I, f'load_root{kls}')
        label = f'load_root[two hops, key lists {kls}]'
        for p in paths:
            if not p.ok: continue
            R.paths += 1
            fin = doc_id(p.payload)
            which = 2 if z3.eq(fin, P.hop[1]) else (1 if z3.eq(fin, P.hop[0]) else 0)
            klf = kls[which]
            rot = z3.Or(lists_differ(key_list(P.shipped, TS, kls[0][0]), key_list(fin, TS, klf[0])), lists_differ(key_list(P.shipped, SN, kls[0][1]), key_list(fin, SN, klf[1])))
            un = [e[1] for e in p.ev('fs.unlink')]
            pres_ts, _ = p.fs.get('/ds/timestamp.json', (z3.BoolVal(False), None)); pres_sn, _ = p.fs.get('/ds/snapshot.json', (z3.BoolVal(False), None))
            def dec2(m, kls=kls, which=which): return {'kind': 'rotation-2-hops', 'key_list_lengths': kls, 'final_root_is_hop': which}
            R.obligation(f'{label}: final key lists differ from the ones trusted before the walk => no stored timestamp.json / snapshot.json survives', p.pc,
                         z3.Implies(rot, z3.And(z3.Not(pres_ts), z3.Not(pres_sn))), decode=dec2, group='rotation-deletes/2-hops')
            R.obligation(f'{label}: final key lists equal the ones trusted before the walk => stored files are left alone', p.pc, z3.Implies(z3.Not(rot), z3.BoolVal(not un)), decode=dec2, group='no-rotation-keeps/2-hops')
        R.reach_any(f'{label}: both hops adopted', [p.pc for p in paths if p.ok and z3.eq(doc_id(p.payload), P.hop[1])])
        R.samples.append({'key lists (two hops)': kls, 'paths': len(paths)})
    # ---- end to end: after a rotation the fast-forwarded stored versions do not lock the client out
    sums = build_summaries(I, hops=1); R.check_interp_clean(I, 'summaries')
    # second mechanism: a stored document that no longer verifies under the current root is ignored by the rollback comparison, so a client whose
    # trusted root already carries the new online keys (no root walk crosses the rotation, step 1.9 has nothing to compare) is not locked out either
    for s, f in zip(sums[1:], ('timestamp.json', 'snapshot.json', 'targets.json')):
        pres, prs, old = s.P.ds[f]
        for p in s.paths:
            if 'OlderMetadata' in p.cls:
                R.obligation(f'load_{s.name}: OlderMetadata only against a stored document that is present, parses and verifies under the current root', p.pc, z3.And(pres, prs, V(s.P.root, old)),
                             decode=lambda m, nm=s.name: {'kind': 'stale-store', 'role': nm}, group='guard/' + s.name)
    shipped, cyc, f = C03.build_history(sums, 2, 'r')
    a, b = cyc
    rotated = z3.Or(KS(a.root, IDV(TS)) != KS(b.root, IDV(TS)), KS(a.root, IDV(SN)) != KS(b.root, IDV(SN)))
    base = f + [a.ok, a.root == shipped, b.ok_root, b.root != shipped]
    R.obligation('2 cycles: after a root that replaced the timestamp or snapshot key, lower timestamp/snapshot versions are not rejected as OlderMetadata',
                 base + [rotated], z3.Not(z3.Or(b.older_ts, b.older_sn)), group='history/recovers')
    R.reach('2 cycles: rotation of the timestamp key, stored version 2^63, restarted repository at version 1 accepted',
            base + [rotated, Ver(a.ts) == 2 ** 63, Ver(b.ts) == 1, b.ok])
    R.reach('2 cycles: no rotation and a lower timestamp version is rejected (protection kept)', base + [z3.Not(rotated), Thr(a.root, IDV(TS)) == Thr(b.root, IDV(TS)), b.older_ts])
    finalize(R, sums)
    replay_composition(R)

MENU = [([1], [1]), ([1], [2]), ([1], [1, 2]), ([1, 2], [1]), ([1, 2], [2, 1]), ([1, 2], [1, 3]), ([1, 2], [1, 2]), ([1], [2, 1])]
def finalize(R, sums):
    """native side: (1) differential validation of the key-list model on a fixed menu of list shapes (prefix-extended, truncated,
    re-ordered, replaced, unchanged) for either role; (2) replay of solver counterexamples.  Any native deviation from the
    property is a violation; counterexamples that never reproduce leave the check inconclusive."""
    reported = False
    tried = set()
    def attempt(sc, g):
        nonlocal reported
        key = (tuple(sc['ts_ship']), tuple(sc['ts_hop']), tuple(sc['sn_ship']), tuple(sc['sn_hop']))
        if key in tried: return None
        tried.add(key)
        res, what = replay_rotation(R, sc, g)
        R.differential['scenarios'] += 1
        if res:
            if not reported: R.report_violation(what, res); reported = True
            return True
        R.differential['agree'] += 1
        return False
    for a, b in MENU:
        attempt({'ts_ship': a, 'ts_hop': b, 'sn_ship': [1], 'sn_hop': [1]}, 'menu')
        attempt({'ts_ship': [1], 'ts_hop': [1], 'sn_ship': a, 'sn_hop': b}, 'menu')
    # two hops in one walk: rotation at the first hop, plain re-issue at the second (and the mirror case: no rotation at all over two hops)
    for ts_mid, ts_fin, what in (([1, 2], [1, 2], 'root v2 extends the timestamp key list, root v3 re-issues it unchanged'), ([1], [1], 'roots v2 and v3 keep the online keys')):
        def root3(v, ts):
            return {'version': v, 'consistent': False, 'table': sorted(set([0, 13, 7] + ts)), 'signers': [0],
                    'roles': {'root': {'keys': [0], 'thr': 1}, 'timestamp': {'keys': ts, 'thr': 1}, 'snapshot': {'keys': [7], 'thr': 1}, 'targets': {'keys': [13], 'thr': 1}}}
        scen = {'nkeys': 14, 'roots': [root3(1, [1]), root3(2, ts_mid), root3(3, ts_fin)], 'cycles': [
            {'shipped': 0, 'serve_roots': {}, 'safe': False, 'timestamp': {'version': 2 ** 63, 'signers': [1]}, 'snapshot': {'version': 2 ** 63, 'signers': [7]}, 'targets': {'version': 1, 'signers': [13]}},
            {'shipped': 0, 'serve_roots': {'2': 1, '3': 2}, 'safe': False, 'timestamp': {'version': 1, 'signers': [1]}, 'snapshot': {'version': 1, 'signers': [7]}, 'targets': {'version': 1, 'signers': [13]}}]}
        real = R.replay('history', scen); c1, c2 = real['cycles']
        R.differential['scenarios'] += 1
        changed = ts_fin != [1]
        if c1['ok'] and changed and not c2['ok'] and c2.get('err') == 'OlderMetadata' and not reported:
            R.report_violation(f'two root updates in one walk ({what}): the online key list changed, yet the fast-forwarded stored versions still lock the client out: {c2.get("msg", "")[:140]}', scen); reported = True
        elif c1['ok'] and not changed and c2['ok'] and not reported:
            R.report_violation(f'two root updates in one walk ({what}): stored timestamp/snapshot no longer protect (version 1 accepted after 2^63)', scen); reported = True
        else: R.differential['agree'] += 1
    # the trusted root already carries the new online keys (shipped with an application update): the stored, fast-forwarded timestamp / snapshot
    # do not verify under it and must be ignored.  Replay of the guard/* counterexamples, and run on every check.
    def root4(v, ts, sn):
        return {'version': v, 'consistent': False, 'table': sorted({0, 13, ts, sn}), 'signers': [0],
                'roles': {'root': {'keys': [0], 'thr': 1}, 'timestamp': {'keys': [ts], 'thr': 1}, 'snapshot': {'keys': [sn], 'thr': 1}, 'targets': {'keys': [13], 'thr': 1}}}
    stale_dev = False
    for what, ts2, sn2, v2 in (('both online keys replaced', 4, 10, {'timestamp': 1, 'snapshot': 1}), ('only the snapshot key replaced', 1, 10, {'timestamp': 2 ** 63 + 1, 'snapshot': 5}),
                               ('only the timestamp key replaced', 4, 7, {'timestamp': 3, 'snapshot': 2 ** 63})):
        scen = {'nkeys': 14, 'roots': [root4(1, 1, 7), root4(2, ts2, sn2)], 'cycles': [
            {'shipped': 0, 'serve_roots': {}, 'safe': False, 'timestamp': {'version': 2 ** 63, 'signers': [1]}, 'snapshot': {'version': 2 ** 63, 'signers': [7]}, 'targets': {'version': 1, 'signers': [13]}},
            {'shipped': 1, 'serve_roots': {}, 'safe': False, 'timestamp': {'version': v2['timestamp'], 'signers': [ts2]}, 'snapshot': {'version': v2['snapshot'], 'signers': [sn2]}, 'targets': {'version': 1, 'signers': [13]}}]}
        real = R.replay('history', scen); c1, c2 = real['cycles']
        R.differential['scenarios'] += 1
        if c1['ok'] and not c2['ok'] and c2.get('err') == 'OlderMetadata':
            stale_dev = True
            if not reported:
                R.report_violation(f'the trusted root already carries the new online keys ({what}); the stored fast-forwarded document does not verify under it, yet it still locks the client out: {c2.get("msg", "")[:140]}', scen); reported = True
        else: R.differential['agree'] += 1
    unrepro = []
    for cx in R.counterexamples:
        sc = cx.get('scenario')
        if cx['group'].startswith('composition/'): continue
        if cx['group'].startswith('guard/'):
            if not stale_dev: unrepro.append(cx)
            continue
        if cx['group'].endswith('/2-hops'):
            if not reported: unrepro.append(cx)
        elif cx['group'] in ('rotation-deletes', 'no-rotation-keeps') and sc:
            r = attempt(sc, cx['group'])
            if r is False: unrepro.append(cx)
        else: unrepro.append(cx)
    if not reported:
        for cx in unrepro[:4]:
            R.inconclusive.append(f'counterexample for "{cx["obligation"]}" did not reproduce natively: {str(cx.get("scenario") or cx.get("model"))[:300]}')

def replay_rotation(R, sc, group):
    """two cycles: cycle 1 under root v1 stores timestamp/snapshot at 2^63 signed by a key that stays authorised; then root v2 with the
    solver's key lists; the repository restarts at version 1"""
    def keys_for(lst, base):
        # map abstract ids to real key indices; the first old key is shared when the solver says so
        return [base + (x % 3) for x in lst]
    ts1 = sorted(set(keys_for(sc['ts_ship'], 1)), key=keys_for(sc['ts_ship'], 1).index); ts2 = []
    for x, y in zip(sc['ts_hop'], range(len(sc['ts_hop']))):
        ts2.append(1 + (x % 3) if x in sc['ts_ship'] else 4 + y)
    sn1 = sorted(set(keys_for(sc['sn_ship'], 7)), key=keys_for(sc['sn_ship'], 7).index); sn2 = []
    for x, y in zip(sc['sn_hop'], range(len(sc['sn_hop']))):
        sn2.append(7 + (x % 3) if x in sc['sn_ship'] else 10 + y)
    def dedup(l):
        out = []
        for x in l:
            if x not in out: out.append(x)
        return out
    ts1, ts2, sn1, sn2 = dedup(ts1), dedup(ts2), dedup(sn1), dedup(sn2)
    changed = ts1 != ts2 or sn1 != sn2
    def root(v, ts, sn):
        return {'version': v, 'consistent': False, 'table': sorted(set([0, 13] + ts + sn)), 'signers': [0],
                'roles': {'root': {'keys': [0], 'thr': 1}, 'timestamp': {'keys': ts, 'thr': 1}, 'snapshot': {'keys': sn, 'thr': 1}, 'targets': {'keys': [13], 'thr': 1}}}
    # a signer that is authorised before AND after, if there is one (overlap); else the first of each epoch
    ts_sig1 = [k for k in ts1 if k in ts2][:1] or ts1[:1]; sn_sig1 = [k for k in sn1 if k in sn2][:1] or sn1[:1]
    ts_sig2 = [k for k in ts2 if k in ts1][:1] or ts2[:1]; sn_sig2 = [k for k in sn2 if k in sn1][:1] or sn2[:1]
    scen = {'nkeys': 14, 'roots': [root(1, ts1, sn1), root(2, ts2, sn2)], 'cycles': [
        {'shipped': 0, 'serve_roots': {}, 'safe': False, 'timestamp': {'version': 2 ** 63, 'signers': ts_sig1}, 'snapshot': {'version': 2 ** 63, 'signers': sn_sig1},
         'targets': {'version': 1, 'signers': [13]}},
        {'shipped': 0, 'serve_roots': {'2': 1}, 'safe': False, 'timestamp': {'version': 1, 'signers': ts_sig2}, 'snapshot': {'version': 1, 'signers': sn_sig2},
         'targets': {'version': 1, 'signers': [13]}}]}
    real = R.replay('history', scen)
    c1, c2 = real['cycles']
    if not c1['ok']: return None, f'cycle 1 failed natively ({c1.get("err")})'
    if changed and not c2['ok'] and c2.get('err') == 'OlderMetadata':
        return scen, (f'root v2 changes the online key lists (timestamp {ts1} -> {ts2}, snapshot {sn1} -> {sn2}) but the fast-forwarded stored versions still lock the client out: '
                      f'{c2.get("msg", "")[:140]}')
    if not changed and c2['ok']:
        return scen, f'root v2 keeps the online key lists (timestamp {ts1}, snapshot {sn1}) yet the stored timestamp/snapshot no longer protect: version 1 accepted after 2^63'
    return None, f'native outcome consistent with the property (changed={changed}, cycle 2 ok={c2["ok"]} err={c2.get("err")})'

def replay_file(R, path):
    sc = json.load(open(path))['scenario']; print(json.dumps(R.replay('history', sc))); return 0
