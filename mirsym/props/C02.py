"""C02 — root rotation follows an unbroken, doubly-signed, forward-only chain."""
import z3
from client import *

TITLE = 'root chain walk = reference walk (old-key check, new-key check, version increase, stop at first gap)'

def ref_walk(P, nparsed):
    """reference: (final root term, per-hop acceptance terms, per-hop current-root terms)"""
    cur = P.shipped; accs = []; curs = []
    for i in range(nparsed):
        curs.append(cur)
        acc = z3.And(V(cur, P.hop[i]), V(P.hop[i], P.hop[i]), z3.ULT(Ver(cur), Ver(P.hop[i])))
        accs.append(acc)
        cur = z3.If(acc, P.hop[i], cur)
    curs.append(cur)
    return cur, accs, curs

def decode(P, hops):
    def dec(m):
        ev = lambda t: m.eval(t, model_completion=True)
        ids = [ev(P.shipped)] + [ev(h) for h in P.hop]
        docs = []
        for i, d in enumerate(ids):
            docs.append({'id': d.as_long(), 'version': ev(Ver(d)).as_long(), 'parses': True if i == 0 else bool(z3.is_true(ev(P.hop_parses[i - 1])))})
        ver = {}
        for a in ids:
            for b in ids: ver[f'{a.as_long()}->{b.as_long()}'] = bool(z3.is_true(ev(V(a, b))))
        return {'kind': 'root_chain', 'docs': docs, 'V': ver, 'fetch_err': [bool(z3.is_true(ev(x))) for x in P.hop_fetch_err],
                'max_root_updates': ev(P.max_updates).as_long(), 'safe': bool(z3.is_true(ev(P.safe)))}
    return dec

def check(R, tier):
    I = R.interp('tough'); install_world(I)
    hops = 3 if tier == 'thorough' else 2
    R.bounds.update({'root hops': f'0..{hops} accepted (+1 terminating probe)', 'versions': 'any u64', 'chunks per file': 1,
                     'timestamp/snapshot key lists': 'length 1 and 2'})
    R.assumptions += ['Root::verify_role = C01 oracle V(root, doc); parse oracle per served file', 'awaited operations complete']
    for klens in (((1, 1),), ((2, 1), (1, 2))) if tier == 'thorough' else (((1, 1),),):
        P = root_params(hops, 1); P['lkt_present'] = z3.BoolVal(False)
        paths = summarize_load_root(I, P, klens=klens); R.check_interp_clean(I, 'load_root')
        dec = decode(P, hops)
        for p in paths:
            if p.cls == 'panic':
                # overflow of version + max_root_updates (debug build panics; release wraps): only with absurd limits
                R.obligation('load_root: arithmetic overflow only if shipped version + max_root_updates exceeds u64', p.pc,
                             z3.Not(z3.BVAddNoOverflow(Ver(P.shipped), P.max_updates, False)), group='panic-only-on-overflow'); continue
            R.paths += 1
            fetches = p.ev('fetch'); parses = [e for e in p.ev('parse') if e[1] != 'shipped']
            final, accs, curs = ref_walk(P, len(parses))
            if any(e[0] == 'unwind_exceeded' for e in p.events):
                R.inconclusive.append('load_root: unwinding bound exceeded (more hops than provisioned are reachable)'); continue
            if p.ok:
                R.obligation('Ok => trusted root is the last root of the reference walk', p.pc, doc_id(p.payload) == final, decode=dec, group='final-is-reference')
                R.obligation('Ok => shipped root verified under its own keys', p.pc, V(P.shipped, P.shipped), decode=dec, group='shipped-self-verified')
                R.obligation('Ok => final version >= shipped version', p.pc, z3.UGE(Ver(doc_id(p.payload)), Ver(P.shipped)), decode=dec, group='never-below-shipped')
                # the budget is counted in versions and checked before every request: a walk only ends well on a root below shipped + max_root_updates
                # (beyond it the cycle fails with MaxUpdatesExceeded; it never ends quietly on that root while further roots may be on offer)
                R.obligation('Ok => the walk did not end because the update budget ran out (final version < shipped version + max_root_updates)', p.pc,
                             z3.Implies(z3.BVAddNoOverflow(Ver(P.shipped), P.max_updates, False), z3.ULT(Ver(doc_id(p.payload)), Ver(P.shipped) + P.max_updates)), decode=dec, group='budget-not-silently-exhausted')
                for i in range(len(parses)):
                    R.obligation(f'Ok => hop {i} was verified under the CURRENT root and under ITSELF and is not older', p.pc,
                                 z3.And(V(curs[i], P.hop[i]), V(P.hop[i], P.hop[i]), z3.ULE(Ver(curs[i]), Ver(P.hop[i]))), decode=dec, group='hop-double-signed')
                # the walk stops only at an unavailable version / equal version / exhausted provisioned hops
            # names requested: "{ver(cur)+1}.root.json", in order
            for k, e in enumerate(fetches):
                rel = e[2]
                good = len(rel) == 2 and rel[1] == '.root.json' and z3.is_bv(rel[0])
                R.obligation(f'request {k} is for version(current root)+1', p.pc, (rel[0] == Ver(curs[min(k, len(curs) - 1)]) + 1) if good else z3.BoolVal(False), decode=dec, group='requested-name')
                R.obligation(f'request {k} only while fewer than max_root_updates roots were fetched', p.pc, z3.ULT(BV64(k), P.max_updates), decode=dec, group='update-budget')
                R.obligation(f'request {k} bounded by max_root_size', p.pc, z3.BoolVal(True), group='trivial') if False else None
            # nothing is requested after the first unavailable version
            for k, e in enumerate(fetches[:-1]):
                sc = e[3]
                R.obligation(f'no request after request {k} failed as unavailable', p.pc, z3.Not(sc['fetch_err']), decode=dec, group='stop-at-first-gap')
            # every hop that is not adopted ends the walk
            for i in range(len(parses) - 1):
                R.obligation(f'hop {i} was adopted before hop {i+1} was requested', p.pc, accs[i], decode=dec, group='unbroken')
            if p.cls.startswith('Err:VerifyTrustedMetadata'):
                R.obligation('VerifyTrustedMetadata only if the shipped root does not self-verify', p.pc, z3.Not(V(P.shipped, P.shipped)), group='shipped-reject-justified')
            if p.cls.startswith('Err:VerifyMetadata'):
                i = len(parses) - 1
                R.obligation('a served root is rejected for signatures only if it lacks the old-key or the new-key threshold', p.pc,
                             z3.Or(z3.Not(V(curs[i], P.hop[i])), z3.Not(V(P.hop[i], P.hop[i]))), group='sig-reject-justified')
            if p.cls.startswith('Err:OlderMetadata'):
                i = len(parses) - 1
                R.obligation('OlderMetadata only for a served root with a lower version', p.pc, z3.UGT(Ver(curs[i]), Ver(P.hop[i])), group='older-reject-justified')
        okp = [p for p in paths if p.ok]
        R.reach_any(f'Ok with {hops} adopted hops reachable', [p.pc for p in okp if z3.eq(doc_id(p.payload), P.hop[-1])])
        R.reach_any('Ok with zero hops (first probe unavailable) reachable', [p.pc for p in okp if z3.eq(doc_id(p.payload), P.shipped)])
        R.reach_any('rejection of an under-signed hop reachable', [p.pc for p in paths if p.cls.startswith('Err:VerifyMetadata')])
        R.samples.append({'klens': klens, 'paths': len(paths), 'ok': len(okp)})
    # wiring: later roles are verified against the final root only
    W = wiring_params(); wp, ids = summarize_repository_load(I, W); R.check_interp_clean(I, 'Repository::load')
    for p in wp:
        R.paths += 1
        calls = {e[1]: e[2] for e in p.ev('call')}
        order = [e[1] for e in p.ev('call')]
        R.obligation('Repository::load: roles loaded in order root, timestamp, snapshot, targets', p.pc,
                     z3.BoolVal(order == ['root', 'timestamp', 'snapshot', 'targets'][:len(order)]), group='wiring/order')
        for n in ('timestamp', 'snapshot', 'targets'):
            if n in calls:
                r = calls[n].get('root'); r = deref(I, p.state, r) if r is not None else None
                R.obligation(f'Repository::load: load_{n} verifies against the root returned by load_root', p.pc,
                             z3.BoolVal(isinstance(r, Adt) and z3.eq(doc_id(r), ids['root'])), group='wiring/final-root-used')
        if 'snapshot' in calls:
            t = deref(I, p.state, calls['snapshot'].get('timestamp'))
            R.obligation('Repository::load: load_snapshot receives the timestamp just trusted', p.pc, z3.BoolVal(isinstance(t, Adt) and z3.eq(doc_id(t), ids['timestamp'])), group='wiring/ts-to-snapshot')
        if 'targets' in calls:
            t = deref(I, p.state, calls['targets'].get('snapshot'))
            R.obligation('Repository::load: load_targets receives the snapshot just trusted', p.pc, z3.BoolVal(isinstance(t, Adt) and z3.eq(doc_id(t), ids['snapshot'])), group='wiring/sn-to-targets')
        if p.ok:
            repo = p.payload
            for n, fld in (('root', 'root'), ('timestamp', 'timestamp'), ('snapshot', 'snapshot'), ('targets', 'targets')):
                d = repo.fields.get((None, F('Repository', fld)))
                R.obligation(f'Repository::load: Repository.{fld} is the document returned by load_{n}', p.pc, z3.BoolVal(isinstance(d, Adt) and z3.eq(doc_id(d), ids[n])), group='wiring/repo-fields')
    import props.c02_replay as rp
    rp.finalize(R, I, 2)

def replay_file(R, path):
    import json
    sc = json.load(open(path))['scenario']; print(json.dumps(R.replay('history', sc))); return 0
