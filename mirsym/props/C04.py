"""C04 — freeze protection: expiry is enforced against a monotonic-guarded clock, only when enforcement is on."""
import z3
from client import *

TITLE = 'expired metadata is never trusted while enforcement is on'

def role_of_error(err):
    sel = err.d.get('sel') if isinstance(err, Obj) else None
    if isinstance(sel, Adt):
        for v in sel.fields.values():
            if isinstance(v, Adt) and 'RoleType' in v.ty or (isinstance(v, Adt) and isinstance(v.discr, int) and v.ty in ('RoleType', 'schema::RoleType')):
                return v.discr
            if isinstance(v, Adt) and v.discr is not None and not v.fields: return v.discr
    return None

def clock_obligations(R, P, p, label):
    """guard obligations common to every function that samples the clock through Datastore::system_time"""
    nows = p.nows()
    if p.cls == 'Err:SystemTimeSteppedBackward':
        R.obligation(f'{label}: SystemTimeSteppedBackward only when a parsable stored time is later than the sampled time',
                     p.pc, z3.And(P.lkt_present, P.lkt_parses, nows[-1] < P.lkt), group=label + '/backward-err-justified')
        R.obligation(f'{label}: a backward clock is reported before any write of latest_known_time',
                     p.pc, z3.BoolVal(not [e for e in p.events if e[0] in ('fs.write', 'fs.rename', 'fs.open_trunc') and 'latest_known_time' in str(e[1:])]), group=label + '/backward-no-write')
    else:
        for t in nows:
            R.obligation(f'{label}: no sampled time earlier than a parsable stored latest-known-time is ever used',
                         p.pc, z3.Not(z3.And(P.lkt_present, P.lkt_parses, t < P.lkt)), group=label + '/backward-guard')
        if nows and p.ok:
            R.obligation(f'{label}: the sampled time is recorded as latest-known-time',
                         p.pc, z3.BoolVal(p.stored_value_is('/ds/latest_known_time.json', nows[-1])), group=label + '/time-recorded')

def check(R, tier):
    R.fallback_kinds = {'expiry'}
    I = R.interp('tough'); install_world(I)
    R.bounds.update({'instants': 'full 64-bit (signed) — every Utc::now() sample is an independent free variable',
                     'transport chunks per file': 1, 'root hops': 2 if tier == 'thorough' else 1})
    R.assumptions += ['awaited operations complete (no cancellation); one cycle at a time',
                      'DateTime<Utc> ordering = signed order of a 64-bit instant; serde round trip of latest_known_time.json',
                      'Root::verify_role replaced by the C01 oracle V(root, doc) in this check']
    RT = variants('RoleType')
    # ---------------- the three single-file roles
    for label, pf, sf, role in (('load_timestamp', ts_params, summarize_load_timestamp, 'Timestamp'),
                                ('load_snapshot', sn_params, summarize_load_snapshot, 'Snapshot'),
                                ('load_targets', tg_params, summarize_load_targets, 'Targets')):
        P = pf(1); paths = sf(I, P, no_deleg=True) if label == 'load_targets' and tier == 'quick' else sf(I, P); R.check_interp_clean(I, label)
        seen = set()
        for p in paths:
            if p.cls == 'panic': continue
            R.paths += 1; seen.add(p.cls)
            nows = p.nows()
            if p.ok:
                R.obligation(f'{label}: Ok under Safe => sampled now <= expires of the document returned', p.pc,
                             z3.Implies(P.safe, z3.BoolVal(len(nows) == 1) if not nows else nows[-1] <= Exp(doc_id(p.payload))), group=label + '/ok-not-expired')
                R.obligation(f'{label}: Ok => returned document is the served one', p.pc, doc_id(p.payload) == P.served, group=label + '/returns-served')
            if p.cls == 'Err:ExpiredMetadata':
                R.obligation(f'{label}: ExpiredMetadata only under Safe and only if now > expires', p.pc,
                             z3.And(P.safe, nows[-1] >= Exp(P.served)), group=label + '/expired-err-justified')
                R.obligation(f'{label}: ExpiredMetadata names role {role}', p.pc, z3.BoolVal(role_of_error(p.payload) == RT.index(role)), group=label + '/expired-role')
                R.obligation(f'{label}: an expired document is not persisted', p.pc, z3.BoolVal(not p.touched()),
                             group=label + '/expired-not-stored')
            if not nows:
                pass
            clock_obligations(R, P, p, label)
            if p.cls.startswith('Err:') and 'ExpiredMetadata' not in p.cls and 'SystemTime' not in p.cls:
                pass
        # unsafe never fails for expiry / never samples the clock
        for p in paths:
            if p.cls in ('Err:ExpiredMetadata', 'Err:SystemTimeSteppedBackward'):
                R.obligation(f'{label}: with enforcement off neither expiry nor the clock guard fails the cycle', p.pc, P.safe, group=label + '/unsafe-never-expired')
        okp = [p for p in paths if p.ok]
        R.reach(f'{label}: Ok path with Safe reachable', okp[0].pc if okp else [z3.BoolVal(False)], P.safe)
        R.reach(f'{label}: ExpiredMetadata reachable', next((p.pc for p in paths if p.cls == 'Err:ExpiredMetadata'), [z3.BoolVal(False)]))
        R.reach(f'{label}: SystemTimeSteppedBackward reachable', next((p.pc for p in paths if p.cls == 'Err:SystemTimeSteppedBackward'), [z3.BoolVal(False)]))
        R.reach(f'{label}: Ok with Unsafe and an expired document reachable',
                next((p.pc for p in paths if p.ok and not p.nows()), [z3.BoolVal(False)]), z3.Not(P.safe))
        R.samples.append({'function': label, 'paths': len(paths), 'outcomes': sorted(seen)})

    # ---------------- load_root: only the final root is checked
    hops = 2 if tier == 'thorough' else 1
    P = root_params(hops, 1); paths = summarize_load_root(I, P); R.check_interp_clean(I, 'load_root')
    cands = [P.shipped] + list(P.hop)
    for p in paths:
        if p.cls == 'panic': continue
        R.paths += 1
        nows = p.nows()
        nparsed = len([e for e in p.events if e[0] == 'parse' and e[1] != 'shipped'])
        if p.ok:
            fin = doc_id(p.payload)
            R.obligation('load_root: Ok under Safe => now <= expires of the FINAL root', p.pc, z3.Implies(P.safe, nows[-1] <= Exp(fin)) if nows else z3.Not(P.safe), group='load_root/ok-final-not-expired')
            R.obligation('load_root: exactly one expiry judgement per cycle (intermediate roots are not judged)', p.pc,
                         z3.BoolVal(len([e for e in p.events if e[0] == 'dtcmp' and e[1] == 'le']) <= 1), group='load_root/one-judgement')
        if p.cls == 'Err:ExpiredMetadata':
            cmps = [e for e in p.events if e[0] == 'dtcmp' and e[1] == 'le']
            judged = cmps[-1][3]
            # the judged instant must be the expiry of the last accepted root: reference walk over the parsed hops
            cur = P.shipped
            for i in range(nparsed):
                acc = z3.And(V(cur, P.hop[i]), V(P.hop[i], P.hop[i]), z3.ULT(Ver(cur), Ver(P.hop[i])))
                cur = z3.If(acc, P.hop[i], cur)
            R.obligation('load_root: ExpiredMetadata only under Safe, only for the final root, only if now > its expires', p.pc,
                         z3.And(P.safe, judged == Exp(cur), nows[-1] >= Exp(cur)), group='load_root/expired-err-justified')
            R.obligation('load_root: ExpiredMetadata names role Root', p.pc, z3.BoolVal(role_of_error(p.payload) == RT.index('Root')), group='load_root/expired-role')
        clock_obligations(R, P, p, 'load_root')
        if p.cls in ('Err:ExpiredMetadata', 'Err:SystemTimeSteppedBackward'):
            R.obligation('load_root: with enforcement off neither expiry nor the clock guard fails the cycle', p.pc, P.safe, group='load_root/unsafe-never-expired')
    # an expired intermediate root does not stop the walk
    w = [p for p in paths if p.ok and any(z3.eq(doc_id(p.payload), h) for h in P.hop)]
    R.reach('load_root: Ok under Safe with the shipped (stepping-stone) root long expired and a hop accepted',
            w[0].pc if w else [z3.BoolVal(False)], z3.And(P.safe, Exp(P.shipped) < 0) if w else None)
    R.samples.append({'function': 'load_root', 'paths': len(paths), 'hops': hops})

    # ---------------- Repository::load: one enforcement value for all four, earliest expiry recorded
    W = wiring_params(); wp, ids = summarize_repository_load(I, W); R.check_interp_clean(I, 'Repository::load')
    safe_vs = variants('ExpirationEnforcement')
    eff = z3.If(W.safe_some, z3.If(W.safe, BV64(safe_vs.index('Safe')), BV64(safe_vs.index('Unsafe'))), BV64(safe_vs.index('Safe')))
    for p in wp:
        R.paths += 1
        for e in p.ev('call'):
            a = e[2].get('expiration_enforcement')
            d = a.discr if isinstance(a, Adt) else None
            d = BV64(d) if isinstance(d, int) else d
            R.obligation(f'Repository::load: load_{e[1]} receives the configured enforcement (default Safe)', p.pc,
                         (d == eff) if d is not None else z3.BoolVal(False), group='wiring/enforcement-passed')
        if p.ok:
            repo = p.payload
            ee = repo.fields[(None, F('Repository', 'earliest_expiration'))]; er = repo.fields[(None, F('Repository', 'earliest_expiration_role'))]
            en = repo.fields[(None, F('Repository', 'expiration_enforcement'))]
            exps = {n: Exp(ids[n]) for n in ids}
            R.obligation('Repository::load: earliest_expiration is the minimum of the four expirations', p.pc,
                         z3.And([ee <= x for x in exps.values()] + [z3.Or([ee == x for x in exps.values()])]), group='wiring/earliest-is-min')
            rd = er.discr; rd = BV64(rd) if isinstance(rd, int) else rd
            rmap = {'root': 'Root', 'timestamp': 'Timestamp', 'snapshot': 'Snapshot', 'targets': 'Targets'}
            R.obligation('Repository::load: earliest_expiration_role is a role whose expiration is the minimum', p.pc,
                         z3.Or([z3.And(rd == RT.index(rmap[n]), exps[n] == ee) for n in ids]), group='wiring/earliest-role')
            dn = en.discr; dn = BV64(dn) if isinstance(dn, int) else dn
            R.obligation('Repository::load: the repository remembers the configured enforcement', p.pc, dn == eff, group='wiring/enforcement-kept')
    R.reach('Repository::load: Ok reachable', next((p.pc for p in wp if p.ok), [z3.BoolVal(False)]))

    # ---------------- read_target prologue
    P = rt_params(); rp = summarize_read_target(I, P); R.check_interp_clean(I, 'read_target')
    for p in rp:
        if p.cls == 'panic': continue
        R.paths += 1
        nows = p.nows()
        if p.ok:
            R.obligation('read_target: Ok under Safe => now <= earliest expiration (the code is strict; either boundary reading accepted)', p.pc,
                         z3.Implies(P.safe, nows[-1] <= P.earliest) if nows else z3.Not(P.safe), group='read_target/ok-not-expired')
        if p.cls == 'Err:ExpiredMetadata':
            R.obligation('read_target: ExpiredMetadata only under Safe and only once now >= earliest expiration', p.pc, z3.And(P.safe, nows[-1] >= P.earliest), group='read_target/expired-err-justified')
            rd = role_of_error(p.payload)
            R.obligation('read_target: ExpiredMetadata names the recorded earliest role', p.pc, (rd == P.role) if rd is not None and not isinstance(rd, int) else z3.BoolVal(False), group='read_target/expired-role')
            R.obligation('read_target: nothing is looked up or fetched after an expiry failure', p.pc, z3.BoolVal(not p.ev('find_target') and not p.ev('fetch_target')), group='read_target/expired-no-fetch')
        if p.ev('fetch_target') or p.ev('find_target'):
            R.obligation('read_target: under Safe the expiry check precedes lookup and fetch', p.pc,
                         z3.Implies(P.safe, z3.BoolVal(bool(nows) and p.events.index(p.ev('now')[0]) < p.events.index((p.ev('find_target') or p.ev('fetch_target'))[0]))), group='read_target/check-first')
        clock_obligations(R, P, p, 'read_target')
        if p.cls in ('Err:ExpiredMetadata', 'Err:SystemTimeSteppedBackward'):
            R.obligation('read_target: with enforcement off neither expiry nor the clock guard fails', p.pc, P.safe, group='read_target/unsafe-never-expired')
    R.reach('read_target: ExpiredMetadata reachable', next((p.pc for p in rp if p.cls == 'Err:ExpiredMetadata'), [z3.BoolVal(False)]))
    R.reach('read_target: Ok with a stream reachable', next((p.pc for p in rp if p.ok and p.ev('fetch_target')), [z3.BoolVal(False)]))
    finalize(R)

# ---------------------------------------------------------------- native replay of counterexamples
def base_scenario():
    return {'nkeys': 5, 'roots': [
        {'version': 1, 'consistent': False, 'table': [0, 1, 2, 3], 'signers': [0], 'expires': 86400 * 30,
         'roles': {'root': {'keys': [0], 'thr': 1}, 'timestamp': {'keys': [1], 'thr': 1}, 'snapshot': {'keys': [2], 'thr': 1}, 'targets': {'keys': [3], 'thr': 1}}},
        {'version': 2, 'consistent': False, 'table': [0, 1, 2, 3], 'signers': [0], 'expires': 86400 * 30,
         'roles': {'root': {'keys': [0], 'thr': 1}, 'timestamp': {'keys': [1], 'thr': 1}, 'snapshot': {'keys': [2], 'thr': 1}, 'targets': {'keys': [3], 'thr': 1}}}]}
def cyc(**kw):
    c = {'shipped': 0, 'serve_roots': {}, 'safe': True, 'timestamp': {'version': 1, 'signers': [1], 'expires': 86400}, 'snapshot': {'version': 1, 'signers': [2], 'expires': 86400},
         'targets': {'version': 1, 'signers': [3], 'expires': 86400}}
    c.update(kw); return c

def recipes(group):
    """group of a violated obligation -> list of (description, scenario, expectation(real) -> violated?)"""
    fn, _, kind = group.partition('/')
    role = {'load_timestamp': 'timestamp', 'load_snapshot': 'snapshot', 'load_targets': 'targets', 'load_root': 'root'}.get(fn)
    out = []
    if kind in ('backward-no-write', 'backward-guard', 'backward-err-justified'):
        sc = base_scenario(); sc['cycles'] = [cyc(pre=[{'op': 'write_time', 'offset': 2 * 86400}]), cyc()]
        out.append(('stored latest-known-time two days ahead of the clock; the operation and its retry must both fail with SystemTimeSteppedBackward', sc,
                    lambda r: any(c['ok'] or c.get('err') != 'SystemTimeSteppedBackward' for c in r['cycles'])))
        sc2 = base_scenario(); sc2['cycles'] = [cyc(read_target_after_ms=1), cyc(pre=[{'op': 'write_time', 'offset': 2 * 86400}]), cyc()]
    if kind in ('ok-not-expired', 'ok-final-not-expired', 'one-judgement') and role:
        sc = base_scenario()
        c = cyc()
        if role == 'root':
            sc['roots'][1]['expires'] = -3600; c['serve_roots'] = {'2': 1}
        else:
            c[role]['expires'] = -3600
        sc['cycles'] = [c]
        out.append((f'{role} metadata expired an hour ago, enforcement on: the cycle must fail', sc, lambda r: r['cycles'][0]['ok']))
        # the same expired document already sits in the datastore (an earlier cycle ran with enforcement off): still expired
        sc2 = base_scenario(); c1 = cyc(safe=False); c2 = cyc()
        for c_ in (c1, c2):
            if role == 'root': c_['serve_roots'] = {'2': 1}
            else: c_[role]['expires'] = -3600
        if role == 'root': sc2['roots'][1]['expires'] = -3600
        sc2['cycles'] = [c1, c2]
        out.append((f'{role} metadata expired an hour ago and already stored by an earlier enforcement-off cycle; the enforcement-on cycle must fail', sc2, lambda r: r['cycles'][1]['ok']))
        # ... and the mirror image: stored while fresh, expired by the time of the next cycle (same version served again)
        if role != 'root':
            sc3 = base_scenario(); c1 = cyc(); c2 = cyc(sleep_ms=2500)
            c2[role]['expires'] = 2
            sc3['cycles'] = [c1, c2]
            out.append((f'{role} metadata stored while fresh expires before the next cycle, which is served the same version again: must fail', sc3, lambda r: r['cycles'][0]['ok'] and r['cycles'][1]['ok']))
    if kind in ('one-judgement', 'expired-err-justified', 'ok-final-not-expired') and role == 'root':
        # shipped v1 and final v3 are fine, the stepping stone v2 expired an hour ago: only the final root is judged
        sc = base_scenario()
        sc['roots'].append(dict(sc['roots'][1], version=3))
        sc['roots'][1]['expires'] = -3600
        c = cyc(); c['serve_roots'] = {'2': 1, '3': 2}
        sc['cycles'] = [c]
        out.append(('root chain 1 -> 2 -> 3 whose intermediate root 2 expired an hour ago while the final root 3 is valid: the cycle must succeed on root 3', sc,
                    lambda r: not r['cycles'][0]['ok'] or r['cycles'][0].get('versions', {}).get('root') != 3))
    if kind in ('expired-err-justified',) and role:
        sc = base_scenario(); c = cyc()
        if role == 'root':
            sc['roots'][0]['expires'] = -3600; c['serve_roots'] = {'2': 1}     # expired stepping stone, valid final root
        sc['cycles'] = [c]
        out.append((f'nothing that matters is expired ({"only the intermediate root is" if role == "root" else "all expire tomorrow"}): the cycle must not fail as expired', sc,
                    lambda r: (not r['cycles'][0]['ok']) and r['cycles'][0].get('err') == 'ExpiredMetadata'))
    if kind == 'unsafe-never-expired' and role:
        sc = base_scenario(); c = cyc(safe=False)
        if role == 'root': sc['roots'][0]['expires'] = -3600
        else: c[role]['expires'] = -3600
        sc['cycles'] = [c, cyc(safe=False, pre=[{'op': 'write_time', 'offset': 2 * 86400}])]
        out.append((f'enforcement off with expired {role} metadata and a stored future time: both cycles must succeed', sc, lambda r: not all(c['ok'] for c in r['cycles'])))
    if fn == 'read_target':
        sc = base_scenario(); c = cyc(read_target_after_ms=2500); c['timestamp']['expires'] = 2
        sc['cycles'] = [c]
        if kind in ('ok-not-expired', 'check-first'):
            out.append(('timestamp expires 2 s after load; read_target 2.5 s later must fail with ExpiredMetadata', sc, lambda r: r['cycles'][0].get('read_target') != 'ExpiredMetadata'))
        if kind in ('expired-err-justified',):
            sc3 = base_scenario(); sc3['cycles'] = [cyc(read_target_after_ms=10)]
            out.append(('nothing expired: read_target must not fail as expired', sc3, lambda r: r['cycles'][0].get('read_target') == 'ExpiredMetadata'))
        if kind == 'unsafe-never-expired':
            c2 = cyc(read_target_after_ms=2500, safe=False); c2['timestamp']['expires'] = 2
            sc4 = base_scenario(); sc4['cycles'] = [c2]
            out.append(('enforcement off: read_target after expiry must not fail as expired', sc4, lambda r: r['cycles'][0].get('read_target') == 'ExpiredMetadata'))
            sc5 = base_scenario(); sc5['cycles'] = [cyc(read_target_after_ms=10, safe=False, pre=[{'op': 'write_time', 'offset': 2 * 86400}])]
            out.append(('enforcement off and a stored latest-known-time two days ahead of the clock: load and read_target must both go through', sc5,
                        lambda r: (not r['cycles'][0]['ok']) or r['cycles'][0].get('read_target') != 'ok'))
    if fn == 'wiring':
        if kind in ('enforcement-passed', 'enforcement-kept'):
            for role in ('timestamp', 'snapshot', 'targets'):
                sc = base_scenario(); c = cyc(); c[role]['expires'] = -3600; sc['cycles'] = [c]
                out.append((f'default enforcement, expired {role}: must fail', sc, lambda r: r['cycles'][0]['ok']))
            for role in ('timestamp', 'snapshot', 'targets'):
                sc = base_scenario(); c = cyc(safe=False); c[role]['expires'] = -3600; sc['cycles'] = [c]
                out.append((f'enforcement off, expired {role}: must load', sc, lambda r: not r['cycles'][0]['ok']))
        if kind in ('earliest-is-min', 'earliest-role'):
            for role in ('timestamp', 'snapshot', 'targets'):
                sc = base_scenario(); c = cyc(read_target_after_ms=2500); c[role]['expires'] = 2; sc['cycles'] = [c]
                out.append((f'{role} is the earliest to expire (2 s after load); read_target 2.5 s later must fail', sc, lambda r: r['cycles'][0].get('read_target') != 'ExpiredMetadata'))
    return out

def finalize(R):
    groups = {}
    for cx in R.counterexamples: groups.setdefault(cx['group'], cx)
    for g, cx in groups.items():
        rec = recipes(g)
        hit = False
        for desc, sc, violated in rec:
            real = R.replay('history', sc, timeout=60)
            if violated(real):
                hit = True
                R.report_violation(f'{desc} — observed: ' + str([{k: c.get(k) for k in ('ok', 'err', 'read_target')} for c in real['cycles']]), sc); break
        if not hit:
            R.inconclusive.append(f'solver counterexample for "{cx["obligation"]}" ({g}) ' + ('did not reproduce with the native recipes' if rec else 'has no native replay recipe') + f': {str(cx.get("model"))[:200]}')
    if R.inconclusive and 'wiring/earliest-is-min' not in groups and not R.violations:
        # the solver part could not read Repository::load (e.g. an unmodelled iterator adaptor): the native recipes for the recorded earliest
        # expiration still decide; only a read_target that SUCCEEDS after the earliest role expired counts (a slow machine cannot fake that)
        for desc, sc, _ in recipes('wiring/earliest-is-min'):
            real = R.replay('history', sc, timeout=60)
            if real['cycles'][0].get('ok') and real['cycles'][0].get('read_target') == 'ok':
                R.report_violation(f'{desc} — observed: ' + str([{k: c.get(k) for k in ('ok', 'err', 'read_target')} for c in real['cycles']]), sc); break
    R.counterexamples_handled = True

def replay_file(R, path):
    import json
    sc = json.load(open(path))['scenario']; print(json.dumps(R.replay('history', sc))); return 0
