"""C17 — updating a repository preserves everything that was not deliberately changed."""
import z3, json, os
from client import *
import editor
from editor import InT, InX, same, conj, DOC_SNAPSHOT, DOC_TIMESTAMP
from stdm import dr

TITLE = 'from_repo -> set versions/expirations -> add targets -> sign: targets = old + new, delegations and delegated roles identical, unknown top-level members of targets/snapshot/timestamp carried over'

SHAPES = {
    'no-delegations': [],
    'flat-2': [('A', []), ('B', [])],
    'nested': [('A', [('C', [])]), ('B', [])],
    'depth-3': [('A', [('C', [('D', [])])])],
}

def fld(adt, struct, name): return adt.fields[(None, F(struct, name))]

def check(R, tier):
    I = R.interp('tough'); install_world(I)
    shapes = ['no-delegations', 'nested'] if tier == 'quick' else list(SHAPES)
    adds = [0, 1] if tier == 'quick' else [0, 1, 2]
    R.bounds.update({'delegation trees of the loaded repository': ', '.join(shapes), 'targets added by the update': f'{adds} (symbolic names, may coincide with existing names)',
                     'maps': 'target maps and unknown-member maps are arbitrary functions name -> entry (any size)', 'versions / expirations': 'arbitrary'})
    R.assumptions += ['SignedRole::new(role, ..) either fails or wraps exactly `role` (fresh signatures, buffer = its serialisation); SignedRole::from_signed(signed) wraps exactly `signed` and cannot fail for a parsed document',
                      'Clone is deep; HashMap::extend / insert overwrite existing keys; Option::unwrap_or_default gives the empty map',
                      'Targets::validate is C07 (here: may accept or refuse)', 'RepositoryEditor::new(root) yields an editor with every optional field unset']
    for sh in shapes:
        for nadd in adds:
            label = f'{sh}/+{nadd}'
            W, fin = editor.run_update(I, SHAPES[sh], nadd)
            R.check_interp_clean(I, label)
            oks = [x for x in fin if x[1] == 'sign' and x[2] == 'Ok']
            for s, stage, tag, val in fin:
                R.paths += 1
            R.reach_any(f'{label}: sign succeeds', [s.pc for s, _, _, _ in oks])
            for s, stage, tag, sr in oks:
                k = z3.BitVec('anyname', 8)
                def dec(m, W=W, label=label):
                    ev = lambda t: m.eval(t, model_completion=True)
                    return {'kind': 'update', 'case': label, 'member_name_id': ev(k).as_long(),
                            'snapshot_has_member': ev(InX(IDV(DOC_SNAPSHOT), k)).as_long() != 0, 'timestamp_has_member': ev(InX(IDV(DOC_TIMESTAMP), k)).as_long() != 0,
                            'targets_has_member': ev(InX(IDV(0), k)).as_long() != 0, 'old_target_listed': ev(InT(IDV(0), k)).as_long() != 0,
                            'added_names': [ev(a).as_long() for a, _ in W['new']]}
                SRp = 'SignedRepository'
                out_t = fld(fld(fld(sr, SRp, 'targets'), 'SignedRole', 'signed'), 'Signed', 'signed')
                out_sn = fld(fld(fld(sr, SRp, 'snapshot'), 'SignedRole', 'signed'), 'Signed', 'signed')
                out_ts = fld(fld(fld(sr, SRp, 'timestamp'), 'SignedRole', 'signed'), 'Signed', 'signed')
                # unknown top-level members
                for doc, docid, name in ((out_t, 0, 'targets'), (out_sn, DOC_SNAPSHOT, 'snapshot'), (out_ts, DOC_TIMESTAMP, 'timestamp')):
                    ex = dr(I, s, fld(doc, name.capitalize(), '_extra'))
                    R.obligation(f'{label}: every unknown top-level member of {name}.json is carried over unchanged (and none is invented)', s.pc,
                                 ex.d['f'](k) == InX(IDV(docid), k) if ex.kind == 'fmap' else z3.BoolVal(False), decode=dec, group=f'{name}-extra')
                # target set = old, overridden/extended by the added ones
                want = InT(IDV(0), k)
                for a, v in W['new']: want = z3.If(k == a, v, want)
                tm = dr(I, s, fld(out_t, 'Targets', 'targets'))
                R.obligation(f'{label}: targets of targets.json = previous entries (unchanged) plus the added ones', s.pc, tm.d['f'](k) == want, decode=dec, group='target-set')
                # delegations: identical structure and content, including every loaded delegated role
                out = []; same(s, fld(out_t, 'Targets', 'delegations'), s, fld(W['in_top'], 'Targets', 'delegations'), out, 'delegations')
                bad = [w for c, w in out if c is False]
                R.obligation(f'{label}: the delegations of targets.json (keys, roles, paths, thresholds, nested roles) are unchanged' + (f' [{bad[0]}]' if bad else ''), s.pc, conj(out), decode=dec, group='delegations')
                # the delegated role files that get written: same content and same signatures as loaded, none missing
                dts = fld(sr, SRp, 'delegated_targets'); dts = mat(I, s, dts)
                written = {}
                if dts.discr == 1:
                    vec = dr(I, s, fld(dts.fields[('Some', 0)], 'SignedDelegatedTargets', 'roles'))
                    for c in vec.d['elems']:
                        role = s.heap[c]; sg = fld(role, 'SignedRole', 'signed'); dt = fld(sg, 'Signed', 'signed')
                        nm = dr(I, s, fld(dt, 'DelegatedTargets', 'name')).d.get('s')
                        written.setdefault(nm, []).append((fld(dt, 'DelegatedTargets', 'targets'), fld(sg, 'Signed', 'signatures')))
                def find_in(node_doc, name):
                    d = fld(node_doc, 'Targets', 'delegations')
                    if d.discr != 1: return None
                    for c in fld(d.fields[('Some', 0)], 'Delegations', 'roles').d['elems']:
                        r = s.heap[c]; t = fld(r, 'DelegatedRole', 'targets').fields[('Some', 0)]
                        if fld(r, 'DelegatedRole', 'name').d['s'] == name: return t
                        sub = find_in(fld(t, 'Signed', 'signed'), name)
                        if sub is not None: return sub
                    return None
                for name, info in W['in_roles'].items():
                    orig = find_in(W['in_top'], name)
                    got = written.get(name, [])
                    out = []
                    if len(got) != 1: out.append((False, f'{len(got)} files for role {name}'))
                    else:
                        same(s, got[0][0], s, fld(orig, 'Signed', 'signed'), out, name)
                        same(s, got[0][1], s, fld(orig, 'Signed', 'signatures'), out, name + '.signatures')
                    bad = [w for c, w in out if c is False]
                    R.obligation(f'{label}: delegated role {name} is written with the content and signatures it was loaded with' + (f' [{bad[0]}]' if bad else ''), s.pc, conj(out), decode=dec, group='delegated-roles')
                extra_written = [n for n in written if n not in W['in_roles']]
                R.obligation(f'{label}: no delegated role file appears that was not loaded', s.pc, z3.BoolVal(not extra_written), decode=dec, group='delegated-roles')
            R.samples.append({'case': label, 'paths': len(fin), 'successful': len(oks), 'outcomes': sorted({f'{st_}:{tg}' for _, st_, tg, _ in fin})})
    native(R, tier)

CLASS_OF = {'snapshot-extra': 'snapshot-extra', 'timestamp-extra': 'timestamp-extra', 'targets-extra': 'targets-extra', 'target-set': 'target-set', 'delegations': 'delegations', 'delegated-roles': 'delegated-'}

def native(R, tier):
    """native end-to-end sweep (also the replay of the solver's counterexamples: each counterexample class must show up as a deviation class)"""
    res = R.replay('update_preserves', {'seed': int(os.environ.get('VERIF_SEED', '0'))}, timeout=900)
    R.differential['scenarios'] += res['cases']
    classes = res.get('classes', [])
    R.differential['agree'] += res['cases'] if not res['deviations'] else 0
    reported = set()
    for cx in R.counterexamples:
        pre = CLASS_OF.get(cx['group'])
        hit = [d for d in res['deviations'] if pre and d['class'].startswith(pre)]
        if hit:
            if cx['group'] in reported: continue
            reported.add(cx['group'])
            R.report_violation(f"{cx['obligation']} — reproduced: {hit[0]['what']}", {'scenario': cx.get('scenario'), 'native': hit[0]}, finding_key=cx['group'] + '-dropped-by-update')
        else:
            R.inconclusive.append(f'counterexample for "{cx["obligation"]}" did not show up in the native update sweep ({res["cases"]} repositories): {str(cx.get("scenario"))[:300]}')
    for d in res['deviations']:
        pre = [g for g, p in CLASS_OF.items() if d['class'].startswith(p)]
        if pre and pre[0] in reported: continue
        if d['class'] == 'generator': R.inconclusive.append('native generator: ' + d['what']); continue
        reported.add(pre[0] if pre else d['class'])
        R.report_violation('native update sweep: ' + d['what'], {'native': d}, finding_key=d['class'] + '-dropped-by-update')

def replay_file(R, path):
    print(json.dumps(R.replay('update_preserves', {'seed': 0}, timeout=900))); return 0
