"""C20 — tuftool root subcommands keep root.json well-formed, without stale signatures."""
import z3, json, os, re, itertools
from client import *
import stdm
from stdm import dr, BV64

TITLE = 'tuftool root: every content-changing subcommand writes the file without signatures; an error leaves the file untouched; a plain `sign` that succeeds leaves a root that meets its own root threshold with distinct own-key signatures'
RXc = re.compile
ROLE_NAMES = None

def fld(adt, struct, name): return adt.fields[(None, F(struct, name))]
def RT(name): return variants('RoleType').index(name)
def rt_val(i): return Adt('RoleType', i, {})

def cmd_fn(I, name):
    for n, fs in I.funcs.items():
        if 'tuftool/src/root.rs' in n and n.endswith('>::' + name): return fs[0]
    raise Stuck('tuftool root ' + name + ' not found')

def keyid(term): return Obj('keyid', nid=term)

def mk_root(st, tag, nk, nsig, absent=()):
    """Signed<Root> with nk[role] key ids per role and nsig signatures; all symbolic"""
    roles = {}
    for i, rn in enumerate(variants('RoleType')):
        if rn in absent: continue
        ids = [z3.BitVec(f'{tag}_{rn}_k{j}', 8) for j in range(nk.get(rn, 1))]
        roles[i] = st.alloc(Adt('RoleKeys', None, {(None, F('RoleKeys', 'keyids')): Obj('vec', elems=[st.alloc(keyid(x)) for x in ids]),
                                                   (None, F('RoleKeys', 'threshold')): z3.BitVec(f'{tag}_{rn}_thr', 64), (None, F('RoleKeys', '_extra')): Obj('fmap', f=lambda k: stdm.V0())}))
    sig_ids = [z3.BitVec(f'{tag}_sig{j}', 8) for j in range(nsig)]
    sigs = Obj('vec', elems=[st.alloc(Adt('Signature', None, {(None, F('Signature', 'keyid')): keyid(x), (None, F('Signature', 'sig')): Obj('sigbytes', by=x, over=tag)})) for x in sig_ids])
    root = Adt('Root', None, {(None, F('Root', 'spec_version')): Obj('str', s='1.0.0'), (None, F('Root', 'consistent_snapshot')): z3.Bool(f'{tag}_consistent'),
                              (None, F('Root', 'version')): z3.BitVec(f'{tag}_version', 64), (None, F('Root', 'expires')): z3.Int(f'{tag}_expires'),
                              (None, F('Root', 'keys')): Obj('fmap', f=lambda k, tag=tag: z3.Function(f'KeyTable_{tag}', z3.BitVecSort(8), stdm.VAL)(k)),
                              (None, F('Root', 'roles')): Obj('rolemap', cells=roles), (None, F('Root', '_extra')): Obj('fmap', f=lambda k: stdm.V0()), (None, 'uid'): tag})
    return Adt('Signed', None, {(None, F('Signed', 'signed')): root, (None, F('Signed', 'signatures')): sigs}), sig_ids

def role_ids(st, signed, rn):
    rm = fld(fld(signed, 'Signed', 'signed'), 'Root', 'roles'); c = rm.d['cells'].get(RT(rn))
    if c is None: return None, None
    rk = st.heap[c]
    return [st.heap[x].d['nid'] for x in fld(rk, 'RoleKeys', 'keyids').d['elems']], fld(rk, 'RoleKeys', 'threshold')

def models(I, files):
    """files: {'root.json': Signed<Root> value, 'cross.json': ...}"""
    def m_load(I_, s, fr, c, a, d, de, rb): return leaf_future('c20_load', key=path_key(I_, s, a[0]))
    def op_load(I_, s, fut):
        k = fut.d['key']; okf = z3.Bool(fresh_name('load_ok'))
        if k not in files: raise Stuck('load_file of unexpected path ' + k)
        return Forks([(okf, mk_ready(mk_ok(stdm.deep_clone(I_, s, files[k]))), lambda s2: s2.events.append(('load', k))), (z3.Not(okf), mk_ready(mk_err(error('FileOpen'))), None)])
    LEAF_OPS['c20_load'] = op_load
    def m_write(I_, s, fr, c, a, d, de, rb): return leaf_future('c20_write', key=path_key(I_, s, a[0]), val=mat(I_, s, a[1]))
    def op_write(I_, s, fut):
        okf = z3.Bool(fresh_name('write_ok'))
        return Forks([(okf, mk_ready(mk_ok(unit())), lambda s2: s2.events.append(('write_file', fut.d['key'], fut.d['val']))), (z3.Not(okf), mk_ready(mk_err(error('FileWrite'))), lambda s2: s2.events.append(('write_failed', fut.d['key'])))])
    LEAF_OPS['c20_write'] = op_write
    def m_vec_clear(I_, s, fr, c, a, d, de, rb): dr(I_, s, a[0]).d['elems'] = []; return unit()
    def m_checked_add(I_, s, fr, c, a, d, de, rb):
        x, y = mat(I_, s, a[0]), mat(I_, s, a[1]); r = x + y
        return Adt('Option<u64>', z3.If(z3.ULT(r, x), BV64(0), BV64(1)), {('Some', 0): r})
    def m_nz_new(I_, s, fr, c, a, d, de, rb):
        x = mat(I_, s, a[0]); return Adt('Option<NonZero<u64>>', z3.If(x == 0, BV64(0), BV64(1)), {('Some', 0): x})
    def m_nz_get(I_, s, fr, c, a, d, de, rb): return a[0]
    def m_round(I_, s, fr, c, a, d, de, rb): return mat(I_, s, a[0])
    # ---- HashMap<RoleType, RoleKeys>
    def rt_index(I_, s, v):
        v = dr(I_, s, v); dd = discr_of(I_, s, v)
        if not isinstance(dd, int):
            dd = z3.simplify(dd)
            if z3.is_bv_value(dd): dd = dd.as_long()
            else: raise Stuck('symbolic role type')
        return dd
    def m_roles_get(I_, s, fr, c, a, d, de, rb):
        m = dr(I_, s, a[0]); i = rt_index(I_, s, a[1]); cell = m.d['cells'].get(i)
        return mk_some(Ref(cell)) if cell is not None else mk_none()
    def m_roles_entry(I_, s, fr, c, a, d, de, rb):
        mref = mat(I_, s, a[0]); m = dr(I_, s, mref); i = rt_index(I_, s, a[1])
        return Obj('entry', map=mref, idx=i, cell=m.d['cells'].get(i))
    def m_and_modify(I_, s, fr, c, a, d, de, rb):
        e = mat(I_, s, a[0])
        if e.d['cell'] is None: return e
        fn = I_.resolve_closure(mat(I_, s, a[1]).ty)
        I_.push_call(s, fn, [mat(I_, s, a[1]), Ref(e.d['cell'])], de, rb, on_return=lambda I2, s2, val, e=e: e); return PUSHED
    def m_or_insert_with(I_, s, fr, c, a, d, de, rb):
        e = mat(I_, s, a[0])
        if e.d['cell'] is not None: return Ref(e.d['cell'])
        fn = I_.resolve_closure(mat(I_, s, a[1]).ty)
        def ins(I2, s2, val, e=e):
            cell = s2.alloc(val); dr(I2, s2, e.d['map']).d['cells'][e.d['idx']] = cell; return Ref(cell)
        I_.push_call(s, fn, [mat(I_, s, a[1])], de, rb, on_return=ins); return PUSHED
    def m_values_mut(I_, s, fr, c, a, d, de, rb):
        m = dr(I_, s, a[0]); return Obj('iter', vec=Ref(s.alloc(Obj('vec', elems=[m.d['cells'][i] for i in sorted(m.d['cells'])]))), pos=0)
    def m_roles_iter(I_, s, fr, c, a, d, de, rb):
        m = dr(I_, s, a[0])
        cells = [s.alloc(Adt('tuple', None, {(None, 0): Ref(s.alloc(rt_val(i))), (None, 1): Ref(m.d['cells'][i])})) for i in sorted(m.d['cells'])]
        return Obj('iter', vec=Ref(s.alloc(Obj('vec', elems=cells))), pos=0, owned=True)
    # ---- slice::Iter::position / any / filter+count with closures
    def h_scan(I_, s, fr):
        d = fr.data; elems = d['elems']
        if 'ret' in d:
            hit = d.pop('ret'); hit = hit if z3.is_expr(hit) else z3.BoolVal(bool(hit)); i = d['i']
            if d['mode'] == 'count':
                d['acc'] = d['acc'] + z3.If(hit, BV64(1), BV64(0)); d['i'] = i + 1; return [s]
            if d['mode'] == 'any':          # no fork: the closure has no side effect, so all elements can be evaluated and the results or-ed
                d['any'] = z3.Or(d.get('any', z3.BoolVal(False)), hit); d['i'] = i + 1; return [s]
            out = []
            if I_.feasible(s, extra=hit):
                s2 = s.clone(); s2.pc.append(hit)
                I_.do_return(s2, mk_some(BV64(i)) if d['mode'] == 'position' else z3.BoolVal(True)); out.append(s2)
            if I_.feasible(s, extra=z3.Not(hit)):
                s.pc.append(z3.Not(hit)); d['i'] = i + 1; out.append(s)
            return out
        if d['i'] >= len(elems):
            I_.do_return(s, {'position': mk_none(), 'any': z3.simplify(d.get('any', z3.BoolVal(False))), 'count': d.get('acc')}[d['mode']]); return [s]
        fn = I_.resolve_closure(s.heap[d['clos']].ty)
        if fn is None: raise Stuck('closure not found for ' + d['mode'])
        arg = Ref(elems[d['i']])
        if d['mode'] == 'count': arg = Ref(s.alloc(arg))          # filter's predicate takes &&T
        I_.push_call(s, fn, [Ref(d['clos']), arg], None, None); return [s]
    def scan(mode):
        def m(I_, s, fr, c, a, d, de, rb):
            it = dr(I_, s, a[0])
            if it.kind == 'filter': elems, clos = it.d['elems'], it.d['clos']
            else:
                vec = dr(I_, s, it.d['vec']); elems = vec.d['elems'][it.d['pos']:]; clos = s.alloc(mat(I_, s, a[1]))
            s.frames.append(ModelFrame(h_scan, {'elems': list(elems), 'i': 0, 'clos': clos, 'mode': mode, 'acc': BV64(0)}, de, rb)); return PUSHED
        return m
    def m_filter(I_, s, fr, c, a, d, de, rb):
        it = dr(I_, s, a[0]); vec = dr(I_, s, it.d['vec'])
        return Obj('filter', elems=list(vec.d['elems'][it.d['pos']:]), clos=s.alloc(mat(I_, s, a[1])))
    def m_vec_remove(I_, s, fr, c, a, d, de, rb):
        v = dr(I_, s, a[0]); i = z3.simplify(mat(I_, s, a[1]))
        if not z3.is_bv_value(i): raise Stuck('Vec::remove at symbolic index')
        i = i.as_long(); cell = v.d['elems'][i]; v.d['elems'] = v.d['elems'][:i] + v.d['elems'][i + 1:]; return s.heap[cell]
    def m_keyid_eq(I_, s, fr, c, a, d, de, rb):
        x, y = dr(I_, s, a[0]), dr(I_, s, a[1]); return x.d['nid'] == y.d['nid']
    def m_contains(I_, s, fr, c, a, d, de, rb):
        v = dr(I_, s, a[0]); k = dr(I_, s, a[1])
        return z3.Or([k.d['nid'] == s.heap[x].d['nid'] for x in v.d['elems']] + [z3.BoolVal(False)])
    def m_sig_contains(I_, s, fr, c, a, d, de, rb):
        """[Signature]::contains(sig): derived PartialEq = same key id AND same signature bytes; two signatures by one key over one content
        have equal bytes only for deterministic schemes (Ed25519), not for RSA-PSS / ECDSA: a free Boolean per pair"""
        v = dr(I_, s, a[0]); x = dr(I_, s, a[1]); xid = dr(I_, s, fld(x, 'Signature', 'keyid')).d['nid']
        alts = []
        for cidx in v.d['elems']:
            e = s.heap[cidx]; eid = dr(I_, s, fld(e, 'Signature', 'keyid')).d['nid']
            alts.append(z3.And(eid == xid, z3.Bool(fresh_name('same_signature_bytes'))))
        return z3.Or(alts + [z3.BoolVal(False)])
    def m_table_contains(I_, s, fr, c, a, d, de, rb):
        m = dr(I_, s, a[0]); k = dr(I_, s, a[1])
        if m.kind == 'fmap': return m.d['f'](k.d['nid']) != 0
        return z3.Or([k.d['nid'] == dr(I_, s, ko).d['nid'] for ko, _ in m.d['entries']] + [z3.BoolVal(False)])
    def m_false(I_, s, fr, c, a, d, de, rb): return z3.BoolVal(False)
    def m_path_parent(I_, s, fr, c, a, d, de, rb): return mk_some(Obj('path', key='DIR'))
    def m_pathbuf_deref(I_, s, fr, c, a, d, de, rb): return a[0]
    return [(RXc(r'^load_file::<'), m_load), (RXc(r'^write_file::<'), m_write), (RXc(r'^Vec::<tough::schema::Signature>::clear$'), m_vec_clear),
            (RXc(r'^core::num::<impl u64>::checked_add$'), m_checked_add), (RXc(r'^NonZero::<u64>::new$'), m_nz_new), (RXc(r'^NonZero::<u64>::get$'), m_nz_get), (RXc(r'^round_time$'), m_round),
            (RXc(r'^HashMap::<RoleType, RoleKeys>::(get|get_mut)::<'), m_roles_get), (RXc(r'^HashMap::<RoleType, RoleKeys>::entry$'), m_roles_entry),
            (RXc(r'^std::collections::hash_map::Entry::<.*>::and_modify::<'), m_and_modify), (RXc(r'^std::collections::hash_map::Entry::<.*>::or_insert_with::<'), m_or_insert_with),
            (RXc(r'^HashMap::<RoleType, RoleKeys>::values_mut$'), m_values_mut), (RXc(r'^<std::collections::hash_map::ValuesMut<.*> as IntoIterator>::into_iter$'), m_identity),
            (RXc(r'^<std::collections::hash_map::ValuesMut<.*> as Iterator>::next$'), stdm.m_iter_next), (RXc(r'^<&HashMap<RoleType, RoleKeys> as IntoIterator>::into_iter$'), m_roles_iter),
            (RXc(r'^<std::collections::hash_map::Iter<.*RoleType, RoleKeys> as Iterator>::next$'), stdm.m_iter_next),
            (RXc(r'as Iterator>::position::<'), scan('position')), (RXc(r'as Iterator>::any::<'), scan('any')), (RXc(r'^<std::slice::Iter<.*> as Iterator>::filter::<'), m_filter),
            (RXc(r'^<std::iter::Filter<.*> as Iterator>::count$'), scan('count')), (RXc(r'^Vec::<Decoded<Hex>>::remove$'), m_vec_remove), (RXc(r'^<Decoded<Hex> as PartialEq>::(eq|ne)$'), m_keyid_eq),
            (RXc(r'^core::slice::<impl \[Decoded<Hex>\]>::contains$'), m_contains), (RXc(r'^HashMap::<Decoded<Hex>, (tough::schema::key::)?Key>::contains_key::<'), m_table_contains), (RXc(r'^core::slice::<impl \[(tough::schema::)?Signature\]>::contains$'), m_sig_contains), (RXc(r'^<Level as PartialOrd<LevelFilter>>::le$'), m_false), (RXc(r'^(std::path::)?Path::parent$'), m_path_parent),
            (RXc(r'^<(std::path::)?PathBuf as Deref>::deref$'), m_pathbuf_deref)] + stdm.STD_MODELS

def run_cmd(I, st, fn, args, files):
    saved = list(I.models); I.models[:0] = models(I, files)
    try:
        st.frames.append(ModelFrame(h_async_driver, {'phase': 0, 'ctor': fn, 'args': args, 'generics': None}))
        done = []; I.run(st, done.append); return done
    finally:
        I.models[:] = saved

def simple_commands(R, I, tier):
    RTn = variants('RoleType')
    cases = []
    cases.append(('bump-version', 'bump_version', lambda st: [Obj('path', key='root.json')], None))
    cases.append(('expire', 'expire', lambda st: [Obj('path', key='root.json'), Ref(st.alloc(z3.Int('new_expires')))], None))
    cases.append(('set-version', 'set_version', lambda st: [Obj('path', key='root.json'), z3.BitVec('new_version', 64)], None))
    for rn in RTn:
        cases.append((f'set-threshold {rn}', 'set_threshold', lambda st, rn=rn: [Obj('path', key='root.json'), rt_val(RT(rn)), z3.BitVec('new_threshold', 64)], rn))
        cases.append((f'remove-key <id> {rn}', 'remove_key', lambda st, rn=rn: [Obj('path', key='root.json'), Ref(st.alloc(keyid(z3.BitVec('victim', 8)))), mk_some(rt_val(RT(rn)))], rn))
    cases.append(('remove-key <id>', 'remove_key', lambda st: [Obj('path', key='root.json'), Ref(st.alloc(keyid(z3.BitVec('victim', 8)))), mk_none()], None))
    for label, fname, argf, role in cases:
        for nsig in ([1, 2] if tier == 'quick' else [0, 1, 2, 3]):
            for absent in ([()] + ([(role,)] if role and role != 'Root' and fname == 'set_threshold' else [])):
                st = State(); st.env['fs'] = {}
                nk = {rn: 2 for rn in RTn}
                file0, sig_ids = mk_root(st, 'cur', nk, nsig, absent=absent)
                before = stdm.deep_clone(I, st, file0)
                full = f'{label} [{nsig} signatures{", role entry absent" if absent else ""}]'
                done = run_cmd(I, st, cmd_fn(I, fname), argf(st), {'root.json': file0})
                R.check_interp_clean(I, full)
                oks = []
                for s in done:
                    R.paths += 1
                    tag, _ = classify(s.result)
                    writes = [e for e in s.events if e[0] == 'write_file']
                    def dec(m, full=full): return {'kind': 'root-subcommand', 'command': full}
                    if tag != 'Ok':
                        R.obligation(f'{full}: an error leaves the previous file intact (nothing was written)', s.pc, z3.BoolVal(not writes), decode=dec, group='error-leaves-file')
                        continue
                    oks.append(s)
                    R.obligation(f'{full}: success => the file is written exactly once, to the given path', s.pc, z3.BoolVal(len(writes) == 1 and writes[0][1] == 'root.json'), decode=dec, group='written-once')
                    if not writes: continue
                    out = writes[0][2]; sigs = dr(I, s, fld(out, 'Signed', 'signatures'))
                    R.obligation(f'{full}: the content changed, so every existing signature is removed', s.pc, z3.BoolVal(len(sigs.d['elems']) == 0), decode=dec, group='signatures-cleared')
                    # content: what was asked for, nothing else
                    newr = fld(out, 'Signed', 'signed'); oldr = fld(before, 'Signed', 'signed')
                    if fname == 'bump_version':
                        R.obligation(f'{full}: version + 1 (no wrap-around)', s.pc, z3.And(fld(newr, 'Root', 'version') == fld(oldr, 'Root', 'version') + 1, fld(newr, 'Root', 'version') != 0), decode=dec, group='content')
                    if fname == 'set_version':
                        R.obligation(f'{full}: version set', s.pc, fld(newr, 'Root', 'version') == z3.BitVec('new_version', 64), decode=dec, group='content')
                    if fname == 'set_threshold':
                        ids, thr = role_ids(s, out, role)
                        old_ids, _ = role_ids(st, before, role)
                        R.obligation(f'{full}: threshold of {role} set, its key ids unchanged', s.pc, z3.And(z3.BoolVal(ids is not None), thr == z3.BitVec('new_threshold', 64),
                                     z3.BoolVal(True) if old_ids is None else z3.And([a == b for a, b in zip(ids or [], old_ids)] + [z3.BoolVal(len(ids or []) == len(old_ids))])), decode=dec, group='content')
                    if fname == 'remove_key':
                        v = z3.BitVec('victim', 8)
                        for rn in RTn:
                            ids, thr = role_ids(s, out, rn); old_ids, old_thr = role_ids(st, before, rn)
                            affected = (role is None or role == rn)
                            if affected:
                                # first occurrence removed, everything else kept in order
                                exp = []; removed = z3.BoolVal(False); conds = []
                                n_old = len(old_ids)
                                if len(ids) == n_old:
                                    conds.append(z3.And([x != v for x in old_ids] + [a == b for a, b in zip(ids, old_ids)]))
                                elif len(ids) == n_old - 1:
                                    alts = []
                                    for j in range(n_old):
                                        rest = old_ids[:j] + old_ids[j + 1:]
                                        alts.append(z3.And([old_ids[j] == v] + [x != v for x in old_ids[:j]] + [a == b for a, b in zip(ids, rest)]))
                                    conds.append(z3.Or(alts))
                                else: conds.append(z3.BoolVal(False))
                                R.obligation(f'{full}: the first listing of the key id is removed from {rn}, the other ids keep their order', s.pc, z3.And(conds + [thr == old_thr]), decode=dec, group='content')
                            else:
                                R.obligation(f'{full}: role {rn} is untouched', s.pc, z3.And([a == b for a, b in zip(ids, old_ids)] + [z3.BoolVal(len(ids) == len(old_ids)), thr == old_thr]), decode=dec, group='content')
                        kt = dr(I, s, fld(newr, 'Root', 'keys')); kt0 = fld(oldr, 'Root', 'keys'); k = z3.BitVec('anykey', 8)
                        want = z3.If(k == v, stdm.V0(), kt0.d['f'](k)) if role is None else kt0.d['f'](k)
                        R.obligation(f'{full}: the key table {"loses exactly that key" if role is None else "is unchanged"}', s.pc, kt.d['f'](k) == want, decode=dec, group='content')
                R.reach_any(f'{full}: success reachable', [s.pc for s in oks])
                R.samples.append({'case': full, 'paths': len(done)})

def add_key_command(R, I, tier):
    """`tuftool root add-key -k <source> -r <role>...` from an arbitrary file state: the key table is a small table of symbolic keys (the key being
    added may already be in it), key ids are a collision-free function of the key; success => written once, without signatures, the key is in the
    table under its id, each named role lists the id exactly once more than before unless it already did, nothing else changes"""
    RTn = variants('RoleType')
    fn = cmd_fn(I, 'add_key')
    KID = z3.Function('KeyIdOf', z3.BitVecSort(16), z3.BitVecSort(8))
    role_sets = [['Root'], ['Targets', 'Root']] if tier == 'quick' else [['Root'], ['Snapshot'], ['Targets', 'Root'], ['Timestamp', 'Snapshot', 'Targets']]
    R.bounds['add-key'] = 'key table of 0..2 symbolic keys (the added key may be one of them), one key source, 1..3 named roles, 2 key ids per role (may equal the added key\'s id), 0..2 signatures present'
    R.assumptions.append('add-key: key ids are a collision-free function of the key for the keys in play; the loaded key table is well formed (C13); parse_key_source / KeySource::as_sign succeed or fail without touching the file')
    for roles in role_sets:
        for ntab in (0, 1, 2):
            for nsig in ((1,) if tier == 'quick' else (0, 1, 2)):
                full = f'add-key -r {",".join(roles)} [{ntab} keys in the table, {nsig} signatures]'
                st = State(); st.env['fs'] = {}
                file0, sig_ids = mk_root(st, 'cur', {rn: 2 for rn in RTn}, nsig)
                tab = [z3.BitVec(f'tabkey{i}', 16) for i in range(ntab)]; newk = z3.BitVec('added_key', 16)
                for v in tab + [newk]: st.pc.append(v != 0)
                for a_, b_ in itertools.combinations(tab + [newk], 2): st.pc.append(z3.Implies(KID(a_) == KID(b_), a_ == b_))
                if ntab > 1: st.pc.append(tab[0] != tab[1])
                rootv = fld(file0, 'Signed', 'signed')
                rootv.fields[(None, F('Root', 'keys'))] = Obj('smap', entries=[(keyid(KID(v)), Obj('key', vid=v)) for v in tab])
                before = stdm.deep_clone(I, st, file0)
                def m_parse_ks(I_, s, fr, c, a, d, de, rb):
                    okf = z3.Bool(fresh_name('key_source_parses'))
                    return Forks([(okf, mk_ok(boxed(s, Obj('key_source'))), None), (z3.Not(okf), mk_err(error('UnrecognizedScheme')), None)])
                def m_as_sign(I_, s, fr, c, a, d, de, rb): return leaf_future('c20_as_sign')
                def op_as_sign(I_, s, fut):
                    okf = z3.Bool(fresh_name('key_readable'))
                    return Forks([(okf, mk_ready(mk_ok(boxed(s, Obj('signer')))), None), (z3.Not(okf), mk_ready(mk_err(Obj('boxed_error'))), None)])
                LEAF_OPS['c20_as_sign'] = op_as_sign
                def m_tuf_key(I_, s, fr, c, a, d, de, rb): return Obj('key', vid=newk)
                def m_key_id(I_, s, fr, c, a, d, de, rb):
                    okf = z3.Bool(fresh_name('key_id_ok'))
                    return Forks([(okf, mk_ok(keyid(KID(dr(I_, s, a[0]).d['vid']))), None), (z3.Not(okf), mk_err(Obj('schema_error')), None)])
                def m_keys_iter(I_, s, fr, c, a, d, de, rb):
                    m = dr(I_, s, a[0]); cells = [s.alloc(Adt('tuple', None, {(None, 0): Ref(s.alloc(k)), (None, 1): Ref(s.alloc(v))})) for k, v in m.d['entries']]
                    return Obj('iter', vec=Ref(s.alloc(Obj('vec', elems=cells))), pos=0, owned=False)
                def h_find(I_, s, fr):
                    d = fr.data
                    if 'ret' in d:
                        hit = d.pop('ret'); hit = hit if z3.is_expr(hit) else z3.BoolVal(bool(hit)); out = []
                        if I_.feasible(s, extra=hit):
                            s2 = s.clone(); s2.pc.append(hit); I_.do_return(s2, mk_some(s2.heap[d['elems'][d['i']]])); out.append(s2)
                        if I_.feasible(s, extra=z3.Not(hit)):
                            s.pc.append(z3.Not(hit)); d['i'] += 1; out.append(s)
                        return out
                    if d['i'] >= len(d['elems']): I_.do_return(s, mk_none()); return [s]
                    fnc = I_.resolve_closure(s.heap[d['clos']].ty)
                    I_.push_call(s, fnc, [Ref(d['clos']), Ref(d['elems'][d['i']])], None, None); return [s]
                def m_find(I_, s, fr, c, a, d, de, rb):
                    it = dr(I_, s, a[0]); vec = dr(I_, s, it.d['vec'])
                    s.frames.append(ModelFrame(h_find, {'elems': list(vec.d['elems'][it.d['pos']:]), 'i': 0, 'clos': s.alloc(mat(I_, s, a[1]))}, de, rb)); return PUSHED
                def m_key_eq(I_, s, fr, c, a, d, de, rb): return dr(I_, s, a[0]).d['vid'] == dr(I_, s, a[1]).d['vid']
                def m_contains_key(I_, s, fr, c, a, d, de, rb):
                    m = dr(I_, s, a[0]); k = dr(I_, s, a[1]).d['nid']
                    return z3.Or([k == dr(I_, s, ko).d['nid'] for ko, _ in m.d['entries']] + [z3.BoolVal(False)])
                def m_map_len(I_, s, fr, c, a, d, de, rb): return BV64(len(dr(I_, s, a[0]).d['entries']))
                def m_hex(I_, s, fr, c, a, d, de, rb): return Obj('str', s=None, pieces=['{hex}'])
                def m_print(I_, s, fr, c, a, d, de, rb): return unit()
                def m_fail(I_, s, fr, c, a, d, de, rb): return mk_err(error('KeyDuplicate'))
                def m_map_err_id(I_, s, fr, c, a, d, de, rb): return mat(I_, s, a[0])
                def m_push_id(I_, s, fr, c, a, d, de, rb):
                    v = dr(I_, s, a[0]); v.d['elems'] = v.d['elems'] + [s.alloc(mat(I_, s, a[1]))]; return unit()
                ms = [(RXc(r'^parse_key_source$'), m_parse_ks), (RXc(r'^<dyn KeySource as KeySource>::as_sign'), m_as_sign), (RXc(r'Sign>::tuf_key$'), m_tuf_key), (RXc(r'^(tough::schema::key::)?Key::key_id$'), m_key_id),
                      (RXc(r'^HashMap::<Decoded<Hex>, (tough::schema::key::)?Key>::iter$'), m_keys_iter), (RXc(r'^<std::collections::hash_map::Iter<.*Key> as Iterator>::find::<'), m_find),
                      (RXc(r'^<(tough::schema::key::)?Key as PartialEq>::eq$'), m_key_eq), (RXc(r'^HashMap::<Decoded<Hex>, (tough::schema::key::)?Key>::contains_key::<'), m_contains_key),
                      (RXc(r'^HashMap::<Decoded<Hex>, (tough::schema::key::)?Key>::len$'), m_map_len), (RXc(r'^hex::encode::<'), m_hex), (RXc(r'^std::io::_print$'), m_print), (RXc(r'^KeyDuplicateSnafu::<.*>::fail::<'), m_fail),
                      (RXc(r'^std::result::Result::<Decoded<Hex>, error::Error>::map_err::<'), m_map_err_id), (RXc(r'^Vec::<Decoded<Hex>>::push$'), m_push_id), (RXc(r'^<Vec<Decoded<Hex>> as Deref>::deref$'), m_identity),
                      (RXc(r'^<std::string::String as Deref>::deref$'), m_identity), (RXc(r'^<Decoded<Hex> as Clone>::clone$'), stdm.m_clone_deep),
                      (RXc(r'^<&\[RoleType\] as IntoIterator>::into_iter$'), stdm.m_vec_iter)] + editor_fmt_models()
                saved = list(I.models); I.models[:0] = ms
                try:
                    roles_arg = Ref(st.alloc(Obj('vec', elems=[st.alloc(rt_val(RT(rn))) for rn in roles])))
                    srcs = Ref(st.alloc(Obj('vec', elems=[st.alloc(Obj('str', s='file:///key.pem'))])))
                    done = run_cmd(I, st, fn, [Obj('path', key='root.json'), roles_arg, srcs], {'root.json': file0})
                finally:
                    I.models[:] = saved
                R.check_interp_clean(I, full)
                oks = []
                def dec(m, full=full, tab=tab): return {'kind': 'root-subcommand', 'command': full, 'already_in_table': any(m.eval(v == newk, model_completion=True) for v in tab)}
                for s in done:
                    R.paths += 1
                    tag, _ = classify(s.result)
                    writes = [e for e in s.events if e[0] == 'write_file']
                    if tag != 'Ok':
                        R.obligation(f'{full}: an error leaves the previous file intact (nothing was written)', s.pc, z3.BoolVal(not writes), decode=dec, group='error-leaves-file'); continue
                    oks.append(s)
                    R.obligation(f'{full}: success => the file is written exactly once, to the given path', s.pc, z3.BoolVal(len(writes) == 1 and writes[0][1] == 'root.json'), decode=dec, group='written-once')
                    if not writes: continue
                    out = writes[0][2]; sigs = dr(I, s, fld(out, 'Signed', 'signatures'))
                    R.obligation(f'{full}: the content changed (a role lists a further key id and / or the key table grew), so every existing signature is removed', s.pc, z3.BoolVal(len(sigs.d['elems']) == 0), decode=dec, group='signatures-cleared')
                    newr = fld(out, 'Signed', 'signed'); kt = dr(I, s, fld(newr, 'Root', 'keys'))
                    def lookup(k):
                        t = stdm.V0()
                        for ko, vo in kt.d['entries']: t = z3.If(k == dr(I, s, ko).d['nid'], dr(I, s, vo).d['vid'], t)
                        return t
                    anyk = z3.BitVec('anykeyid', 8)
                    R.obligation(f'{full}: the key is in the key table under its own id, every earlier key is still there, nothing else appeared', s.pc,
                                 z3.And([lookup(KID(newk)) == newk] + [lookup(KID(v)) == v for v in tab] + [z3.Or([lookup(anyk) == 0] + [z3.And(anyk == KID(v), lookup(anyk) == v) for v in tab + [newk]])]), decode=dec, group='content')
                    for rn in RTn:
                        ids, thr = role_ids(s, out, rn); old_ids, old_thr = role_ids(st, before, rn)
                        if rn in roles:
                            had = z3.Or([x == KID(newk) for x in old_ids])
                            same = z3.And([z3.BoolVal(len(ids) == len(old_ids))] + [a == b for a, b in zip(ids, old_ids)])
                            app = z3.And([z3.BoolVal(len(ids) == len(old_ids) + 1)] + [a == b for a, b in zip(ids, old_ids)] + ([ids[-1] == KID(newk)] if len(ids) == len(old_ids) + 1 else []))
                            R.obligation(f'{full}: role {rn} lists the key id exactly once more than before, unless it already listed it; threshold untouched', s.pc, z3.And(z3.If(had, same, app), thr == old_thr), decode=dec, group='content')
                        else:
                            R.obligation(f'{full}: role {rn} is untouched', s.pc, z3.And([a == b for a, b in zip(ids, old_ids)] + [z3.BoolVal(len(ids) == len(old_ids)), thr == old_thr]), decode=dec, group='content')
                    R.obligation(f'{full}: version, expiration and consistent-snapshot flag untouched', s.pc, z3.And(fld(newr, 'Root', 'version') == fld(fld(before, 'Signed', 'signed'), 'Root', 'version'),
                                 fld(newr, 'Root', 'expires') == fld(fld(before, 'Signed', 'signed'), 'Root', 'expires')), decode=dec, group='content')
                R.reach_any(f'{full}: success reachable', [s.pc for s in oks])
                if ntab: R.reach_any(f'{full}: success with a key that is already in the table', [s.pc for s in oks], z3.Or([v == newk for v in tab]))
                R.samples.append({'case': full, 'paths': len(done)})

def file_io(R, I, tier):
    """tuftool's write_file (every subcommand's way of replacing root.json) from MIR, including the closure handed to spawn_blocking: the destination is
    only ever touched by persisting (renaming) a temporary file that lives in the destination's own directory and already holds the complete
    serialisation; any failure leaves the destination as it was; Ok => the destination holds exactly that serialisation.  tempfile's documented contract
    is the model of NamedTempFile (new_in creates a fresh file in the given directory, persist is an atomic rename, a NamedTempFile that is dropped is removed)."""
    fn = I.funcs.get('write_file')
    if not fn: raise Stuck('tuftool write_file not found in the MIR')
    fn = fn[0]
    st = State(); st.env['fs'] = {}
    def m_parent(I_, s, fr, c, a, d, de, rb):
        has = z3.Bool('path_has_parent'); return Adt('Option', z3.If(has, BV64(1), BV64(0)), {('Some', 0): Obj('path', key='DIR-OF(root.json)')})
    def m_to_path_buf(I_, s, fr, c, a, d, de, rb): return Obj('path', key=path_key(I_, s, a[0]))
    def m_handle(I_, s, fr, c, a, d, de, rb): return Obj('rt_handle')
    def h_spawn(I_, s, fr):
        if 'ret' in fr.data:
            res = fr.data.pop('ret'); joined = z3.Bool(fresh_name('task_joined'))
            I_.do_return(s, Obj('leaf_future', op='c20_join', res=res)); return [s]
        raise Stuck('spawn_blocking driver re-entered')
    def m_spawn(I_, s, fr, c, a, d, de, rb):
        clos = mat(I_, s, a[1]); fnc = I_.resolve_closure(clos.ty if isinstance(clos, (Adt, Unknown)) else '')
        if fnc is None: raise Stuck('closure given to spawn_blocking not found')
        s.frames.append(ModelFrame(h_spawn, {}, de, rb)); I_.push_call(s, fnc, [clos], None, None); return PUSHED
    def op_join(I_, s, fut): return mk_ready(mk_ok(fut.d['res']))
    LEAF_OPS['c20_join'] = op_join
    def m_new_in(I_, s, fr, c, a, d, de, rb):
        okf = z3.Bool(fresh_name('tempfile_created')); dirk = path_key(I_, s, a[0])
        return Forks([(okf, mk_ok(Obj('named_temp', dir=dirk, content=('empty',))), lambda s2: s2.events.append(('tmp.create', dirk))), (z3.Not(okf), mk_err(Obj('ioerror', ek=None)), None)])
    def m_into_parts(I_, s, fr, c, a, d, de, rb):
        t = mat(I_, s, a[0]); cell = s.alloc(t)
        return Adt('tuple', None, {(None, 0): Obj('tmp_file', of=cell), (None, 1): Obj('tmp_path', of=cell)})
    def m_to_vec_pretty(I_, s, fr, c, a, d, de, rb):
        okf = z3.Bool(fresh_name('serialises'))
        return Forks([(okf, mk_ok(Obj('vec', content=('pretty-json-of', dr(I_, s, a[0])))), None), (z3.Not(okf), mk_err(Obj('serde_error')), None)])
    def m_write_all(I_, s, fr, c, a, d, de, rb):
        f = dr(I_, s, a[0]); buf = dr(I_, s, a[1]); okf = z3.Bool(fresh_name('write_ok')); cell = f.d['of']
        def full(s2): s2.heap[cell] = Obj('named_temp', dir=s2.heap[cell].d['dir'], content=buf.d.get('content')); s2.events.append(('tmp.write', 'complete'))
        def part(s2): s2.heap[cell] = Obj('named_temp', dir=s2.heap[cell].d['dir'], content=('partial',)); s2.events.append(('tmp.write', 'partial'))
        return Forks([(okf, mk_ok(unit()), full), (z3.Not(okf), mk_err(Obj('ioerror', ek=None)), part)])
    def m_from_parts(I_, s, fr, c, a, d, de, rb): return s.heap[dr(I_, s, a[0]).d['of']]
    def m_persist(I_, s, fr, c, a, d, de, rb):
        t = mat(I_, s, a[0]); dest = path_key(I_, s, a[1]); okf = z3.Bool(fresh_name('persist_ok'))
        return Forks([(okf, mk_ok(Obj('file')), lambda s2: s2.events.append(('persist', t.d['dir'], dest, t.d['content']))), (z3.Not(okf), mk_err(Obj('persist_error')), lambda s2: s2.events.append(('persist_failed', dest)))])
    def m_fs_direct(I_, s, fr, c, a, d, de, rb):
        try: k = path_key(I_, s, a[-1]) if a else None
        except Exception: k = 'unreadable path'
        s.events.append(('direct', c.split('::<')[0], k)); okf = z3.Bool(fresh_name('direct_ok'))
        return leaf_future('ready', val=z3.If(okf, 0, 0)) if False else Forks([(okf, mk_ok(unit()), None), (z3.Not(okf), mk_err(Obj('ioerror', ek=None)), None)])
    ms = [(RXc(r'^(std::path::)?Path::parent$'), m_parent), (RXc(r'^(std::path::)?Path::to_path_buf$'), m_to_path_buf), (RXc(r'^Handle::current$'), m_handle), (RXc(r'^Handle::spawn_blocking::<'), m_spawn),
          (RXc(r'^(tokio::task::)?spawn_blocking::<'), lambda I_, s, fr, c, a, d, de, rb: m_spawn(I_, s, fr, c, [None] + list(a), d, de, rb)),
          (RXc(r'^NamedTempFile::new_in::<'), m_new_in), (RXc(r'^NamedTempFile::into_parts$'), m_into_parts), (RXc(r'^(serde_json::)?to_vec_pretty::<'), m_to_vec_pretty), (RXc(r'^(serde_json::)?to_vec::<'), m_to_vec_pretty),
          (RXc(r'^<std::fs::File as std::io::Write>::write_all$'), m_write_all), (RXc(r'^NamedTempFile::from_parts$'), m_from_parts), (RXc(r'^NamedTempFile::persist::<'), m_persist),
          (RXc(r'^std::fs::(write|rename|copy|remove_file)::<'), m_fs_direct), (RXc(r'^<Vec<u8> as Deref>::deref$'), m_identity)] + stdm.STD_MODELS
    saved = list(I.models); I.models[:0] = ms
    try:
        st.frames.append(ModelFrame(h_async_driver, {'phase': 0, 'ctor': fn, 'args': [Obj('path', key='root.json'), Obj('json_value', uid='NEW CONTENT')], 'generics': {'T': 'T'}}))
        done = []; I.run(st, done.append)
    finally:
        I.models[:] = saved
    R.check_interp_clean(I, 'write_file')
    oks = []
    for s in done:
        R.paths += 1
        tag, _ = classify(s.result)
        pers = [e for e in s.events if e[0] == 'persist']; direct = [e for e in s.events if e[0] == 'direct']
        good = lambda e: e[1] == 'DIR-OF(root.json)' and e[2] == 'root.json' and isinstance(e[3], tuple) and e[3][0] == 'pretty-json-of' and getattr(e[3][1], 'd', {}).get('uid') == 'NEW CONTENT'
        R.obligation('write_file: the destination is only ever replaced by persisting a temporary file from its own directory that already holds the complete serialisation of the new value; nothing writes to it directly', s.pc,
                     z3.BoolVal(not direct and len(pers) <= 1 and all(good(e) for e in pers)), group='write-file/atomic')
        if tag == 'Ok':
            oks.append(s); R.obligation('write_file: Ok => the destination was replaced', s.pc, z3.BoolVal(len(pers) == 1), group='write-file/atomic')
        else:
            R.obligation('write_file: an error leaves the destination as it was', s.pc, z3.BoolVal(not pers), group='write-file/error-no-effect')
    R.reach_any('write_file: success reachable', [s.pc for s in oks])
    R.samples.append({'function': 'write_file', 'paths': len(done)})

def boxed(s, v):
    """Box<dyn T> as the MIR takes it apart: Box.0 (Unique) .0 (NonNull) transmuted to a raw pointer"""
    return Adt('Box', None, {(None, 0): Adt('Unique', None, {(None, 0): Ref(s.alloc(v))})})

def editor_fmt_models():
    import editor
    return editor.install_format_models()

def sign_command(R, I, tier):
    fn = cmd_fn(I, 'sign')
    RTn = variants('RoleType')
    for nold in ([0, 1, 2] if tier == 'quick' else [0, 1, 2, 3]):
        for nnew_max in ([2] if tier == 'quick' else [2, 3]):
            for cross in (False, True):
                label = f'sign [{nold} signatures already in the file, <= {nnew_max} signing keys, cross_sign={cross}]'
                st = State(); st.env['fs'] = {}
                nk = {rn: 2 for rn in RTn}
                file0, old_ids = mk_root(st, 'cur', nk, nold)
                crossf, _ = mk_root(st, 'old', nk, 0)
                before = stdm.deep_clone(I, st, file0)
                if nold > 1: st.pc.append(z3.Distinct(old_ids))           # invariant of the file: one signature per key id (maintained by add_old_signatures)
                # the "every role lists at least `threshold` key ids" loop forks per role: snapshot and timestamp are taken as stable here
                # (their handling is the same code as for targets, which stays symbolic together with root)
                for rn_ in ('Snapshot', 'Timestamp'):
                    ids_, thr_ = role_ids(st, file0, rn_); st.pc.append(z3.ULE(thr_, len(ids_)))
                ignore = z3.Bool('ignore_threshold')
                own_ids, own_thr = role_ids(st, file0, 'Root'); other_ids, _ = role_ids(st, crossf, 'Root')
                holder_ids = other_ids if cross else own_ids
                env = {'new': None}
                def m_sr_new(I_, s, fr, c, a, d, de, rb): return leaf_future('c20_sr_new', role=mat(I_, s, a[0]), holder=dr(I_, s, a[1]))
                def op_sr_new(I_, s, fut):
                    kh = fut.d['holder']
                    alts = [(z3.Bool(fresh_name('sign_fails')), mk_ready(mk_err(error('tough/SigningKeysNotFound'))), None)]
                    for m_ in range(0, nnew_max + 1):
                        ids = [z3.BitVec(f'new_sig{j}', 8) for j in range(m_)]
                        cons = [z3.Or([x == h for h in holder_ids]) for x in ids] + ([z3.Distinct(ids)] if m_ > 1 else [])
                        def post(s2, ids=ids):
                            s2.events.append(('new_signatures', list(ids)))
                        sigs = Obj('vec', elems=[s.alloc(Adt('Signature', None, {(None, F('Signature', 'keyid')): keyid(x), (None, F('Signature', 'sig')): Obj('sigbytes', by=x, over='cur')})) for x in ids])
                        sr = Adt('SignedRole', None, {(None, F('SignedRole', 'signed')): Adt('Signed', None, {(None, F('Signed', 'signed')): fut.d['role'], (None, F('Signed', 'signatures')): sigs}),
                                                      (None, F('SignedRole', 'buffer')): Obj('vec', content=('buffer-of', 'fresh')), (None, F('SignedRole', 'sha256')): Obj('digest'), (None, F('SignedRole', 'length')): BV64(0)})
                        alts.append((z3.And([z3.Bool(fresh_name(f'signs_{m_}'))] + cons), mk_ready(mk_ok(sr)), post))
                    return Forks(alts)
                LEAF_OPS['c20_sr_new'] = op_sr_new
                def m_from_signed(I_, s, fr, c, a, d, de, rb):
                    sg = mat(I_, s, a[0])
                    return mk_ok(Adt('SignedRole', None, {(None, F('SignedRole', 'signed')): sg, (None, F('SignedRole', 'buffer')): Obj('vec', content=('buffer-of', 'with-old')), (None, F('SignedRole', 'sha256')): Obj('digest'), (None, F('SignedRole', 'length')): BV64(0)}))
                def m_tmp_new(I_, s, fr, c, a, d, de, rb):
                    okf = z3.Bool(fresh_name('tmp_ok')); return Forks([(okf, mk_ok(Obj('tmpfile', dir=path_key(I_, s, a[0]))), None), (z3.Not(okf), mk_err(Obj('ioerror', ek=39)), None)])
                def m_tmp_write(I_, s, fr, c, a, d, de, rb):
                    t = dr(I_, s, a[0]); b = dr(I_, s, a[1]); okf = z3.Bool(fresh_name('tmp_write_ok'))
                    def post(s2): dr(I_, s2, a[0]).d['content'] = b.d.get('content')
                    return Forks([(okf, mk_ok(unit()), post), (z3.Not(okf), mk_err(Obj('ioerror', ek=39)), None)])
                def m_persist(I_, s, fr, c, a, d, de, rb):
                    t = mat(I_, s, a[0]); okf = z3.Bool(fresh_name('persist_ok'))
                    return Forks([(okf, mk_ok(Obj('file')), lambda s2: s2.events.append(('persist', path_key(I_, s2, a[1]), t.d.get('content'), t.d.get('dir')))), (z3.Not(okf), mk_err(Obj('persist_error')), None)])
                extra = [(RXc(r'^SignedRole::<tough::schema::Root>::new$'), m_sr_new), (RXc(r'^SignedRole::<T>::from_signed$|^SignedRole::<.*Root>::from_signed$'), m_from_signed),
                         (RXc(r'^NamedTempFile::new_in::<'), m_tmp_new), (RXc(r'^<NamedTempFile as std::io::Write>::write_all$'), m_tmp_write), (RXc(r'^NamedTempFile::persist::<'), m_persist),
                         (RXc(r'^SystemRandom::new$'), lambda I_, s, fr, c, a, d, de, rb: Obj('rng')), (RXc(r'^<tough::schema::(Root|Signed<tough::schema::Root>) as Clone>::clone$'), stdm.m_clone_deep),
                         (RXc(r'^max_level$'), lambda I_, s, fr, c, a, d, de, rb: Adt('LevelFilter', 0, {}))]
                I.models[:0] = extra
                try:
                    args = [Obj('path', key='root.json'), Ref(st.alloc(Obj('key_sources'))), mk_some(Obj('path', key='cross.json')) if cross else mk_none(), ignore]
                    done = run_cmd(I, st, fn, args, {'root.json': file0, 'cross.json': crossf})
                finally:
                    del I.models[:len(extra)]
                R.check_interp_clean(I, label)
                oks = []
                for s in done:
                    R.paths += 1
                    tag, _ = classify(s.result)
                    persists = [e for e in s.events if e[0] == 'persist']
                    news = [e for e in s.events if e[0] == 'new_signatures']
                    new_ids = news[-1][1] if news else []
                    def dec(m, label=label, new_ids=new_ids):
                        ev = lambda t: m.eval(t, model_completion=True).as_long()
                        return {'kind': 'sign', 'case': label, 'root_role_key_ids': [ev(x) for x in own_ids], 'root_threshold': ev(own_thr), 'signatures_in_file_by': [ev(x) for x in old_ids], 'new_signatures_by': [ev(x) for x in new_ids],
                                'ignore_threshold': bool(z3.is_true(m.eval(ignore, model_completion=True))), 'cross_sign': cross}
                    if tag != 'Ok':
                        R.obligation(f'{label}: an error leaves the previous file intact', s.pc, z3.BoolVal(not persists), decode=dec, group='error-leaves-file')
                        continue
                    oks.append(s)
                    R.obligation(f'{label}: success => the signed file replaces root.json atomically (temp file in the same directory, one rename)', s.pc,
                                 z3.BoolVal(len(persists) == 1 and persists[0][1] == 'root.json' and persists[0][3] == 'DIR'), decode=dec, group='written-once')
                    # the signatures in the written file: new ones plus the old ones whose key id is not among the new ones
                    final = list(new_ids) + list(old_ids)
                    def counted(i):   # is final[i] present in the file (old ones are dropped when a new one has the same id) and by one of the root's own keys
                        x = final[i]
                        present = z3.BoolVal(True) if i < len(new_ids) else z3.And([x != y for y in new_ids] + [z3.BoolVal(True)])
                        own = z3.Or([x == h for h in own_ids])
                        first = z3.And([x != final[j] for j in range(i)] + [z3.BoolVal(True)])
                        return z3.And(present, own, first)
                    nvalid = z3.Sum([z3.If(counted(i), 1, 0) for i in range(len(final))] + [z3.IntVal(0)])
                    if not cross:
                        R.obligation(f'{label}: success without --ignore-threshold => at least `threshold` distinct signatures by the root\'s own root keys are in the file (it verifies under itself)', s.pc,
                                     z3.Or(ignore, z3.BV2Int(own_thr) <= nvalid), decode=dec, group='self-verifies')
                        for rn in RTn:
                            ids, thr = role_ids(st, before, rn)
                            R.obligation(f'{label}: success without --ignore-threshold => role {rn} lists at least `threshold` key ids', s.pc, z3.Or(ignore, z3.ULE(thr, len(ids))), decode=dec, group='stable-root')
                R.reach_any(f'{label}: success reachable', [s.pc for s in oks])
                R.samples.append({'case': label, 'paths': len(done), 'ok': len(oks)})

def check(R, tier):
    I = R.interp('tuftool', also=('tough',)); install_world(I)
    R.bounds.update({'file state': 'arbitrary version / expiry / thresholds / key table; 2 key ids per role (symbolic, may coincide); 0..2 (quick) / 0..3 (thorough) signatures already in the file, one per key id',
                     'commands': 'bump-version, expire, set-version, set-threshold <each role>, remove-key <id> [each role], add-key <source> -r <roles>, sign with 0..2/3 usable keys, with and without --cross-sign / --ignore-threshold',
                     'sequences': 'one step from an arbitrary file state (inductive); sequences of <= 12 real invocations in the native sweep',
                     'sign: role thresholds': 'root and targets arbitrary; snapshot and timestamp assumed to list at least `threshold` key ids (same loop body as targets)'})
    R.assumptions += ['inside the subcommand harnesses load_file / write_file are oracles that either fail without effect or read / atomically replace the file; write_file itself is checked from MIR (write-file/*) against the contract of tempfile::NamedTempFile (new_in creates in the given directory, persist = atomic rename)', 'SignedRole::new: C10 contract (signatures only by distinct keys listed for the role in the given key holder)',
                      'signatures already in the file are over the current content (every content-changing subcommand removes them: checked here) and carry one signature per key id',
                      'init and gen-rsa-key are covered by the native sweep only (openssl); add-key with the key source as an oracle (parses or not, readable or not, yields one key)']
    file_io(R, I, tier)
    simple_commands(R, I, tier)
    add_key_command(R, I, tier)
    sign_command(R, I, tier)
    native(R, tier)

def native(R, tier):
    import rootcli
    seed = int(os.environ.get('VERIF_SEED', '0'))
    try: tuftool = rootcli.build_tuftool(VERIF_DIR)
    except RuntimeError as e:
        R.inconclusive.append(str(e)[:500]); return
    res = rootcli.sweep(tuftool, lambda op, sc: R.replay(op, sc), seed, 25 if tier == 'quick' else 150)
    d = rootcli.directed(tuftool, lambda op, sc: R.replay(op, sc))
    res['problems'] += d
    R.differential['scenarios'] += res['sequences'] + 1; R.differential['agree'] += res['sequences'] + 1 - len({p.get('index', -1) for p in res['problems']})
    R.samples.append({'native tuftool sequences': res['sequences'], 'invocations': res['invocations']})
    seen = set()
    for p in res['problems']:
        if p['class'] in seen: continue
        seen.add(p['class'])
        R.report_violation(f"tuftool root: {p['what']} — sequence: {'; '.join(p['sequence'])[:700]}", {'op': 'tuftool-root-sequence', 'seed': p.get('seed'), 'index': p.get('index'), 'sequence': p['sequence']})
    if R.counterexamples and not res['problems']:
        for cx in R.counterexamples[:3]:
            R.inconclusive.append(f'counterexample for "{cx["obligation"]}" did not show up in the native tuftool sweep: {str(cx.get("scenario"))[:300]}')

VERIF_DIR = os.path.dirname(os.path.dirname(os.path.dirname(os.path.abspath(__file__))))

def replay_file(R, path):
    import rootcli
    sc = json.load(open(path))['scenario']; tuftool = rootcli.build_tuftool(VERIF_DIR)
    if sc.get('index') is None: print(json.dumps(rootcli.directed(tuftool, lambda op, s: R.replay(op, s)))); return 0
    log = []; pr = rootcli.run_sequence(tuftool, lambda op, s: R.replay(op, s), sc['seed'] * 100003 + sc['index'], 12, log)
    print(json.dumps({'sequence': log, 'problems': pr})); return 0
