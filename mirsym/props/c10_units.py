"""C10 unit harnesses over MIR: SignedRole::new (signing with role keys, threshold), SignedRole::from_signed (length / digest of the kept buffer),
RepositoryEditor::update_delegated_targets (incoming metadata must meet the delegating role's threshold and must not lower the version)."""
import z3, json, re, itertools
from client import *
import stdm
from stdm import dr, BV64
import editor

RXc = re.compile
LenB = z3.Function('LenOfBytes', z3.IntSort(), z3.BitVecSort(64))
_intern = {}
def intern(content):
    key = repr(content)
    if key not in _intern: _intern[key] = len(_intern) + 1
    return _intern[key]

def fld(adt, struct, name): return adt.fields[(None, F(struct, name))]

ROLE_TYPES = None
def role_type_index(name):
    return variants('RoleType').index(name)

def signed_role_fn(I, name):
    for n, fs in I.funcs.items():
        if 'editor/signed.rs:54:' in n and n.endswith('>::' + name): return fs[0]
    for n, fs in I.funcs.items():
        if 'editor/signed.rs' in n and n.endswith('>::' + name) and fs[0].args.startswith('_1: T' if name == 'new' else '_1: schema::Signed<T>'): return fs[0]
    raise Stuck('SignedRole::' + name + ' not found')

# ------------------------------------------------------------------ SignedRole::new
def unit_models(I, env):
    def m_get_keys(I_, s, fr, c, a, d, de, rb): return leaf_future('get_keys')
    def op_get_keys(I_, s, fut):
        ents = [(Obj('keyid', id=k), Adt('BoxedSigner', None, {(None, 0): Adt('Unique', None, {(None, 0): Ref(s.alloc(Obj('signer', idx=i)))})})) for i, k in enumerate(env['provided'])]
        cells = [s.alloc(Adt('tuple', None, {(None, 0): Ref(s.alloc(kid)), (None, 1): Ref(s.alloc(sg))})) for kid, sg in ents]
        okf = z3.Bool(fresh_name('get_keys_ok'))
        return Forks([(okf, mk_ready(mk_ok(Obj('keylist', cells=cells))), None), (z3.Not(okf), mk_ready(mk_err(error('KeysNotFoundInRoot'))), None)])
    LEAF_OPS['get_keys'] = op_get_keys
    def m_role_keys(I_, s, fr, c, a, d, de, rb):
        okf = z3.Bool(fresh_name('role_known'))
        rk = Adt('RoleKeys', None, {(None, F('RoleKeys', 'keyids')): Obj('idvec', ids=list(env['role_ids'])), (None, F('RoleKeys', 'threshold')): env['thr']})
        return Forks([(okf, mk_ok(rk), lambda s2: s2.events.append(('role_known', True))), (z3.Not(okf), mk_err(error('SigningKeysNotFound')), lambda s2: s2.events.append(('role_known', False)))])
    def m_role_id(I_, s, fr, c, a, d, de, rb): return Obj('role_id')
    def m_hm_iter(I_, s, fr, c, a, d, de, rb):
        kl = dr(I_, s, a[0]); return Obj('kl_iter', cells=list(kl.d['cells']), pos=0)
    def m_filter(I_, s, fr, c, a, d, de, rb):
        it = mat(I_, s, a[0]); return Obj('filter', cells=list(it.d['cells']), pos=0, clos=s.alloc(mat(I_, s, a[1])))
    def h_filter_next(I_, s, fr):
        d = fr.data
        it = s.heap[d['it']] if not isinstance(d['it'], Ref) else I_.deref_load(s, d['it'])
        if 'ret' in d:
            keep = d.pop('ret'); cell = it.d['cells'][it.d['pos']]; it.d['pos'] += 1
            keep = keep if z3.is_expr(keep) else z3.BoolVal(bool(keep))
            out = []
            for cond, take in ((keep, True), (z3.Not(keep), False)):
                if not I_.feasible(s, extra=cond): continue
                s2 = s.clone(); s2.pc.append(cond)
                if take:
                    I_.do_return(s2, mk_some(s2.heap[cell]))
                out.append(s2)
            return out
        if it.d['pos'] >= len(it.d['cells']):
            I_.do_return(s, mk_none()); return [s]
        fn = I_.resolve_closure(s.heap[it.d['clos']].ty)
        if fn is None: raise Stuck('filter closure not found')
        I_.push_call(s, fn, [Ref(it.d['clos']), Ref(it.d['cells'][it.d['pos']])], None, None); return [s]
    def m_filter_next(I_, s, fr, c, a, d, de, rb):
        r = mat(I_, s, a[0])
        s.frames.append(ModelFrame(h_filter_next, {'it': r}, de, rb)); return PUSHED
    def m_contains(I_, s, fr, c, a, d, de, rb):
        v = dr(I_, s, a[0]); k = dr(I_, s, a[1])
        s.events.append(('contains', [str(x) for x in v.d['ids']], str(k.d['id'])))
        return z3.Or([k.d['id'] == x for x in v.d['ids']] + [z3.BoolVal(False)])
    def m_canon_new(I_, s, fr, c, a, d, de, rb): return Obj('canonical_formatter')
    def m_with_formatter(I_, s, fr, c, a, d, de, rb): return Obj('serializer', w=mat(I_, s, a[0]), fmt=mat(I_, s, a[1]).kind)
    def m_serialize(I_, s, fr, c, a, d, de, rb):
        role = dr(I_, s, a[0]); ser = dr(I_, s, a[1]); vec = dr(I_, s, ser.d['w'])
        okf = z3.Bool(fresh_name('serialize_ok'))
        def fill(s2):
            v2 = dr(I_, s2, dr(I_, s2, a[1]).d['w']); v2.d['content'] = ('canonical-json', ser.d['fmt'], role.fields.get((None, 'uid')))
        return Forks([(okf, mk_ok(unit()), fill), (z3.Not(okf), mk_err(Obj('serde_error')), None)])
    def m_sign(I_, s, fr, c, a, d, de, rb):
        sg = dr(I_, s, a[0]); data = dr(I_, s, a[1])
        return leaf_future('sign', signer=sg.d.get('idx'), over=data.d.get('content'))
    def op_sign(I_, s, fut):
        okf = z3.Bool(fresh_name('sign_ok'))
        return Forks([(okf, mk_ready(mk_ok(Obj('vec', content=('signature', fut.d['signer'], fut.d['over'])))), None), (z3.Not(okf), mk_ready(mk_err(Obj('sign_error'))), None)])
    LEAF_OPS['sign'] = op_sign
    def m_nz_get(I_, s, fr, c, a, d, de, rb): return a[0]
    def m_rt_ne(I_, s, fr, c, a, d, de, rb):
        x = dr(I_, s, a[0]); y = dr(I_, s, a[1])
        dx, dy = discr_of(I_, s, x), discr_of(I_, s, y)
        if isinstance(dx, int) and isinstance(dy, int): return z3.BoolVal(dx != dy)
        return (dx if not isinstance(dx, int) else BV64(dx)) != (dy if not isinstance(dy, int) else BV64(dy))
    def m_rt_to_string(I_, s, fr, c, a, d, de, rb): return Obj('str', s='<role type>')
    def m_vec_u8_new(I_, s, fr, c, a, d, de, rb): return Obj('vec', content=('empty',))
    def m_from_signed(I_, s, fr, c, a, d, de, rb):
        sg = mat(I_, s, a[0]); return mk_ok(Adt('SignedRole', None, {(None, F('SignedRole', 'signed')): sg, (None, 'from_signed'): True}))
    return [(RXc(r'^keys::<impl KeyHolder>::get_keys$'), m_get_keys), (RXc(r'^keys::<impl KeyHolder>::role_keys$'), m_role_keys), (RXc(r' as Role>::role_id$'), m_role_id),
            (RXc(r'^HashMap::<Decoded<Hex>, Box<dyn sign::Sign>>::iter$'), m_hm_iter), (RXc(r'^core::slice::<impl \[\(Decoded<Hex>, Box<dyn sign::Sign>\)\]>::iter$'), m_hm_iter), (RXc(r'^<Vec<\(Decoded<Hex>, Box<dyn sign::Sign>\)> as Deref>::deref$'), m_identity), (RXc(r'as Iterator>::filter::<'), m_filter), (RXc(r'^<std::iter::Filter<.*> as IntoIterator>::into_iter$'), m_identity),
            (RXc(r'^<std::iter::Filter<.*> as Iterator>::next$'), m_filter_next), (RXc(r'^core::slice::<impl \[Decoded<Hex>\]>::contains$'), m_contains),
            (RXc(r'^CanonicalFormatter::new$'), m_canon_new), (RXc(r'^serde_json::Serializer::<.*>::with_formatter$'), m_with_formatter), (RXc(r' as Serialize>::serialize::<'), m_serialize),
            (RXc(r'^<dyn sign::Sign as sign::Sign>::sign::<'), m_sign), (RXc(r'^NonZero::<u64>::get$'), m_nz_get), (RXc(r'^<RoleType as PartialEq>::ne$'), m_rt_ne),
            (RXc(r'^<RoleType as ToString>::to_string$'), m_rt_to_string), (RXc(r'^Vec::<u8>::new$'), m_vec_u8_new), (RXc(r'^SignedRole::<.*>::from_signed$'), m_from_signed),
            (RXc(r'^<Vec<u8> as Into<Decoded<Hex>>>::into$'), lambda I_, s, fr, c, a, d, de, rb: Obj('decoded', of=mat(I_, s, a[0])))] + stdm.STD_MODELS

def key_list_is_map(I):
    """KeyList (what KeyHolder::get_keys returns) is a map keyed by key id in the current source: a map holds one entry per id; any other container may hold
    the same key several times, and then it is the business of SignedRole::new to count distinct keys"""
    for n, fs in I.funcs.items():
        if n.endswith('get_keys::{closure#0}') and 'editor/keys.rs' in n: return 'HashMap<' in (fs[0].ret or '') or 'BTreeMap<' in (fs[0].ret or '')
    for n, fs in I.funcs.items():
        if n.endswith('>::get_keys') and 'editor/keys.rs' in n: return 'HashMap<' in fs[0].text[:3000] or 'BTreeMap<' in fs[0].text[:3000]
    return True

def signed_role_new(R, I, tier):
    fn = signed_role_fn(I, 'new')
    is_map = key_list_is_map(I)
    types = ['Snapshot', 'DelegatedTargets', 'Root'] if tier == 'quick' else ['Snapshot', 'schema::Timestamp', 'Targets', 'DelegatedTargets', 'Root']
    maxn = 2 if tier == 'quick' else 3
    R.bounds.update({'SignedRole::new': f'role types {types}; 0..{maxn} usable signing keys (distinct ids), 1..{maxn} key ids listed for the role (any, may repeat), any threshold'})
    R.assumptions += ['KeyHolder::get_keys yields the provided keys that appear in the key table, under their table ids (distinct ids if and only if KeyList is a map type in the current source); KeyHolder::role_keys yields the key ids and threshold of the role or fails',
                      'Sign::sign may fail; a signature is a function of (key, message); the canonical serialisation is a function of the role content (C11)']
    for T in types:
        for n in range(0, maxn + 1):
            for m in range(1, maxn + 1):
                label = f'SignedRole::<{T}>::new[{n} keys, {m} listed]'
                env = {'provided': [z3.BitVec(f'pk{i}', 8) for i in range(n)], 'role_ids': [z3.BitVec(f'rk{j}', 8) for j in range(m)], 'thr': z3.BitVec('thr', 64)}
                st = State(); st.env['fs'] = {}
                if n > 1 and is_map: st.pc.append(z3.Distinct(env['provided']))      # a map holds one entry per key id
                st.pc.append(env['thr'] != 0)
                uid = 4242
                role = Adt(T.split('::')[-1], None, {(None, 'uid'): uid})
                saved = list(I.models); I.models[:0] = unit_models(I, env)
                try:
                    st.frames.append(ModelFrame(h_async_driver, {'phase': 0, 'ctor': fn, 'args': [role, Ref(st.alloc(Obj('key_holder'))), Ref(st.alloc(Obj('key_sources'))), Ref(st.alloc(Obj('rng')))], 'generics': {'T': T}}))
                    done = []; I.run(st, done.append)
                finally:
                    I.models[:] = saved
                R.check_interp_clean(I, label)
                nvalid = z3.Sum([z3.If(z3.Or([k == r for r in env['role_ids']]), 1, 0) for k in env['provided']] + [z3.IntVal(0)])
                # distinct provided keys listed for the role (= nvalid when the ids are distinct)
                ndistinct = z3.Sum([z3.If(z3.And(z3.Or([k == r for r in env['role_ids']]), z3.And([k != k2 for k2 in env['provided'][:i]] + [z3.BoolVal(True)])), 1, 0) for i, k in enumerate(env['provided'])] + [z3.IntVal(0)])
                is_root = (T == 'Root')
                def dec(m_, env=env, label=label):
                    ev = lambda t: m_.eval(t, model_completion=True).as_long()
                    return {'kind': 'signed_role_new', 'case': label, 'provided_key_ids': [ev(k) for k in env['provided']], 'role_key_ids': [ev(r) for r in env['role_ids']], 'threshold': ev(env['thr'])}
                oks = []
                for s in done:
                    R.paths += 1
                    tag, val = classify(s.result)
                    if tag == 'Ok':
                        oks.append(s)
                        sg = fld(val, 'SignedRole', 'signed'); sigs = dr(I, s, fld(sg, 'Signed', 'signatures'))
                        elems = [s.heap[c] for c in sigs.d['elems']]
                        R.obligation(f'{label}: success => the role is wrapped unchanged and handed to from_signed', s.pc, z3.BoolVal(fld(sg, 'Signed', 'signed').fields.get((None, 'uid')) == uid and val.fields.get((None, 'from_signed')) is True), decode=dec, group='new/wraps-role')
                        R.obligation(f'{label}: success => number of signatures = number of provided keys listed for the role', s.pc, z3.IntVal(len(elems)) == nvalid, decode=dec, group='new/signature-count')
                        if not is_root:
                            R.obligation(f'{label}: success => the signatures meet the role threshold with distinct keys', s.pc, z3.BV2Int(env['thr']) <= ndistinct, decode=dec, group='new/threshold')
                        for e in elems:
                            kid = dr(I, s, fld(e, 'Signature', 'keyid')); sig = dr(I, s, fld(e, 'Signature', 'sig'))
                            body = sig.d.get('of') if sig.kind == 'decoded' else sig
                            body = dr(I, s, body) if body is not None else None
                            cont = body.d.get('content') if isinstance(body, Obj) else None
                            good = isinstance(cont, tuple) and cont[0] == 'signature' and cont[2] == ('canonical-json', 'canonical_formatter', uid)
                            idx = cont[1] if good else None
                            R.obligation(f'{label}: every signature is by a key listed for the role, made by that key over the canonical form of this role', s.pc,
                                         z3.And(z3.BoolVal(bool(good)), z3.Or([kid.d['id'] == r for r in env['role_ids']]), kid.d['id'] == env['provided'][idx] if good and idx is not None else z3.BoolVal(False)), decode=dec, group='new/signatures-genuine')
                    if tag.startswith('Err:SigningKeysNotFound'):
                        # either the role is unknown to the key holder, or the threshold is not met: if the role was known, refusal must be justified
                        if ('role_known', True) in s.events:
                            R.obligation(f'{label}: refusal for missing keys only when fewer provided keys are listed for the role than its threshold', s.pc,
                                         z3.And(z3.BoolVal(not is_root), z3.BV2Int(env['thr']) > nvalid), decode=dec, group='new/refusal-justified')
                R.reach_any(f'{label}: success reachable', [s.pc for s in oks]) if (n >= 1 or is_root) else None
                R.samples.append({'case': label, 'paths': len(done), 'ok': len(oks)})

# ------------------------------------------------------------------ SignedRole::from_signed
def from_signed(R, I, tier):
    fn = signed_role_fn(I, 'from_signed')
    label = 'SignedRole::from_signed'
    def m_to_vec_pretty(I_, s, fr, c, a, d, de, rb):
        sg = dr(I_, s, a[0]); okf = z3.Bool(fresh_name('ser_ok'))
        return Forks([(okf, mk_ok(Obj('vec', content=('pretty-json', sg.fields.get((None, 'uid'))))), None), (z3.Not(okf), mk_err(Obj('serde_error')), None)])
    def m_push(I_, s, fr, c, a, d, de, rb):
        v = dr(I_, s, a[0]); b = mat(I_, s, a[1]); v.d['content'] = ('append', v.d['content'], z3.simplify(b).as_long() if z3.is_expr(b) else b); return unit()
    def m_len(I_, s, fr, c, a, d, de, rb):
        v = dr(I_, s, a[0]); return LenB(z3.IntVal(intern(v.d['content'])))
    def m_digest(I_, s, fr, c, a, d, de, rb):
        alg = mat(I_, s, a[0]); v = dr(I_, s, a[1])
        algn = alg.d.get('static') if isinstance(alg, Obj) else (dr(I_, s, alg).d.get('static') if isinstance(alg, Ref) else None)
        return Obj('digest', alg=algn, of=v.d['content'])
    def m_copy_from_slice(I_, s, fr, c, a, d, de, rb):
        dst = mat(I_, s, a[0]); src = dr(I_, s, a[1])
        I_.deref_store(s, dst, Obj('bytes32', of=src)); return unit()
    def m_rt_to_string(I_, s, fr, c, a, d, de, rb): return Obj('str', s='<role type>')
    models_ = [(RXc(r'^to_vec_pretty::<'), m_to_vec_pretty), (RXc(r'^Vec::<u8>::push$'), m_push), (RXc(r'^Vec::<u8>::len$'), m_len), (RXc(r'^digest$'), m_digest),
               (RXc(r'^<Digest as AsRef<\[u8\]>>::as_ref$'), m_identity), (RXc(r'^core::slice::<impl \[u8\]>::copy_from_slice$'), m_copy_from_slice), (RXc(r'^<RoleType as ToString>::to_string$'), m_rt_to_string)]
    for T in ['Targets', 'DelegatedTargets', 'Snapshot']:
        st = State(); st.env['fs'] = {}
        sg = Adt('Signed', None, {(None, F('Signed', 'signed')): Adt(T, None, {(None, 'uid'): 7}), (None, F('Signed', 'signatures')): Obj('signatures', uid=8), (None, 'uid'): 99})
        saved = list(I.models); I.models[:0] = models_ + stdm.STD_MODELS
        try:
            I.push_call(st, fn, [sg], None, None, generics={'T': T})
            done = []; I.run(st, done.append)
        finally:
            I.models[:] = saved
        R.check_interp_clean(I, f'{label}<{T}>')
        oks = []
        for s in done:
            R.paths += 1
            r = s.result
            if r.discr != 0: continue
            oks.append(s); sr = r.fields[('Ok', 0)]
            buf = dr(I, s, fld(sr, 'SignedRole', 'buffer')); want = ('append', ('pretty-json', 99), 10)
            R.obligation(f'{label}<{T}>: the kept buffer is the pretty serialisation of exactly the given signed role, newline-terminated', s.pc, z3.BoolVal(buf.d.get('content') == want and fld(sr, 'SignedRole', 'signed').fields.get((None, 'uid')) == 99), group='from_signed/buffer')
            R.obligation(f'{label}<{T}>: length = length of the kept buffer', s.pc, fld(sr, 'SignedRole', 'length') == LenB(z3.IntVal(intern(want))), group='from_signed/length')
            sha = dr(I, s, fld(sr, 'SignedRole', 'sha256'))
            good = isinstance(sha, Obj) and sha.kind == 'bytes32' and isinstance(sha.d.get('of'), Obj) and sha.d['of'].kind == 'digest' and sha.d['of'].d.get('alg') == 'SHA256' and sha.d['of'].d.get('of') == want
            R.obligation(f'{label}<{T}>: sha256 = SHA-256 of the kept buffer', s.pc, z3.BoolVal(bool(good)), group='from_signed/digest')
        R.reach_any(f'{label}<{T}>: success reachable', [s.pc for s in oks])
        R.samples.append({'case': f'{label}<{T}>', 'paths': len(done)})

# ------------------------------------------------------------------ RepositoryEditor::update_delegated_targets
def update_delegated(R, I, tier):
    """incoming metadata for an existing role replaces it only if it meets the delegating role's key threshold and does not lower the version"""
    fn = None
    for n, fs in I.funcs.items():
        if 'editor/mod.rs' in n and n.endswith('>::update_delegated_targets'): fn = fs[0]
    if fn is None: raise Stuck('update_delegated_targets not found')
    cases = [('A', 'delegated by targets'), ('C', 'delegated by A'), ('targets', 'top-level')]
    if tier == 'quick': cases = cases[:2] + cases[2:]
    for name, what in cases:
        for sub in ('none-new', 'one-new'):
            label = f'update_delegated_targets[{name} ({what}), incoming delegates {"nothing new" if sub == "none-new" else "one role not loaded yet"}]'
            st = State(); st.env['fs'] = {}
            W = {'in_roles': {}}
            tree = editor.mk_tree([('A', [('C', [])]), ('B', [])])
            top = editor.mk_targets_doc(st, tree, W)
            # give every Delegations object an id so that the verification oracle can say which one was consulted
            def tag_delegs(doc, owner):
                d = fld(doc, 'Targets', 'delegations')
                if isinstance(d.discr, int) and d.discr == 1:
                    dg = d.fields[('Some', 0)]; dg.fields[(None, 'owner')] = owner
                    for c in fld(dg, 'Delegations', 'roles').d['elems']:
                        r = st.heap[c]; t = fld(r, 'DelegatedRole', 'targets')
                        if t.discr == 1: tag_delegs(fld(t.fields[('Some', 0)], 'Signed', 'signed'), fld(r, 'DelegatedRole', 'name').d['s'])
            top.fields[(None, F('Targets', 'delegations'))].discr = 1
            tag_delegs(top, 'targets')
            cur_ver = {'targets': z3.BitVec('ver_targets', 64), 'A': z3.BitVec('ver_A', 64), 'C': z3.BitVec('ver_C', 64)}[name]
            in_ver = z3.BitVec('incoming_version', 64)
            kept = 'C' if name == 'A' else ('A' if name == 'targets' else None)      # a sub-role of the incoming document that is already loaded
            roles_in = []
            if kept: roles_in.append(kept)
            if sub == 'one-new': roles_in.append('NEW')
            def mk_incoming(s):
                elems = [s.alloc(Adt('DelegatedRole', None, {(None, F('DelegatedRole', 'name')): Obj('str', s=rn), (None, F('DelegatedRole', 'keyids')): Obj('keyids', uid=f'in-{rn}'),
                                                            (None, F('DelegatedRole', 'threshold')): BV64(1), (None, F('DelegatedRole', 'paths')): Obj('pathset', uid=f'in-{rn}'), (None, F('DelegatedRole', 'terminating')): z3.BoolVal(False),
                                                            (None, F('DelegatedRole', 'targets')): mk_none()})) for rn in roles_in]
                dg = Adt('Delegations', None, {(None, F('Delegations', 'keys')): Obj('keytable', uid='incoming'), (None, F('Delegations', 'roles')): Obj('vec', elems=elems), (None, 'owner'): 'INCOMING'})
                doc = Adt('Targets', None, {(None, F('Targets', 'version')): in_ver, (None, F('Targets', 'delegations')): Adt('Option<Delegations>', z3.If(z3.Bool('incoming_has_delegations'), BV64(1), BV64(0)), {('Some', 0): dg}),
                                            (None, F('Targets', 'targets')): Obj('fmap', f=lambda k: stdm.V0()), (None, F('Targets', '_extra')): Obj('fmap', f=lambda k: stdm.V0()), (None, 'uid'): 'INCOMING'})
                return Adt('Signed', None, {(None, F('Signed', 'signed')): doc, (None, F('Signed', 'signatures')): Obj('signatures', uid='incoming')})
            def mk_new_role(s):
                doc = Adt('Targets', None, {(None, F('Targets', 'version')): z3.BitVec('new_role_version', 64), (None, F('Targets', 'delegations')): mk_none(), (None, F('Targets', 'targets')): Obj('fmap', f=lambda k: stdm.V0()),
                                            (None, F('Targets', '_extra')): Obj('fmap', f=lambda k: stdm.V0()), (None, 'uid'): 'NEWROLE'})
                return Adt('Signed', None, {(None, F('Signed', 'signed')): doc, (None, F('Signed', 'signatures')): Obj('signatures', uid='newrole')})
            RE = 'RepositoryEditor'
            ed = Adt(RE, None, {(None, F(RE, 'signed_root')): Adt('SignedRole', None, {(None, F('SignedRole', 'signed')): Adt('Signed', None, {(None, F('Signed', 'signed')): Adt('Root', None, {(None, 'owner'): 'ROOT'})})}),
                                (None, F(RE, 'signed_targets')): mk_some(Adt('Signed', None, {(None, F('Signed', 'signed')): top, (None, F('Signed', 'signatures')): Obj('signatures', uid='top')})),
                                (None, F(RE, 'targets_editor')): mk_some(Obj('targets_editor')), (None, F(RE, 'transport')): mk_some(Adt('Box<dyn Transport>', None, {(None, 0): Ref(st.alloc(Obj('dyn_transport')))})),
                                (None, F(RE, 'limits')): mk_some(Adt('Limits', None, {(None, F('Limits', 'max_targets_size')): z3.BitVec('max_targets_size', 64)}))})
            before = stdm.deep_clone(I, st, top)
            def m_parse_url(I_, s, fr, c, a, d, de, rb):
                okf = z3.Bool(fresh_name('url_ok')); return Forks([(okf, mk_ok(Obj('url', base='U')), None), (z3.Not(okf), mk_err(error('UrlParse')), None)])
            def m_enc(I_, s, fr, c, a, d, de, rb): return Obj('str', s=None, pieces=['{enc(%s)}' % dr(I_, s, a[0]).d.get('s')])
            def m_join(I_, s, fr, c, a, d, de, rb):
                okf = z3.Bool(fresh_name('join_ok')); return Forks([(okf, mk_ok(Obj('url', base='U', file=path_key(I_, s, a[1]))), None), (z3.Not(okf), mk_err(Obj('url_parse_error')), None)])
            def m_fetch(I_, s, fr, c, a, d, de, rb): return leaf_future('c10_fetch', url=dr(I_, s, a[1]).d.get('file'), max_size=mat(I_, s, a[2]))
            def op_fetch(I_, s, fut):
                okf = z3.Bool(fresh_name('fetch_ok'))
                return Forks([(okf, mk_ready(mk_ok(Obj('stream', url=fut.d['url']))), lambda s2: s2.events.append(('fetch', fut.d['url'], fut.d['max_size']))), (z3.Not(okf), mk_ready(mk_err(error('Transport'))), None)])
            LEAF_OPS['c10_fetch'] = op_fetch
            def m_into_vec(I_, s, fr, c, a, d, de, rb): return leaf_future('c10_into_vec', url=dr(I_, s, a[0]).d['url'])
            def op_into_vec(I_, s, fut):
                okf = z3.Bool(fresh_name('body_ok'))
                return Forks([(okf, mk_ready(mk_ok(Obj('vec', content=('remote', fut.d['url'])))), None), (z3.Not(okf), mk_ready(mk_err(Obj('terror', tkind=None))), None)])
            LEAF_OPS['c10_into_vec'] = op_into_vec
            def m_from_slice(I_, s, fr, c, a, d, de, rb):
                v = dr(I_, s, a[0]); url = v.d['content'][1]; okf = z3.Bool(fresh_name('parse_ok'))
                doc = mk_incoming(s) if url == '{enc(%s)}.json' % name else (mk_new_role(s) if url == '{enc(NEW)}.json' else None)
                if doc is None: raise Stuck('parse of unexpected file ' + str(url))
                return Forks([(okf, mk_ok(doc), None), (z3.Not(okf), mk_err(Obj('serde_error')), None)])
            def m_verify(I_, s, fr, c, a, d, de, rb):
                holder = dr(I_, s, a[0]); doc = dr(I_, s, a[1]); nm = dr(I_, s, a[2]).d.get('s') if len(a) > 2 else 'targets'
                okf = z3.Bool(fresh_name('verified'))
                ev = ('verify', holder.fields.get((None, 'owner')), fld(doc, 'Signed', 'signed').fields.get((None, 'uid')), nm)
                return Forks([(okf, mk_ok(unit()), lambda s2: s2.events.append(ev + (True,))), (z3.Not(okf), mk_err(error('schema/VerifyMetadata')), lambda s2: s2.events.append(ev + (False,)))])
            def m_str_eq(I_, s, fr, c, a, d, de, rb):
                x = dr(I_, s, a[0]); y = dr(I_, s, a[1])
                if x.d.get('s') is None or y.d.get('s') is None: raise Stuck(f'string comparison {x!r} == {y!r}')
                return z3.BoolVal(x.d['s'] == y.d['s'])
            def m_ge(I_, s, fr, c, a, d, de, rb): return z3.UGE(dr(I_, s, a[0]), dr(I_, s, a[1]))
            def h_find(I_, s, fr):
                d = fr.data
                if 'ret' in d:
                    hit = d.pop('ret'); hit = hit if z3.is_expr(hit) else z3.BoolVal(bool(hit)); hs = z3.simplify(hit)
                    if z3.is_true(hs): I_.do_return(s, mk_some(Ref(d['elems'][d['i']]))); return [s]
                    if not z3.is_false(hs): raise Stuck('find: symbolic predicate')
                    d['i'] += 1
                if d['i'] >= len(d['elems']): I_.do_return(s, mk_none()); return [s]
                fnc = I_.resolve_closure(s.heap[d['clos']].ty)
                I_.push_call(s, fnc, [Ref(d['clos']), Ref(s.alloc(Ref(d['elems'][d['i']])))], None, None); return [s]
            def m_find(I_, s, fr, c, a, d, de, rb):
                it = dr(I_, s, a[0]); vec = dr(I_, s, it.d['vec'])
                s.frames.append(ModelFrame(h_find, {'elems': list(vec.d['elems'][it.d['pos']:]), 'i': 0, 'clos': s.alloc(mat(I_, s, a[1]))}, de, rb)); return PUSHED
            ms = [(RXc(r'^editor::parse_url$'), m_parse_url), (RXc(r'^encode_filename::<'), m_enc), (RXc(r'^Url::join$'), m_join), (RXc(r'^fetch_max_size$'), m_fetch),
                  (RXc(r'as IntoVec<TransportError>>::into_vec'), m_into_vec), (RXc(r'^from_slice::<'), m_from_slice), (RXc(r'^verify::<impl (Delegations|Root)>::verify_role'), m_verify),
                  (RXc(r'^<&str as PartialEq>::eq$|^<std::string::String as PartialEq(<&str>)?>::eq$'), m_str_eq), (RXc(r'^<NonZero<u64> as PartialOrd>::ge$'), m_ge),
                  (RXc(r'^<std::slice::IterMut<.*> as Iterator>::find::<'), m_find), (RXc(r'^core::slice::<impl \[.*\]>::iter_mut$'), stdm.m_vec_iter), (RXc(r'^<&mut Vec<.*> as IntoIterator>::into_iter$'), stdm.m_vec_iter),
                  (RXc(r'^<std::slice::IterMut<.*> as Iterator>::next$'), stdm.m_iter_next), (RXc(r'^<Vec<.*> as DerefMut>::deref_mut$'), m_identity), (RXc(r'^<Box<dyn Transport> as AsRef<dyn Transport>>::as_ref$'), m_identity),
                  (RXc(r'^<str as ToString>::to_string$'), lambda I_, s, fr, c, a, d, de, rb: clone(dr(I_, s, a[0]))), (RXc(r'^<Url as Clone>::clone$'), stdm.m_clone_deep)] + editor.install_format_models() + stdm.STD_MODELS
            saved = list(I.models); I.models[:0] = ms
            try:
                cell = st.alloc(ed)
                st.frames.append(ModelFrame(h_async_driver, {'phase': 0, 'ctor': fn, 'args': [Ref(cell), Obj('str', s=name), Obj('str', s='http://incoming/')], 'generics': None}))
                done = []; I.run(st, done.append)
            finally:
                I.models[:] = saved
            R.check_interp_clean(I, label)
            oks = []
            def role_in(s, doc, rn):
                """Signed<Targets> stored for role rn below doc"""
                d = fld(doc, 'Targets', 'delegations')
                if not (isinstance(d.discr, int) and d.discr == 1) and not z3.is_true(z3.simplify(d.discr == 1) if z3.is_expr(d.discr) else False):
                    if isinstance(d.discr, int): return None
                for c in fld(d.fields[('Some', 0)], 'Delegations', 'roles').d['elems']:
                    r = s.heap[c]; t = fld(r, 'DelegatedRole', 'targets')
                    if fld(r, 'DelegatedRole', 'name').d['s'] == rn: return t
                    if isinstance(t.discr, int) and t.discr == 1:
                        x = role_in(s, fld(t.fields[('Some', 0)], 'Signed', 'signed'), rn)
                        if x is not None: return x
                return None
            for s in done:
                R.paths += 1
                tag, _ = classify(s.result)
                edv = s.heap[cell]; stg = fld(edv, RE, 'signed_targets')
                cur_top = fld(stg.fields[('Some', 0)], 'Signed', 'signed')
                ver = [e for e in s.events if e[0] == 'verify']
                def dec(m, label=label): return {'kind': 'update_delegated_targets', 'case': label, 'incoming_version': m.eval(in_ver, model_completion=True).as_long(), 'current_version': m.eval(cur_ver, model_completion=True).as_long()}
                if tag != 'Ok':
                    out = []; editor.same(s, cur_top, s, before, out, 'signed_targets')
                    R.obligation(f'{label}: a refused update leaves the repository metadata as it was', s.pc, editor.conj(out), decode=dec, group='update/refusal-no-effect')
                    continue
                oks.append(s)
                parent = {'A': 'targets', 'C': 'A', 'targets': 'ROOT'}[name]
                R.obligation(f'{label}: accepted => the incoming document was verified, successfully, against the delegating role ({parent}) under this role name', s.pc,
                             z3.BoolVal(any(e[1] == parent and e[2] == 'INCOMING' and e[3] == name and e[4] for e in ver)), decode=dec, group='update/verified-by-parent')
                R.obligation(f'{label}: accepted => the version is not lowered', s.pc, z3.UGE(in_ver, cur_ver), decode=dec, group='update/no-downgrade')
                stored = cur_top if name == 'targets' else None
                if name != 'targets':
                    t = role_in(s, cur_top, name)
                    stored = fld(t.fields[('Some', 0)], 'Signed', 'signed') if t is not None and t.discr == 1 else None
                R.obligation(f'{label}: accepted => the stored role is the incoming document', s.pc, z3.BoolVal(stored is not None and stored.fields.get((None, 'uid')) == 'INCOMING'), decode=dec, group='update/replaced')
                if stored is not None and stored.fields.get((None, 'uid')) == 'INCOMING':
                    if kept:
                        t = role_in(s, stored, kept); orig = role_in(s, before, kept)
                        out = []
                        if t is None or orig is None or t.discr != 1: out.append((False, 'kept role missing'))
                        else: editor.same(s, t.fields[('Some', 0)], s, orig.fields[('Some', 0)], out, kept)
                        R.obligation(f'{label}: roles the incoming document still delegates to keep their loaded metadata', s.pc, editor.conj(out), decode=dec, group='update/sub-roles')
                    if sub == 'one-new':
                        t = role_in(s, stored, 'NEW')
                        got_new = t is not None and t.discr == 1 and fld(t.fields[('Some', 0)], 'Signed', 'signed').fields.get((None, 'uid')) == 'NEWROLE'
                        R.obligation(f'{label}: a newly delegated role is loaded and verified against the incoming document\'s own delegations', s.pc,
                                     z3.BoolVal(bool(got_new) and any(e[1] == 'INCOMING' and e[2] == 'NEWROLE' and e[3] == 'NEW' and e[4] for e in ver)), decode=dec, group='update/new-sub-roles')
                R.obligation(f'{label}: the open targets editor is dropped', s.pc, z3.BoolVal(fld(edv, RE, 'targets_editor').discr == 0), decode=dec, group='update/editor-cleared')
                for e in [e for e in s.events if e[0] == 'fetch']:
                    R.obligation(f'{label}: every download is bounded by max_targets_size', s.pc, e[2] == z3.BitVec('max_targets_size', 64), decode=dec, group='update/bounded')
            R.reach_any(f'{label}: acceptance reachable', [s.pc for s in oks])
            R.samples.append({'case': label, 'paths': len(done), 'accepted': len(oks)})

# ------------------------------------------------------------------ TargetsWalker::target_path
def target_path(R, I, tier):
    """publication of a target file: only a file whose digest equals the signed digest of the target of that name is given a destination,
    and the destination is the name the client will request"""
    ctor = I.funcs.get('TargetsWalker::target_path')
    if not ctor: raise Stuck('TargetsWalker::target_path not found')
    ctor = ctor[0]
    FD = z3.Function('DigestOfInputFile', z3.BitVecSort(8), z3.BitVecSort(16))        # digest id of the file at the input path
    SD = z3.Function('SignedDigestOf', z3.BitVecSort(8), z3.BitVecSort(16))           # digest id recorded in the signed metadata for a target name (0 = not listed)
    TP = variants('TargetPath')
    for explicit_name in (False, True):
        label = 'target_path[' + ('explicit target name' if explicit_name else 'name from the input file name') + ']'
        st = State(); st.env['fs'] = {}
        file_id = z3.BitVec('input_file', 8); name_id = z3.BitVec('target_name', 8); cons = z3.Bool('consistent_snapshot')
        def tname(): return Adt('TargetName', None, {(None, 'nid'): name_id, (None, F('TargetName', 'raw')): Obj('str', s=None, pieces=['{raw}']), (None, F('TargetName', 'resolved')): Adt('Option<String>', 1, {('Some', 0): Obj('str', s=None, pieces=['{resolved}'])})})
        def m_canon(I_, s, fr, c, a, d, de, rb):
            okf = z3.Bool(fresh_name('canon_ok')); return leaf_future('ready', val=mk_ok(Obj('path', key='OUT'))) if True else None
        def m_file_name(I_, s, fr, c, a, d, de, rb): return Adt('Option<&OsStr>', z3.If(z3.Bool('has_file_name'), BV64(1), BV64(0)), {('Some', 0): Obj('osstr')})
        def m_to_str(I_, s, fr, c, a, d, de, rb): return Adt('Option<&str>', z3.If(z3.Bool('file_name_utf8'), BV64(1), BV64(0)), {('Some', 0): Obj('str', s=None, pieces=['{file name}'])})
        def m_tn_new(I_, s, fr, c, a, d, de, rb):
            okf = z3.Bool(fresh_name('name_ok')); return Forks([(okf, mk_ok(tname()), lambda s2: s2.events.append(('name-from-file',))), (z3.Not(okf), mk_err(error('schema/InvalidTargetName')), None)])
        def m_from_path(I_, s, fr, c, a, d, de, rb): return leaf_future('c10_from_path')
        def op_from_path(I_, s, fut):
            okf = z3.Bool(fresh_name('read_ok'))
            t = Adt('Target', None, {(None, F('Target', 'hashes')): Adt('Hashes', None, {(None, F('Hashes', 'sha256')): Obj('decoded', dig=FD(file_id))}), (None, F('Target', 'length')): z3.BitVec('input_len', 64)})
            return Forks([(okf, mk_ready(mk_ok(t)), lambda s2: s2.events.append(('hashed-input',))), (z3.Not(okf), mk_ready(mk_err(error('schema/FileRead'))), None)])
        LEAF_OPS['c10_from_path'] = op_from_path
        def m_targets(I_, s, fr, c, a, d, de, rb): return Obj('signed_targets_map')
        def m_get(I_, s, fr, c, a, d, de, rb):
            k = dr(I_, s, a[1]); nid = k.fields[(None, 'nid')]
            t = Adt('Target', None, {(None, F('Target', 'hashes')): Adt('Hashes', None, {(None, F('Hashes', 'sha256')): Obj('decoded', dig=SD(nid))})})
            return Adt('Option<&&Target>', z3.If(SD(nid) != 0, BV64(1), BV64(0)), {('Some', 0): Ref(s.alloc(Ref(s.alloc(t))))})
        def m_dec_eq(I_, s, fr, c, a, d, de, rb):
            x, y = dr(I_, s, a[0]), dr(I_, s, a[1]); s.events.append(('digest-compared', str(x.d['dig']), str(y.d['dig']))); return x.d['dig'] == y.d['dig']
        def m_cons(I_, s, fr, c, a, d, de, rb): return cons
        def m_hex(I_, s, fr, c, a, d, de, rb):
            x = dr(I_, s, a[0]); return Obj('str', s=None, pieces=['{hex(%s)}' % x.d['dig']])
        def m_cow_deref(I_, s, fr, c, a, d, de, rb):
            v = mat(I_, s, a[0])
            v = dr(I_, s, v)
            if isinstance(v, Adt) and ('Borrowed', 0) in v.fields and (not isinstance(v.discr, int) or v.discr == 0): return v.fields[('Borrowed', 0)]
            if isinstance(v, Adt) and ('Owned', 0) in v.fields: return Ref(s.alloc(v.fields[('Owned', 0)]))
            return a[0]
        def m_resolved(I_, s, fr, c, a, d, de, rb): return Obj('str', s=None, pieces=['{resolved}'])
        def m_exists(I_, s, fr, c, a, d, de, rb): return z3.Bool('destination_exists')
        def m_url_from(I_, s, fr, c, a, d, de, rb): return mk_ok(Obj('url', base='file', file=path_key(I_, s, a[0])))
        def m_res_ok(I_, s, fr, c, a, d, de, rb):
            v = mat(I_, s, a[0]); return Adt('Option', 1 if v.discr == 0 else 0, {('Some', 0): v.fields.get(('Ok', 0))})
        def m_fs_fetch(I_, s, fr, c, a, d, de, rb): return leaf_future('c10_fs_fetch', url=dr(I_, s, a[1]).d.get('file'))
        def op_fs_fetch(I_, s, fut):
            okf = z3.Bool(fresh_name('open_ok')); return Forks([(okf, mk_ready(mk_ok(Obj('stream', of=fut.d['url']))), None), (z3.Not(okf), mk_ready(mk_err(Obj('terror', tkind=None))), None)])
        LEAF_OPS['c10_fs_fetch'] = op_fs_fetch
        def m_digest_adapter(I_, s, fr, c, a, d, de, rb):
            st_ = mat(I_, s, a[0]); want = dr(I_, s, a[1]); return Obj('stream', of=dr(I_, s, st_).d.get('of'), verified_against=str(want.d.get('dig')) if isinstance(want, Obj) else repr(want))
        def m_try_for_each(I_, s, fr, c, a, d, de, rb): return leaf_future('c10_drain', stream=dr(I_, s, a[0]))
        def op_drain(I_, s, fut):
            okf = z3.Bool(fresh_name('existing_matches')); va = fut.d['stream'].d.get('verified_against')
            return Forks([(okf, mk_ready(mk_ok(unit())), lambda s2: s2.events.append(('existing-verified', va))), (z3.Not(okf), mk_ready(mk_err(Obj('terror', tkind=None))), None)])
        LEAF_OPS['c10_drain'] = op_drain
        def m_symlink_md(I_, s, fr, c, a, d, de, rb):
            okf = z3.Bool(fresh_name('stat_ok')); return leaf_future('ready', val=Adt('Result', z3.If(okf, BV64(0), BV64(1)), {('Ok', 0): Obj('metadata'), ('Err', 0): Obj('ioerror', ek=0)}))
        def m_file_type(I_, s, fr, c, a, d, de, rb): return Obj('filetype')
        def m_is_file(I_, s, fr, c, a, d, de, rb): return z3.Bool('existing_is_file')
        def m_is_symlink(I_, s, fr, c, a, d, de, rb): return z3.Bool('existing_is_symlink')
        def m_deref_vec(I_, s, fr, c, a, d, de, rb): return a[0]
        ms = [(RXc(r'^tokio::fs::canonicalize::<'), m_canon), (RXc(r'^std::path::Path::file_name$'), m_file_name), (RXc(r'^OsStr::to_str$'), m_to_str), (RXc(r'^TargetName::new::<'), m_tn_new),
              (RXc(r'^schema::Target::from_path::<'), m_from_path), (RXc(r' as TargetsWalker>::targets$'), m_targets), (RXc(r'^HashMap::<TargetName, &schema::Target>::get::<'), m_get),
              (RXc(r'^<Decoded<Hex> as PartialEq>::eq$'), m_dec_eq), (RXc(r' as TargetsWalker>::consistent_snapshot$'), m_cons), (RXc(r'^hex::encode::<'), m_hex), (RXc(r'^<Cow<.*TargetName> as Deref>::deref$'), m_cow_deref),
              (RXc(r'^TargetName::resolved$'), m_resolved), (RXc(r'^std::path::Path::exists$'), m_exists), (RXc(r'^Url::from_file_path::<'), m_url_from), (RXc(r'^std::result::Result::<Url, \(\)>::ok$'), m_res_ok),
              (RXc(r'^<FilesystemTransport as Transport>::fetch::<'), m_fs_fetch), (RXc(r'^DigestAdapter::sha256$'), m_digest_adapter), (RXc(r'TryStreamExt>::try_for_each::<'), m_try_for_each),
              (RXc(r'^tokio::fs::symlink_metadata::<'), m_symlink_md), (RXc(r'^std::fs::Metadata::file_type$'), m_file_type), (RXc(r'^FileType::is_file$'), m_is_file), (RXc(r'^FileType::is_symlink$'), m_is_symlink),
              (RXc(r'^Box::<\{async block@.*\}>::pin$'), lambda I_, s, fr, c, a, d, de, rb: Adt('Pin<Box<async block>>', None, {(None, 0): Ref(s.alloc(a[0]))})),
              (RXc(r'^<(std::path::PathBuf|Decoded<Hex>) as Deref>::deref$'), m_deref_vec), (RXc(r'^<Url as Clone>::clone$'), stdm.m_clone_deep)] + editor.install_format_models() + stdm.STD_MODELS
        saved = list(I.models); I.models[:0] = ms
        try:
            tn_opt = mk_some(Ref(st.alloc(tname()))) if explicit_name else mk_none()
            st.frames.append(ModelFrame(h_async_driver, {'phase': 0, 'ctor': ctor, 'args': [Ref(st.alloc(Obj('walker'))), Obj('path', key='IN/file'), Obj('path', key='OUTDIR'), tn_opt], 'generics': {'Self': 'SignedRepository'}}))
            done = []; I.run(st, done.append)
        finally:
            I.models[:] = saved
        R.check_interp_clean(I, label)
        oks = []
        for s in done:
            R.paths += 1
            tag, val = classify(s.result)
            if tag != 'Ok': continue
            oks.append(s)
            def dec(m, label=label): return {'kind': 'target_path', 'case': label, 'consistent_snapshot': bool(z3.is_true(m.eval(cons, model_completion=True))), 'destination_exists': bool(z3.is_true(m.eval(z3.Bool('destination_exists'), model_completion=True)))}
            R.obligation(f'{label}: a destination is only given for a listed target whose signed SHA-256 equals the digest of the input file', s.pc, z3.And(SD(name_id) != 0, FD(file_id) == SD(name_id)), decode=dec, group='publish/digest-checked')
            vname = TP[val.discr] if isinstance(val.discr, int) else (val.ty.split('::')[-1] if val.ty.split('::')[-1] in TP else None)
            pth = None
            for k, v in val.fields.items():
                if k[0] in (vname, None) and k[1] in (0, 'path') and pth is None: pth = path_key(I, s, v)
            R.obligation(f'{label}: the result names its kind (new / existing file / existing symlink)', s.pc, z3.BoolVal(vname is not None and pth is not None), decode=dec, group='publish/destination')
            plain = 'OUT/{resolved}'; pref = 'OUT/{hex(%s)}.{resolved}' % FD(file_id); pref2 = 'OUT/{hex(%s)}.{resolved}' % SD(name_id)
            R.obligation(f'{label}: the destination is <outdir>/<resolved name>, prefixed with the hex digest exactly with consistent snapshots', s.pc,
                         z3.Or(z3.And(z3.Not(cons), z3.BoolVal(pth == plain)), z3.And(cons, z3.BoolVal(pth in (pref, pref2)))), decode=dec, group='publish/destination')
            if vname in ('File', 'Symlink'):
                ver = [e for e in s.events if e[0] == 'existing-verified']
                R.obligation(f'{label}: an existing destination (no consistent snapshots) is accepted only after its content was checked against the signed digest', s.pc,
                             z3.Or(cons, z3.BoolVal(any(e[1] == str(SD(name_id)) for e in ver))), decode=dec, group='publish/existing-verified')
            if vname == 'New':
                R.obligation(f'{label}: "new" only when nothing exists at the destination', s.pc, z3.Not(z3.Bool('destination_exists')), decode=dec, group='publish/new-means-absent')
        R.reach_any(f'{label}: a destination is reachable', [s.pc for s in oks])
        R.reach_any(f'{label}: an existing file is reachable', [s.pc for s in oks], z3.Bool('destination_exists'))
        R.samples.append({'case': label, 'paths': len(done), 'ok': len(oks)})

# ------------------------------------------------------------------ key lookup used for signing (the get_keys contract of the SignedRole::new harness)
def key_lookup(R, I, tier):
    """Root::key_id / Delegations::key_id return the table id of an entry equal to the signing key (or None when there is none);
    get_root_keys / get_targets_keys collect exactly the provided keys that have such an entry, under those ids"""
    KeyC = z3.BitVecSort(8)
    for holder, struct in (('Root', 'Root'), ('Delegations', 'Delegations')):
        fn = None
        for n, fs in I.funcs.items():
            if n.endswith('>::key_id') and 'schema/mod.rs' in n and fs[0].args.startswith('_1: &' + holder): fn = fs[0]
        if fn is None: raise Stuck(holder + '::key_id not found')
        for nent in (0, 1, 2):
            label = f'{holder}::key_id[{nent} table entries]'
            st = State(); st.env['fs'] = {}
            ids = [z3.BitVec(f'tid{i}', 8) for i in range(nent)]; keys = [z3.BitVec(f'tkey{i}', 8) for i in range(nent)]; sk = z3.BitVec('signing_key', 8)
            if nent > 1: st.pc.append(z3.Distinct(ids))
            cells = [st.alloc(Adt('tuple', None, {(None, 0): Ref(st.alloc(Obj('keyid', nid=i_))), (None, 1): Ref(st.alloc(Obj('key', content=k_)))})) for i_, k_ in zip(ids, keys)]
            tbl = Obj('keytable', cells=cells)
            hv = Adt(struct, None, {(None, F(struct, 'keys')): tbl})
            def m_tbl_iter(I_, s, fr, c, a, d, de, rb): return Obj('iter', vec=Ref(s.alloc(Obj('vec', elems=list(dr(I_, s, a[0]).d['cells'])))), pos=0, owned=True)
            def m_tuf_key(I_, s, fr, c, a, d, de, rb): return Obj('key', content=dr(I_, s, a[0]).d['content'])
            def m_key_eq(I_, s, fr, c, a, d, de, rb): return dr(I_, s, a[0]).d['content'] == dr(I_, s, a[1]).d['content']
            ms = [(RXc(r'^<&HashMap<Decoded<Hex>, key::Key> as IntoIterator>::into_iter$'), m_tbl_iter), (RXc(r'^<std::collections::hash_map::Iter<.*key::Key> as Iterator>::next$'), stdm.m_iter_next),
                  (RXc(r'^<dyn sign::Sign as sign::Sign>::tuf_key$'), m_tuf_key), (RXc(r'^<key::Key as PartialEq>::eq$'), m_key_eq), (RXc(r'^<Decoded<Hex> as Clone>::clone$'), stdm.m_clone_deep)] + stdm.STD_MODELS
            saved = list(I.models); I.models[:0] = ms
            try:
                I.push_call(st, fn, [Ref(st.alloc(hv)), Ref(st.alloc(Obj('signer', content=sk)))], None, None)
                done = []; I.run(st, done.append)
            finally:
                I.models[:] = saved
            R.check_interp_clean(I, label)
            for s in done:
                R.paths += 1
                r = mat(I, s, s.result); dd = discr_of(I, s, r)
                some = (dd == 1) if not isinstance(dd, int) else z3.BoolVal(dd == 1)
                rid = dr(I, s, r.fields[('Some', 0)]).d['nid'] if ('Some', 0) in r.fields and (not isinstance(dd, int) or dd == 1) else None
                exists = z3.Or([k == sk for k in keys] + [z3.BoolVal(False)])
                R.obligation(f'{label}: Some(id) => the table entry under that id is this very key; None => no entry equals the key', s.pc,
                             z3.If(some, z3.Or([z3.And(rid == i_, k_ == sk) for i_, k_ in zip(ids, keys)] + [z3.BoolVal(False)]) if rid is not None else z3.BoolVal(False), z3.Not(exists)), group='keys/lookup')
            R.samples.append({'case': label, 'paths': len(done)})

# ------------------------------------------------------------------ TargetsEditor::delegate_role / add_key / build_targets / sign
def delegation_edits(R, I, tier):
    """creating a delegated role: delegate_role(signed role, paths, key_pairs, keyids, threshold) on an editor whose delegations hold an arbitrary
    (bounded) key table and role list; afterwards build_targets / sign must contain exactly the role that was put in, after the roles that were
    there, with every supplied key available in the delegations key table and every earlier key still there; sign() must emit the new role's
    metadata as it was handed over (from_signed of the very document and signatures), under the role's name"""
    TE = 'TargetsEditor'
    def tfn(name, first='_1: &'):
        for n, fs in I.funcs.items():
            if 'editor/targets.rs:' in n and n.endswith('>::' + name) and fs[0].args.startswith(first): return fs[0]
        raise Stuck('TargetsEditor::' + name + ' not found in the MIR')
    f_delegate, f_build, f_sign = tfn('delegate_role', '_1: &mut TargetsEditor'), tfn('build_targets', '_1: &TargetsEditor'), tfn('sign', '_1: &TargetsEditor')
    KID = z3.Function('KeyIdOf', z3.BitVecSort(16), z3.BitVecSort(8))       # key ids are a function of the key (digest of its canonical form)
    configs = [(nold, nnew, nr, nnr) for nold in (0, 1, 2) for nnew in (0, 1, 2) for nr, nnr in ((1, None), (0, 1))]
    if tier == 'quick': configs = [(0, 1, 1, None), (1, 2, 1, None), (2, 1, 0, 1), (2, 2, 1, None)]
    R.assumptions.append('delegate_role: key ids are a collision-free function of the key (SHA-256 of its canonical form) for the keys in play')
    R.bounds['delegate_role'] = 'delegations key table of 0..2 entries (symbolic keys, may coincide with the supplied ones), 0..2 supplied key pairs, 0..1 roles already delegated, new_roles absent or holding one role; key ids are a function of the key'
    for nold, nnew, nroles, nnr in configs:
        for has_deleg in (True, False) if (nold, nnew) == (1, 2) or tier != 'quick' else (True,):
            label = f'delegate_role[{nold} keys in the table, {nnew} supplied, {nroles} roles, new_roles {"None" if nnr is None else nnr}, delegations {"Some" if has_deleg else "None"}]'
            st = State(); st.env['fs'] = {}
            W = {'signed_roles': [], 'in_roles': {}}
            old_v = [z3.BitVec(f'oldkey{i}', 16) for i in range(nold)]; new_v = [z3.BitVec(f'newkey{i}', 16) for i in range(nnew)]
            for v in old_v + new_v: st.pc.append(v != 0)
            if nold > 1: st.pc.append(z3.Distinct([KID(v) for v in old_v]))      # a HashMap holds one entry per id
            if nnew > 1: st.pc.append(z3.Distinct([KID(v) for v in new_v]))
            for a_, b_ in itertools.combinations(old_v + new_v, 2): st.pc.append(z3.Implies(KID(a_) == KID(b_), a_ == b_))     # no digest collisions among the keys in play
            kid = lambda v: Obj('keyid', nid=KID(v)); key = lambda v: Obj('key', vid=v)
            table = Obj('smap', entries=[(kid(v), key(v)) for v in old_v])
            def mk_role(nm):
                return Adt('DelegatedRole', None, {(None, F('DelegatedRole', 'name')): Obj('str', s=nm), (None, F('DelegatedRole', 'keyids')): Obj('vec', elems=[], uid='keyids-' + nm),
                                                   (None, F('DelegatedRole', 'threshold')): z3.BitVec('thr_' + nm, 64), (None, F('DelegatedRole', 'paths')): Obj('pathset', uid='paths-' + nm),
                                                   (None, F('DelegatedRole', 'terminating')): z3.Bool('term_' + nm),
                                                   (None, F('DelegatedRole', 'targets')): mk_some(Adt('Signed', None, {(None, F('Signed', 'signed')): Adt('Targets', None, {(None, 'uid'): 'doc-' + nm}), (None, F('Signed', 'signatures')): Obj('signatures', uid='sigs-' + nm)}))})
            roles0 = [st.alloc(mk_role(f'old{i}')) for i in range(nroles)]
            deleg = Adt('Delegations', None, {(None, F('Delegations', 'keys')): table, (None, F('Delegations', 'roles')): Obj('vec', elems=roles0)})
            nr0 = [st.alloc(mk_role(f'pending{i}')) for i in range(nnr or 0)]
            ed = Adt(TE, None, {(None, F(TE, 'name')): Obj('str', s='me'), (None, F(TE, 'key_holder')): mk_some(Adt('KeyHolder', None, {(None, 'uid'): 'holder'})),
                                (None, F(TE, 'delegations')): mk_some(deleg) if has_deleg else mk_none(),
                                (None, F(TE, 'new_targets')): mk_none(), (None, F(TE, 'existing_targets')): mk_some(Obj('fmap', f=lambda k: editor.InT(IDV(0), k))),
                                (None, F(TE, 'version')): mk_some(z3.BitVec('ed_version', 64)), (None, F(TE, 'expires')): mk_some(z3.Int('ed_expires')),
                                (None, F(TE, 'new_roles')): mk_none() if nnr is None else mk_some(Obj('vec', elems=nr0)), (None, F(TE, '_extra')): mk_none(),
                                (None, F(TE, 'limits')): mk_none(), (None, F(TE, 'transport')): mk_none()})
            in_doc = Adt('Targets', None, {(None, 'uid'): 'doc-NEW'}); in_sigs = Obj('signatures', uid='sigs-NEW')
            incoming = Adt('Signed', None, {(None, F('Signed', 'signed')): Adt('DelegatedTargets', None, {(None, F('DelegatedTargets', 'name')): Obj('str', s='NEW'), (None, F('DelegatedTargets', 'targets')): in_doc}),
                                            (None, F('Signed', 'signatures')): in_sigs})
            paths = Obj('pathset', uid='paths-NEW'); keyids = Obj('vec', elems=[], uid='keyids-NEW'); thr = z3.BitVec('new_threshold', 64)
            pairs = Obj('smap', entries=[(kid(v), key(v)) for v in new_v])
            def m_map_into_iter(I_, s, fr, c, a, d, de, rb):
                m = dr(I_, s, a[0])
                cells = [s.alloc(Adt('tuple', None, {(None, 0): k, (None, 1): v})) for k, v in m.d['entries']]
                return Obj('iter', vec=Ref(s.alloc(Obj('vec', elems=cells))), pos=0, owned=True)
            def m_values(I_, s, fr, c, a, d, de, rb):
                m = dr(I_, s, a[0]); return Obj('iter', vec=Ref(s.alloc(Obj('vec', elems=[s.alloc(mat(I_, s, v)) for _, v in m.d['entries']]))), pos=0, owned=False)
            def h_any(I_, s, fr):
                d = fr.data
                if 'ret' in d:
                    hit = d.pop('ret'); hit = hit if z3.is_expr(hit) else z3.BoolVal(bool(hit))
                    d['acc'] = z3.And(d['acc'], hit) if d['all'] else z3.Or(d['acc'], hit); d['i'] += 1
                if d['i'] >= len(d['elems']): I_.do_return(s, z3.simplify(d['acc'])); return [s]
                fnc = I_.resolve_closure(s.heap[d['clos']].ty)
                I_.push_call(s, fnc, [Ref(d['clos']), Ref(d['elems'][d['i']])], None, None); return [s]
            def m_any(I_, s, fr, c, a, d, de, rb):
                it = dr(I_, s, a[0]); vec = dr(I_, s, it.d['vec'])
                s.frames.append(ModelFrame(h_any, {'elems': list(vec.d['elems'][it.d['pos']:]), 'i': 0, 'all': '::all::<' in c, 'acc': z3.BoolVal('::all::<' in c), 'clos': s.alloc(mat(I_, s, a[1]))}, de, rb)); return PUSHED
            def m_map_len(I_, s, fr, c, a, d, de, rb): return BV64(len(dr(I_, s, a[0]).d['entries']))
            def m_contains_key(I_, s, fr, c, a, d, de, rb):
                m = dr(I_, s, a[0]); k = dr(I_, s, a[1]).d['nid']
                return z3.Or([k == dr(I_, s, ko).d['nid'] for ko, _ in m.d['entries']] + [z3.BoolVal(False)])
            def m_key_ne(I_, s, fr, c, a, d, de, rb): return dr(I_, s, a[0]).d['vid'] != dr(I_, s, a[1]).d['vid']
            def m_key_eq(I_, s, fr, c, a, d, de, rb): return dr(I_, s, a[0]).d['vid'] == dr(I_, s, a[1]).d['vid']
            def m_get_or_insert(I_, s, fr, c, a, d, de, rb):
                r = mat(I_, s, a[0]); o = dr(I_, s, r); dd = discr_of(I_, s, o)
                if not isinstance(dd, int): raise Stuck('get_or_insert on a symbolic Option')
                if dd == 0: I_.deref_store(s, r, mk_some(mat(I_, s, a[1])))
                return Ref(r.cid, list(r.path) + [('f', 'Some', 0, '?')])
            def m_delegated_targets(I_, s, fr, c, a, d, de, rb):
                sg = mat(I_, s, a[0]); nm = dr(I_, s, a[1])
                return Adt('Signed', None, {(None, F('Signed', 'signed')): Adt('DelegatedTargets', None, {(None, F('DelegatedTargets', 'name')): clone(nm), (None, F('DelegatedTargets', 'targets')): fld(sg, 'Signed', 'signed')}),
                                            (None, F('Signed', 'signatures')): fld(sg, 'Signed', 'signatures')})
            def m_str_deref(I_, s, fr, c, a, d, de, rb): return a[0]
            ms = [(RXc(r'^<HashMap<Decoded<Hex>, key::Key> as IntoIterator>::into_iter$'), m_map_into_iter), (RXc(r'^<std::collections::hash_map::IntoIter<Decoded<Hex>, key::Key> as Iterator>::next$'), stdm.m_iter_next),
                  (RXc(r'^HashMap::<Decoded<Hex>, key::Key>::values$'), m_values), (RXc(r'^<std::collections::hash_map::Values<.*> as Iterator>::(any|all)::<'), m_any),
                  (RXc(r'^HashMap::<Decoded<Hex>, key::Key>::len$'), m_map_len), (RXc(r'^HashMap::<Decoded<Hex>, key::Key>::contains_key::<'), m_contains_key), (RXc(r'^<key::Key as PartialEq>::ne$'), m_key_ne),
                  (RXc(r'^<key::Key as PartialEq>::eq$'), m_key_eq), (RXc(r'^std::option::Option::<Vec<DelegatedRole>>::get_or_insert$'), m_get_or_insert),
                  (RXc(r'^<std::string::String as Deref>::deref$'), m_str_deref), (RXc(r'^<&mut Vec<.*> as IntoIterator>::into_iter$'), stdm.m_vec_iter),
                  (RXc(r'^<std::slice::IterMut<.*> as Iterator>::next$'), stdm.m_iter_next)] + editor.editor_models(I, W) + editor.install_format_models()
            saved = list(I.models); I.models[:0] = ms
            try:
                cell = st.alloc(ed)
                before_roles = [('old', i) for i in range(nroles)] + [('pending', i) for i in range(nnr or 0)]
                I.push_call(st, f_delegate, [Ref(cell), incoming, paths, pairs, keyids, thr], None, None)
                done = []; I.run(st, done.append)
                results = []
                for s in done:
                    tag, _ = classify(s.result)
                    if tag != 'Ok': results.append((s, 'delegate_role', tag, None)); continue
                    s2 = s.clone()
                    I.push_call(s2, f_build, [Ref(cell)], None, None)
                    d2 = []; I.run(s2, d2.append)
                    for s3 in d2:
                        t3, v3 = classify(s3.result); results.append((s3, 'build_targets', t3, v3))
                    s.frames.append(ModelFrame(h_async_driver, {'phase': 0, 'ctor': f_sign, 'args': [Ref(cell), Ref(s.alloc(Obj('vec', elems=[])))], 'generics': None}))
                    d4 = []; I.run(s, d4.append)
                    for s5 in d4:
                        t5, v5 = classify(s5.result); results.append((s5, 'sign', t5, v5))
            finally:
                I.models[:] = saved
            R.check_interp_clean(I, label)
            def dec(m, label=label): return {'kind': 'delegate_role', 'case': label, 'roles': nroles, 'pending': nnr or 0, 'has_delegations': has_deleg, 'old_keys': [m.eval(v, model_completion=True).as_long() for v in old_v], 'supplied_keys': [m.eval(v, model_completion=True).as_long() for v in new_v]}
            built = []
            for s, stage, tag, val in results:
                R.paths += 1
                if stage == 'delegate_role':
                    R.obligation(f'{label}: delegate_role fails only when the editor has no delegations', s.pc, z3.BoolVal(not has_deleg), decode=dec, group='delegate/refusal')
                    continue
                if not has_deleg: R.obligation(f'{label}: delegate_role succeeded without delegations to add the keys to', s.pc, z3.BoolVal(False), decode=dec, group='delegate/refusal')
                if stage == 'build_targets':
                    if tag != 'Ok': R.obligation(f'{label}: build_targets succeeds after a successful delegate_role (version and expiration are set)', s.pc, z3.BoolVal(False), decode=dec, group='delegate/build'); continue
                    built.append(s)
                    doc = fld(val, 'DelegatedTargets', 'targets'); dg = mat(I, s, fld(doc, 'Targets', 'delegations'))
                    if not (isinstance(dg.discr, int) and dg.discr == 1):
                        R.obligation(f'{label}: the built targets carry delegations', s.pc, z3.BoolVal(False), decode=dec, group='delegate/build'); continue
                    dgv = dg.fields[('Some', 0)]
                    roles = [s.heap[c] for c in dr(I, s, fld(dgv, 'Delegations', 'roles')).d['elems']]
                    names = [dr(I, s, fld(r, 'DelegatedRole', 'name')).d.get('s') for r in roles]
                    want_names = [f'{k}{i}' for k, i in before_roles] + ['NEW']
                    R.obligation(f'{label}: roles after the edit = roles delegated before, pending new roles, then the new role (nothing lost, nothing twice)', s.pc, z3.BoolVal(names == want_names), decode=dec, group='delegate/role-list')
                    if names and names[-1] == 'NEW':
                        r = roles[-1]; t = mat(I, s, fld(r, 'DelegatedRole', 'targets'))
                        okt = isinstance(t.discr, int) and t.discr == 1 and fld(t.fields[('Some', 0)], 'Signed', 'signed').fields.get((None, 'uid')) == 'doc-NEW' and dr(I, s, fld(t.fields[('Some', 0)], 'Signed', 'signatures')).d.get('uid') == 'sigs-NEW'
                        okf = dr(I, s, fld(r, 'DelegatedRole', 'paths')).d.get('uid') == 'paths-NEW' and dr(I, s, fld(r, 'DelegatedRole', 'keyids')).d.get('uid') == 'keyids-NEW'
                        R.obligation(f'{label}: the new role carries the paths, key ids, threshold, metadata and signatures it was created with, and is not terminating', s.pc,
                                     z3.And(z3.BoolVal(bool(okt and okf)), mat(I, s, fld(r, 'DelegatedRole', 'threshold')) == thr, z3.Not(mat(I, s, fld(r, 'DelegatedRole', 'terminating')))), decode=dec, group='delegate/new-role')
                    for (k, i), r in zip(before_roles, roles):
                        ok = dr(I, s, fld(r, 'DelegatedRole', 'paths')).d.get('uid') == f'paths-{k}{i}' and dr(I, s, fld(r, 'DelegatedRole', 'keyids')).d.get('uid') == f'keyids-{k}{i}' and not dr(I, s, fld(r, 'DelegatedRole', 'keyids')).d['elems']
                        R.obligation(f'{label}: role {k}{i} is unchanged', s.pc, z3.And(z3.BoolVal(bool(ok)), mat(I, s, fld(r, 'DelegatedRole', 'threshold')) == z3.BitVec(f'thr_{k}{i}', 64)), decode=dec, group='delegate/others-unchanged')
                    tb = dr(I, s, fld(dgv, 'Delegations', 'keys'))
                    def lookup(k):
                        t = stdm.V0()
                        for ko, vo in tb.d['entries']: t = z3.If(k == dr(I, s, ko).d['nid'], dr(I, s, vo).d['vid'], t)
                        return t
                    for v in new_v: R.obligation(f'{label}: every supplied key is in the delegations key table under its id', s.pc, lookup(KID(v)) == v, decode=dec, group='delegate/keys-added')
                    for v in old_v: R.obligation(f'{label}: every key that was in the table is still there', s.pc, lookup(KID(v)) == v, decode=dec, group='delegate/keys-kept')
                    anyk = z3.BitVec('anykeyid', 8)
                    R.obligation(f'{label}: the table holds nothing but the earlier and the supplied keys', s.pc, z3.Or([lookup(anyk) == 0] + [z3.And(anyk == KID(v), lookup(anyk) == v) for v in old_v + new_v]), decode=dec, group='delegate/keys-nothing-else')
                if stage == 'sign' and tag == 'Ok':
                    hows = []
                    try:
                        rl = [s.heap[c] for c in dr(I, s, fld(val, 'SignedDelegatedTargets', 'roles')).d['elems']]
                        for sr in rl:
                            rec = next((x for x in W['signed_roles'] if x['tag'] == sr.fields.get((None, 'tag'))), {})
                            sg = fld(sr, 'SignedRole', 'signed'); dt = fld(sg, 'Signed', 'signed')
                            hows.append((rec.get('how'), dr(I, s, fld(dt, 'DelegatedTargets', 'name')).d.get('s'), fld(dt, 'DelegatedTargets', 'targets').fields.get((None, 'uid')) if isinstance(fld(dt, 'DelegatedTargets', 'targets'), Adt) else None,
                                         dr(I, s, fld(sg, 'Signed', 'signatures')).d.get('uid')))
                    except (AttributeError, KeyError, TypeError):
                        hows = [('unreadable', None, None, None)]        # a result built from calls the models do not cover
                    want = [('new', 'me')] + [('from_signed', f'{k}{i}') for k, i in before_roles if k == 'pending'] + [('from_signed', 'NEW')]
                    R.obligation(f'{label}: sign() emits this role freshly signed, then every newly delegated role exactly as handed over (document and signatures), under its own name', s.pc,
                                 z3.BoolVal([h[:2] for h in hows] == want and all(h[2] == 'doc-' + h[1] and h[3] == 'sigs-' + h[1] for h in hows[1:])), decode=dec, group='delegate/sign-emits')
            if has_deleg: R.reach_any(f'{label}: delegate_role and build_targets succeed', [s.pc for s in built])
            R.samples.append({'case': label, 'paths': len(results)})

# ------------------------------------------------------------------ RepositoryEditor::change_delegated_targets / sign_targets_editor
def _walk_roles(s, doc, parent='targets'):
    """yields (role name, parent name, DelegatedRole adt) below a Targets document"""
    d = fld(doc, 'Targets', 'delegations')
    if not (isinstance(d.discr, int) and d.discr == 1): return
    for c in fld(d.fields[('Some', 0)], 'Delegations', 'roles').d['elems']:
        r = s.heap[c]; nm = fld(r, 'DelegatedRole', 'name').d['s']
        yield nm, parent, r
        t = fld(r, 'DelegatedRole', 'targets')
        if isinstance(t.discr, int) and t.discr == 1:
            yield from _walk_roles(s, fld(t.fields[('Some', 0)], 'Signed', 'signed'), nm)

def editor_switch(R, I, tier):
    """moving the editor between roles of a delegation tree (targets -> A -> C, targets -> B):
    change_delegated_targets(role) opens exactly that role's stored metadata with the delegating role's keys as the key holder;
    sign_targets_editor puts the re-signed role back in its own place and nowhere else"""
    RE = 'RepositoryEditor'; TE = 'TargetsEditor'
    f_change = None; f_sign = None
    for n, fs in I.funcs.items():
        if 'editor/mod.rs' in n and n.endswith('>::change_delegated_targets'): f_change = fs[0]
        if 'editor/mod.rs' in n and n.endswith('>::sign_targets_editor'): f_sign = fs[0]
    if f_change is None or f_sign is None: raise Stuck('change_delegated_targets / sign_targets_editor not found')
    R.bounds['editor_switch'] = 'delegation tree targets -> {A -> {C}, B} with symbolic contents (target maps of any size); role argument in {targets, A, B, C, a name that is not delegated}'
    def world():
        st = State(); st.env['fs'] = {}
        W = {'in_roles': {}}
        top = editor.mk_targets_doc(st, editor.mk_tree([('A', [('C', [])]), ('B', [])]), W)
        top.fields[(None, 'uid')] = 'doc-targets'
        d = fld(top, 'Targets', 'delegations'); d.fields[('Some', 0)].fields[(None, 'owner')] = 'targets'
        for nm, parent, r in _walk_roles(st, top):
            doc = fld(fld(r, 'DelegatedRole', 'targets').fields[('Some', 0)], 'Signed', 'signed'); doc.fields[(None, 'uid')] = 'doc-' + nm
            dd = fld(doc, 'Targets', 'delegations')
            if ('Some', 0) in dd.fields: dd.fields[('Some', 0)].fields[(None, 'owner')] = nm
        return st, top
    def snapshot_tree(s, top): return {nm: (parent, stdm.deep_clone(I, s, fld(r, 'DelegatedRole', 'targets'))) for nm, parent, r in _walk_roles(s, top)}
    def mk_editor(st, top, te, has_signed=True):
        return Adt(RE, None, {(None, F(RE, 'signed_root')): Adt('SignedRole', None, {(None, F('SignedRole', 'signed')): Adt('Signed', None, {(None, F('Signed', 'signed')): Adt('Root', None, {(None, 'owner'): 'ROOT'})})}),
                              (None, F(RE, 'signed_targets')): mk_some(Adt('Signed', None, {(None, F('Signed', 'signed')): top, (None, F('Signed', 'signatures')): Obj('signatures', uid='sigs-targets')})) if has_signed else mk_none(),
                              (None, F(RE, 'targets_editor')): te, (None, F(RE, 'transport')): mk_none(), (None, F(RE, 'limits')): mk_none()})
    def m_str_eq(I_, s, fr, c, a, d, de, rb):
        x = dr(I_, s, a[0]); y = dr(I_, s, a[1])
        if x.d.get('s') is None or y.d.get('s') is None: raise Stuck(f'string comparison {x!r} == {y!r}')
        return z3.BoolVal(x.d['s'] == y.d['s'])
    def m_create_signed(I_, s, fr, c, a, d, de, rb): return leaf_future('c10_create_signed', te=dr(I_, s, a[0]))
    def op_create_signed(I_, s, fut):
        okf = z3.Bool(fresh_name('create_signed_ok')); nm = dr(I_, s, fld(fut.d['te'], TE, 'name'))
        new = Adt('Signed', None, {(None, F('Signed', 'signed')): Adt('DelegatedTargets', None, {(None, F('DelegatedTargets', 'name')): clone(nm), (None, F('DelegatedTargets', 'targets')): Adt('Targets', None, {(None, 'uid'): 'doc-RESIGNED', (None, F('Targets', 'delegations')): mk_none()})}),
                                   (None, F('Signed', 'signatures')): Obj('signatures', uid='sigs-RESIGNED')})
        return Forks([(okf, mk_ready(mk_ok(new)), None), (z3.Not(okf), mk_ready(mk_err(error('SigningKeysNotFound'))), None)])
    LEAF_OPS['c10_create_signed'] = op_create_signed
    ms = [(RXc(r'^<&str as PartialEq>::eq$|^<std::string::String as PartialEq(<&str>)?>::eq$'), m_str_eq), (RXc(r'^TargetsEditor::create_signed$'), m_create_signed),
          (RXc(r'^<&mut Vec<.*> as IntoIterator>::into_iter$'), stdm.m_vec_iter), (RXc(r'^<std::slice::IterMut<.*> as Iterator>::next$'), stdm.m_iter_next),
          (RXc(r'^<std::string::String as Deref>::deref$'), m_identity), (RXc(r'^<str as ToString>::to_string$'), lambda I_, s, fr, c, a, d, de, rb: clone(dr(I_, s, a[0])))] + editor.install_format_models() + stdm.STD_MODELS
    parents = {'targets': 'ROOT', 'A': 'targets', 'B': 'targets', 'C': 'A'}
    # ---- change_delegated_targets
    for role in ('targets', 'A', 'B', 'C', 'nobody'):
        for open_editor in (False, True):
            label = f'change_delegated_targets[{role}{", an editor is still open" if open_editor else ""}]'
            st, top = world()
            te0 = mk_some(Adt(TE, None, {(None, F(TE, 'name')): Obj('str', s='B'), (None, 'uid'): 'open-editor'})) if open_editor else mk_none()
            ed = mk_editor(st, top, te0)
            before = stdm.deep_clone(I, st, top)
            saved = list(I.models); I.models[:0] = ms
            try:
                cell = st.alloc(ed)
                I.push_call(st, f_change, [Ref(cell), Obj('str', s=role)], None, None)
                done = []; I.run(st, done.append)
            finally:
                I.models[:] = saved
            R.check_interp_clean(I, label)
            oks = []
            for s in done:
                R.paths += 1
                tag, _ = classify(s.result)
                edv = s.heap[cell]; te = mat(I, s, fld(edv, RE, 'targets_editor'))
                cur_top = fld(fld(edv, RE, 'signed_targets').fields[('Some', 0)], 'Signed', 'signed')
                out = []; editor.same(s, cur_top, s, before, out, 'signed_targets')
                R.obligation(f'{label}: the stored metadata tree is not altered by switching roles', s.pc, editor.conj(out), group='switch/tree-untouched')
                if tag != 'Ok':
                    R.obligation(f'{label}: refused only when an editor is still open or the role is not delegated; the open editor is kept', s.pc,
                                 z3.BoolVal((open_editor or role == 'nobody') and (te.discr == (1 if open_editor else 0)) and (not open_editor or te.fields[('Some', 0)].fields.get((None, 'uid')) == 'open-editor')), group='switch/refusal')
                    continue
                oks.append(s)
                if open_editor or role == 'nobody':
                    R.obligation(f'{label}: must be refused', s.pc, z3.BoolVal(False), group='switch/refusal'); continue
                if not (isinstance(te.discr, int) and te.discr == 1):
                    R.obligation(f'{label}: an editor is opened', s.pc, z3.BoolVal(False), group='switch/opened'); continue
                tev = te.fields[('Some', 0)]
                src = before if role == 'targets' else fld(dict((n, r) for n, _, r in _walk_roles(s, before))[role], 'DelegatedRole', 'targets').fields[('Some', 0)].fields[(None, F('Signed', 'signed'))]
                nm = dr(I, s, fld(tev, TE, 'name')).d.get('s')
                kh = mat(I, s, fld(tev, TE, 'key_holder'))
                khv = kh.fields.get(('Some', 0)) if isinstance(kh.discr, int) and kh.discr == 1 else None
                owner = None
                if isinstance(khv, Adt):
                    vnames = variants('KeyHolder'); vn = vnames[khv.discr] if isinstance(khv.discr, int) else None
                    inner = khv.fields.get((vn, 0)) if vn else None
                    owner = (vn, inner.fields.get((None, 'owner')) if isinstance(inner, Adt) else None)
                want_owner = ('Root', 'ROOT') if role == 'targets' else ('Delegations', parents[role])
                R.obligation(f'{label}: the opened editor is for this role and signs against the keys of the delegating role ({parents[role]})', s.pc, z3.BoolVal(nm == role and owner == want_owner), group='switch/key-holder')
                out = []
                ex = mat(I, s, fld(tev, TE, 'existing_targets'))
                if not (isinstance(ex.discr, int) and ex.discr == 1): out.append((False, 'existing_targets is None'))
                else: editor.same(s, dr(I, s, ex.fields[('Some', 0)]), s, dr(I, s, fld(src, 'Targets', 'targets')), out, 'existing_targets')
                editor.same(s, mat(I, s, fld(tev, TE, 'delegations')), s, fld(src, 'Targets', 'delegations'), out, 'delegations')
                exx = mat(I, s, fld(tev, TE, '_extra'))
                if not (isinstance(exx.discr, int) and exx.discr == 1): out.append((False, '_extra is None'))
                else: editor.same(s, dr(I, s, exx.fields[('Some', 0)]), s, dr(I, s, fld(src, 'Targets', '_extra')), out, '_extra')
                nt = mat(I, s, fld(tev, TE, 'new_targets')); nr = mat(I, s, fld(tev, TE, 'new_roles'))
                R.obligation(f'{label}: the opened editor starts from exactly the stored targets, delegations and unknown members of that role, with nothing pending', s.pc,
                             z3.And(editor.conj(out), z3.BoolVal(nt.discr == 0 and nr.discr == 0)), group='switch/content')
            if not open_editor and role != 'nobody': R.reach_any(f'{label}: succeeds', [s.pc for s in oks])
            R.samples.append({'case': label, 'paths': len(done)})
    # ---- sign_targets_editor
    for role in ('targets', 'A', 'B', 'C', 'nobody', None):
        label = f'sign_targets_editor[{"no editor open" if role is None else "editor open on " + role}]'
        st, top = world()
        te0 = mk_none() if role is None else mk_some(Adt(TE, None, {(None, F(TE, 'name')): Obj('str', s=role), (None, 'uid'): 'open-editor'}))
        ed = mk_editor(st, top, te0)
        before = stdm.deep_clone(I, st, top)
        saved = list(I.models); I.models[:0] = ms
        try:
            cell = st.alloc(ed)
            st.frames.append(ModelFrame(h_async_driver, {'phase': 0, 'ctor': f_sign, 'args': [Ref(cell), Ref(st.alloc(Obj('vec', elems=[])))], 'generics': None}))
            done = []; I.run(st, done.append)
        finally:
            I.models[:] = saved
        R.check_interp_clean(I, label)
        oks = []
        for s in done:
            R.paths += 1
            tag, _ = classify(s.result)
            edv = s.heap[cell]; te = mat(I, s, fld(edv, RE, 'targets_editor'))
            stg = mat(I, s, fld(edv, RE, 'signed_targets'))
            cur = stg.fields[('Some', 0)]; cur_top = fld(cur, 'Signed', 'signed')
            if tag != 'Ok':
                out = []; editor.same(s, cur_top, s, before, out, 'signed_targets')
                R.obligation(f'{label}: a failed signing step leaves the stored metadata as it was', s.pc, editor.conj(out), group='switch/sign-failure-no-effect')
                R.obligation(f'{label}: fails only if an editor is open', s.pc, z3.BoolVal(role is not None), group='switch/sign-failure-no-effect')
                continue
            oks.append(s)
            R.obligation(f'{label}: afterwards no editor is open', s.pc, z3.BoolVal(isinstance(te.discr, int) and te.discr == 0), group='switch/sign-closes')
            if role == 'nobody':
                R.obligation(f'{label}: a role that is not delegated cannot be put back', s.pc, z3.BoolVal(False), group='switch/sign-place'); continue
            if role is None:
                out = []; editor.same(s, cur_top, s, before, out, 'signed_targets')
                R.obligation(f'{label}: nothing changes', s.pc, editor.conj(out), group='switch/sign-place'); continue
            if role == 'targets':
                R.obligation(f'{label}: the re-signed top-level role becomes the stored targets (document and signatures)', s.pc,
                             z3.BoolVal(cur_top.fields.get((None, 'uid')) == 'doc-RESIGNED' and dr(I, s, fld(cur, 'Signed', 'signatures')).d.get('uid') == 'sigs-RESIGNED'), group='switch/sign-place')
                continue
            def own(t):
                """a role's own stored metadata: the roles it delegates to are compared on their own"""
                c = stdm.deep_clone(I, s, t)
                if isinstance(c.discr, int) and c.discr == 1:
                    dgo = fld(fld(c.fields[('Some', 0)], 'Signed', 'signed'), 'Targets', 'delegations')
                    if isinstance(dgo.discr, int) and dgo.discr == 1:
                        for cc in fld(dgo.fields[('Some', 0)], 'Delegations', 'roles').d['elems']: s.heap[cc].fields[(None, F('DelegatedRole', 'targets'))] = Obj('elided')
                return c
            now = {nm: (parent, fld(r, 'DelegatedRole', 'targets')) for nm, parent, r in _walk_roles(s, cur_top)}
            was = {nm: (parent, fld(r, 'DelegatedRole', 'targets')) for nm, parent, r in _walk_roles(s, before)}
            R.obligation(f'{label}: the top-level document itself is kept', s.pc, z3.BoolVal(cur_top.fields.get((None, 'uid')) == 'doc-targets'), group='switch/sign-place')
            t = now.get(role, (None, None))[1]
            placed = t is not None and isinstance(t.discr, int) and t.discr == 1 and fld(t.fields[('Some', 0)], 'Signed', 'signed').fields.get((None, 'uid')) == 'doc-RESIGNED' and dr(I, s, fld(t.fields[('Some', 0)], 'Signed', 'signatures')).d.get('uid') == 'sigs-RESIGNED'
            R.obligation(f'{label}: the re-signed role replaces the stored metadata of {role}, under its delegating role ({parents[role]})', s.pc, z3.BoolVal(bool(placed) and now[role][0] == parents[role]), group='switch/sign-place')
            out = []
            for nm, (parent, t0) in was.items():
                if nm == role or (role == 'A' and nm == 'C'): continue          # C lives inside A's document, which is replaced as a whole
                if nm not in now: out.append((False, f'{nm} disappeared')); continue
                editor.same(s, own(now[nm][1]), s, own(t0), out, nm)
            R.obligation(f'{label}: every other role keeps its stored metadata', s.pc, editor.conj(out), group='switch/sign-others')
        if role not in ('nobody',): R.reach_any(f'{label}: succeeds', [s.pc for s in oks])
        R.samples.append({'case': label, 'paths': len(done)})

# ------------------------------------------------------------------ TargetsWalker::walk_targets (copy_targets / link_targets over a directory)
def walk_publication(R, I, tier):
    """publication by walking a directory: the operator (copy_target / link_target) is applied to every regular file the walk reaches — also
    through symbolic links, which is what a directory produced by link_targets consists of — with the caller's output directory and replace
    behaviour; files that are not targets are skipped, any other failure ends the walk with that error; Ok means every reachable file was handled.
    walkdir's documented contract is the model of the directory iterator: the root first, then every entry; with follow_links(true) a link is
    reported with the type of what it points to and a linked directory is descended into; without it links are reported as links."""
    from deleg import m_box_pin
    ctor = I.funcs.get('TargetsWalker::walk_targets')
    if not ctor: raise Stuck('TargetsWalker::walk_targets not found in the MIR')
    ctor = ctor[0]
    FILE, DIR, LFILE, LDIR, IOERR = 'file', 'dir', 'link->file', 'link->dir{file}', 'error'
    layouts = [[FILE], [LFILE], [LDIR], [FILE, LFILE, LDIR], [DIR, FILE], [FILE, IOERR, FILE]]
    if tier == 'quick': layouts = [[FILE, LFILE, LDIR], [DIR, FILE], [FILE, IOERR, FILE]]
    R.bounds['walk_targets'] = 'input directories of up to 3 entries out of {regular file, sub-directory, link to a file, link to a directory holding one file, unreadable entry}; every operator outcome symbolic (Ok / PathIsNotTarget / another error)'
    R.assumptions.append('walkdir contract: root first, then each entry; follow_links(true) reports a link with the type of its target and descends into linked directories; otherwise links are reported as links (is_file() false); '
                         'tokio mpsc channel + spawn_blocking sequentialised (producer runs to completion, the consumer then drains the queue in order)')
    for layout in layouts:
        label = 'walk_targets[' + ', '.join(layout) + ']'
        st = State(); st.env['fs'] = {}
        def entries(follow):
            """what walkdir yields below the root: list of ('ok', path, is_file) | ('err',)"""
            out = []
            for i, k in enumerate(layout):
                p = f'IN/e{i}'
                if k == FILE: out.append(('ok', p, True))
                elif k == DIR: out.append(('ok', p, False))
                elif k == LFILE: out.append(('ok', p, bool(follow)))
                elif k == LDIR:
                    out.append(('ok', p, False))
                    if follow: out.append(('ok', p + '/inner', True))
                elif k == IOERR: out.append(('err',))
            return out
        reachable = [e[1] for e in entries(True) if e[0] == 'ok' and e[2]]          # the regular files reachable when links are followed
        first_err = next((i for i, e in enumerate(entries(True)) if e[0] == 'err'), None)
        qcell = st.alloc(Obj('queue', items=[]))
        def m_create_dir_all(I_, s, fr, c, a, d, de, rb): return leaf_future('walk_io', what='create_dir_all')
        def m_canon(I_, s, fr, c, a, d, de, rb): return leaf_future('walk_io', what='canonicalize')
        def op_io(I_, s, fut):
            okf = z3.Bool(fresh_name(fut.d['what'] + '_ok'))
            val = unit() if fut.d['what'] == 'create_dir_all' else Obj('path', key='IN')
            return Forks([(okf, mk_ready(mk_ok(val)), lambda s2: s2.events.append(('io', fut.d['what'], True))), (z3.Not(okf), mk_ready(mk_err(Obj('io_error'))), lambda s2: s2.events.append(('io', fut.d['what'], False)))])
        LEAF_OPS['walk_io'] = op_io
        def m_channel(I_, s, fr, c, a, d, de, rb): return Adt('tuple', None, {(None, 0): Obj('sender', q=qcell), (None, 1): Obj('receiver', q=qcell)})
        def h_spawn(I_, s, fr):
            if 'ret' in fr.data: fr.data.pop('ret'); I_.do_return(s, Obj('join_handle')); return [s]
            raise Stuck('spawn_blocking driver re-entered')
        def m_spawn(I_, s, fr, c, a, d, de, rb):
            clos = mat(I_, s, a[0]); fnc = I_.resolve_closure(clos.ty if isinstance(clos, (Adt, Unknown)) else '')
            if fnc is None: raise Stuck('closure given to spawn_blocking not found')
            s.frames.append(ModelFrame(h_spawn, {}, de, rb))
            I_.push_call(s, fnc, [clos], None, None); return PUSHED
        def m_wd_new(I_, s, fr, c, a, d, de, rb): return Obj('walkdir', follow=False)
        def m_wd_follow(I_, s, fr, c, a, d, de, rb):
            w = mat(I_, s, a[0]); b = z3.simplify(I_.as_z3(s, mat(I_, s, a[1])))
            if not (z3.is_true(b) or z3.is_false(b)): raise Stuck('follow_links with a symbolic flag')
            return Obj('walkdir', follow=bool(z3.is_true(b)))
        def m_wd_iter(I_, s, fr, c, a, d, de, rb):
            w = mat(I_, s, a[0])
            items = [mk_ok(Obj('dirent', path='IN', is_file=False))] + [mk_ok(Obj('dirent', path=e[1], is_file=e[2])) if e[0] == 'ok' else mk_err(Obj('walkdir_error')) for e in entries(w.d['follow'])]
            s.events.append(('walkdir', w.d['follow']))
            return Obj('iter', vec=Ref(s.alloc(Obj('vec', elems=[s.alloc(x) for x in items]))), pos=0, owned=True)
        def m_send(I_, s, fr, c, a, d, de, rb):
            tx = dr(I_, s, a[0]); q = s.heap[tx.d['q']]; q.d['items'] = q.d['items'] + [mat(I_, s, a[1])]; return mk_ok(unit())
        def m_is_err(I_, s, fr, c, a, d, de, rb):
            r = mat(I_, s, a[0]); dd = discr_of(I_, s, dr(I_, s, r)); return z3.BoolVal(dd == 1) if isinstance(dd, int) else dd == 1
        def m_recv(I_, s, fr, c, a, d, de, rb): return leaf_future('walk_recv', rx=dr(I_, s, a[0]))
        def op_recv(I_, s, fut):
            q = s.heap[fut.d['rx'].d['q']]
            if not q.d['items']: return mk_ready(mk_none())
            x = q.d['items'][0]; q.d['items'] = q.d['items'][1:]; return mk_ready(mk_some(x))
        LEAF_OPS['walk_recv'] = op_recv
        def m_file_type(I_, s, fr, c, a, d, de, rb): return Obj('filetype', is_file=dr(I_, s, a[0]).d['is_file'])
        def m_is_file(I_, s, fr, c, a, d, de, rb): return z3.BoolVal(bool(dr(I_, s, a[0]).d['is_file']))
        def m_de_path(I_, s, fr, c, a, d, de, rb): return Obj('path', key=dr(I_, s, a[0]).d['path'])
        def m_call_op(I_, s, fr, c, a, d, de, rb):
            tup = mat(I_, s, a[1])
            g = lambda i: dr(I_, s, tup.fields[(None, i)])
            name = mat(I_, s, tup.fields[(None, 4)])
            return leaf_future('walk_op', path=g(1).d.get('key'), outdir=g(2).d.get('key'), replace=mat(I_, s, tup.fields[(None, 3)]), named=discr_of(I_, s, name))
        other_err = 'HashMismatch' if 'HashMismatch' in I.error_variants else next(v for v in I.error_variants if v != 'PathIsNotTarget')
        def op_walk_op(I_, s, fut):
            n = fresh_name('op'); ok = z3.Bool(n + '_ok'); nt = z3.Bool(n + '_not_a_target')
            rec = lambda outcome: (lambda s2: s2.events.append(('op', fut.d['path'], fut.d['outdir'], fut.d['replace'], fut.d['named'], outcome)))
            return Forks([(ok, mk_ready(mk_ok(unit())), rec('ok')), (z3.And(z3.Not(ok), nt), mk_ready(mk_err(error('PathIsNotTarget'))), rec('not-a-target')),
                          (z3.And(z3.Not(ok), z3.Not(nt)), mk_ready(mk_err(error(other_err))), rec('error'))])
        LEAF_OPS['walk_op'] = op_walk_op
        ms = [(RXc(r'^tokio::fs::create_dir_all::<'), m_create_dir_all), (RXc(r'^tokio::fs::canonicalize::<'), m_canon), (RXc(r'^tokio::sync::mpsc::channel::<'), m_channel),
              (RXc(r'^(tokio::task::)?spawn_blocking::<'), m_spawn), (RXc(r'^WalkDir::new::<'), m_wd_new), (RXc(r'^WalkDir::follow_links$'), m_wd_follow), (RXc(r'^<WalkDir as IntoIterator>::into_iter$'), m_wd_iter),
              (RXc(r'^<walkdir::IntoIter as Iterator>::next$'), stdm.m_iter_next), (RXc(r'^tokio::sync::mpsc::Sender::<.*>::blocking_send$'), m_send), (RXc(r'^std::result::Result::<\(\), tokio::sync::mpsc::error::SendError<.*>>::is_err$'), m_is_err),
              (RXc(r'^tokio::sync::mpsc::Receiver::<.*>::recv$'), m_recv), (RXc(r'^walkdir::DirEntry::file_type$'), m_file_type), (RXc(r'^FileType::is_file$'), m_is_file), (RXc(r'^walkdir::DirEntry::path$'), m_de_path),
              (RXc(r'^<F as FnMut<.*>>::call_mut$'), m_call_op), (RXc(r'^Box::<\{async block@.*\}>::pin$'), m_box_pin), (RXc(r'^<std::path::PathBuf as Clone>::clone$'), stdm.m_clone_deep)] + editor.install_format_models() + stdm.STD_MODELS
        saved = list(I.models); I.models[:0] = ms
        try:
            replace = Adt('PathExists', z3.BitVec('replace_behavior', 64), {})
            st.frames.append(ModelFrame(h_async_driver, {'phase': 0, 'ctor': ctor, 'args': [Ref(st.alloc(Obj('signed_repo'))), Obj('path', key='INDIR'), Obj('path', key='OUT'), Obj('walk_operator'), replace], 'generics': None}))
            done = []; I.run(st, done.append)
        finally:
            I.models[:] = saved
        R.check_interp_clean(I, label)
        oks = []
        for s in done:
            R.paths += 1
            tag, _ = classify(s.result)
            ops = [e for e in s.events if e[0] == 'op']; ios = [e for e in s.events if e[0] == 'io']
            called = [e[1] for e in ops]
            R.obligation(f'{label}: the operator is applied only to regular files of the input directory, each at most once, in walk order, with the caller\'s output directory and no explicit name', s.pc,
                         z3.BoolVal(called == reachable[:len(called)] and all(e[2] == 'OUT' and e[4] == 0 for e in ops)), group='walk/only-files')
            for e in ops:
                rv = e[3]; dd = rv.discr if isinstance(rv, Adt) else None
                R.obligation(f'{label}: the replace behaviour is passed on unchanged', s.pc, (dd == z3.BitVec('replace_behavior', 64)) if dd is not None and not isinstance(dd, int) else z3.BoolVal(False), group='walk/replace-behaviour')
            if tag == 'Ok':
                oks.append(s)
                R.obligation(f'{label}: Ok => every regular file reachable in the input directory (through links too) was handed to the operator, and each outcome was success or "not a target"', s.pc,
                             z3.BoolVal(called == reachable and all(e[5] in ('ok', 'not-a-target') for e in ops) and first_err is None), group='walk/ok-complete')
            else:
                why = any(not e[2] for e in ios) or any(e[5] == 'error' for e in ops) or first_err is not None
                R.obligation(f'{label}: failure only for a failed directory operation, an unreadable entry or an operator error other than "not a target"; the walk ends at that error', s.pc,
                             z3.BoolVal(bool(why) and not any(e[5] == 'error' for e in ops[:-1])), group='walk/failure-justified')
        if first_err is None: R.reach_any(f'{label}: a walk that publishes everything is reachable', [s.pc for s in oks if len([e for e in s.events if e[0] == 'op']) == len(reachable)])
        R.samples.append({'case': label, 'paths': len(done), 'ok': len(oks)})

# ------------------------------------------------------------------ TargetsEditor::add_role
def add_role_unit(R, I, tier):
    """a role added from a metadata file: the file requested is <base>/enc(name).json, bounded by max_targets_size; what is delegated is the parsed
    document with its signatures under the given name, paths and threshold; its key ids are those of the supplied keys (or, without supplied
    keys, of the document's own delegations key table); delegate_role does the rest (checked on its own)"""
    TE = 'TargetsEditor'
    fn = None
    for n, fs in I.funcs.items():
        if 'editor/targets.rs:' in n and n.endswith('>::add_role') and fs[0].args.startswith('_1: &mut TargetsEditor'): fn = fs[0]
    if fn is None: raise Stuck('TargetsEditor::add_role not found in the MIR')
    R.bounds['add_role'] = 'keys argument None / Some(1..2 key pairs); incoming document with or without its own delegations (key table of 1 entry); limits and transport present or missing'
    for keys_given in (0, 1, 2):
        for doc_has_deleg in (True, False):
            for have_env in ((True,) if tier == 'quick' and keys_given != 1 else (True, False)):
                label = f'add_role[{keys_given or "no"} keys supplied, incoming document {"with" if doc_has_deleg else "without"} delegations{"" if have_env else ", limits/transport not set"}]'
                st = State(); st.env['fs'] = {}
                kid = lambda t: Obj('keyid', uid=t); key = lambda t: Obj('key', uid=t)
                table = Obj('smap', entries=[])
                deleg = Adt('Delegations', None, {(None, F('Delegations', 'keys')): table, (None, F('Delegations', 'roles')): Obj('vec', elems=[])})
                ed = Adt(TE, None, {(None, F(TE, 'name')): Obj('str', s='me'), (None, F(TE, 'key_holder')): mk_none(), (None, F(TE, 'delegations')): mk_some(deleg),
                                    (None, F(TE, 'new_targets')): mk_none(), (None, F(TE, 'existing_targets')): mk_none(), (None, F(TE, 'version')): mk_none(), (None, F(TE, 'expires')): mk_none(),
                                    (None, F(TE, 'new_roles')): mk_none(), (None, F(TE, '_extra')): mk_none(),
                                    (None, F(TE, 'limits')): mk_some(Adt('Limits', None, {(None, F('Limits', 'max_targets_size')): z3.BitVec('max_targets_size', 64)})) if have_env else mk_none(),
                                    (None, F(TE, 'transport')): mk_some(Adt('Box<dyn Transport>', None, {(None, 0): Ref(st.alloc(Obj('dyn_transport')))})) if have_env else mk_none()})
                own = Adt('Delegations', None, {(None, F('Delegations', 'keys')): Obj('smap', entries=[(kid('own-id'), key('own-key'))]), (None, F('Delegations', 'roles')): Obj('vec', elems=[])})
                doc = Adt('Targets', None, {(None, 'uid'): 'doc-INCOMING', (None, F('Targets', 'delegations')): mk_some(own) if doc_has_deleg else mk_none()})
                parsed = Adt('Signed', None, {(None, F('Signed', 'signed')): doc, (None, F('Signed', 'signatures')): Obj('vec', elems=[], uid='sigs-INCOMING')})
                supplied = [(kid(f'sup-id{i}'), key(f'sup-key{i}')) for i in range(keys_given)]
                keys_arg = mk_some(Obj('smap', entries=supplied)) if keys_given else mk_none()
                def m_parse_url(I_, s, fr, c, a, d, de, rb):
                    okf = z3.Bool(fresh_name('url_ok')); base = dr(I_, s, a[0]).d.get('s')
                    return Forks([(okf, mk_ok(Obj('url', base=base)), None), (z3.Not(okf), mk_err(error('ParseUrl')), None)])
                def m_enc(I_, s, fr, c, a, d, de, rb): return Obj('str', s=None, pieces=['{enc(%s)}' % dr(I_, s, a[0]).d.get('s')])
                def m_join(I_, s, fr, c, a, d, de, rb):
                    okf = z3.Bool(fresh_name('join_ok')); u = dr(I_, s, a[0])
                    return Forks([(okf, mk_ok(Obj('url', base=u.d.get('base'), file=path_key(I_, s, a[1]))), None), (z3.Not(okf), mk_err(Obj('url_parse_error')), None)])
                def m_fetch(I_, s, fr, c, a, d, de, rb):
                    u = dr(I_, s, a[1]); return leaf_future('c10a_fetch', url=(u.d.get('base'), u.d.get('file')), max_size=mat(I_, s, a[2]))
                def op_fetch(I_, s, fut):
                    okf = z3.Bool(fresh_name('fetch_ok'))
                    return Forks([(okf, mk_ready(mk_ok(Obj('stream', url=fut.d['url']))), lambda s2: s2.events.append(('fetch', fut.d['url'], fut.d['max_size']))), (z3.Not(okf), mk_ready(mk_err(error('Transport'))), None)])
                LEAF_OPS['c10a_fetch'] = op_fetch
                def m_into_vec(I_, s, fr, c, a, d, de, rb): return leaf_future('c10a_into_vec', url=dr(I_, s, a[0]).d['url'])
                def op_into_vec(I_, s, fut):
                    okf = z3.Bool(fresh_name('body_ok'))
                    return Forks([(okf, mk_ready(mk_ok(Obj('vec', content=('remote', fut.d['url'])))), None), (z3.Not(okf), mk_ready(mk_err(Obj('terror', tkind=None))), None)])
                LEAF_OPS['c10a_into_vec'] = op_into_vec
                def m_from_slice(I_, s, fr, c, a, d, de, rb):
                    v = dr(I_, s, a[0]); okf = z3.Bool(fresh_name('parse_ok'))
                    return Forks([(okf, mk_ok(stdm.deep_clone(I_, s, parsed)), lambda s2: s2.events.append(('parsed', v.d.get('content')))), (z3.Not(okf), mk_err(Obj('serde_error')), None)])
                def m_keys(I_, s, fr, c, a, d, de, rb):
                    m = dr(I_, s, a[0]); return Obj('iter', vec=Ref(s.alloc(Obj('vec', elems=[s.alloc(k) for k, _ in m.d['entries']]))), pos=0, owned=False)
                def m_collect(I_, s, fr, c, a, d, de, rb):
                    it = dr(I_, s, a[0]); vec = dr(I_, s, it.d['vec'])
                    return Obj('vec', elems=[s.alloc(clone(s.heap[c_])) for c_ in vec.d['elems'][it.d['pos']:]])
                def m_delegate(I_, s, fr, c, a, d, de, rb):
                    s.events.append(('delegate_role', mat(I_, s, a[1]), mat(I_, s, a[2]), mat(I_, s, a[3]), mat(I_, s, a[4]), mat(I_, s, a[5])))
                    okf = z3.Bool(fresh_name('delegate_ok'))
                    return Forks([(okf, mk_ok(a[0]), None), (z3.Not(okf), mk_err(error('NoDelegations')), None)])
                ms = [(RXc(r'^(editor::)?targets::parse_url$'), m_parse_url), (RXc(r'^encode_filename::<'), m_enc), (RXc(r'^Url::join$'), m_join), (RXc(r'^fetch_max_size$'), m_fetch),
                      (RXc(r'as IntoVec<TransportError>>::into_vec'), m_into_vec), (RXc(r'^from_slice::<'), m_from_slice), (RXc(r'^HashMap::<Decoded<Hex>, key::Key>::keys$'), m_keys),
                      (RXc(r'^<std::collections::hash_map::Keys<.*> as Iterator>::cloned::<'), m_identity), (RXc(r'^<Cloned<std::collections::hash_map::Keys<.*>> as Iterator>::collect::<Vec<'), m_collect),
                      (RXc(r'^TargetsEditor::delegate_role$'), m_delegate), (RXc(r'^<Box<dyn Transport> as AsRef<dyn Transport>>::as_ref$'), m_identity), (RXc(r'^<std::string::String as Deref>::deref$'), m_identity),
                      (RXc(r'^<Vec<u8> as Deref>::deref$'), m_identity), (RXc(r'^must_use::<'), m_identity),
                      (RXc(r'^<str as ToString>::to_string$'), lambda I_, s, fr, c, a, d, de, rb: clone(dr(I_, s, a[0]))), (RXc(r'^<(Url|Vec<schema::Signature>) as Clone>::clone$'), stdm.m_clone_deep)] + editor.install_format_models() + stdm.STD_MODELS
                saved = list(I.models); I.models[:0] = ms
                try:
                    cell = st.alloc(ed)
                    thr = z3.BitVec('role_threshold', 64)
                    st.frames.append(ModelFrame(h_async_driver, {'phase': 0, 'ctor': fn, 'args': [Ref(cell), Obj('str', s='NEW ROLE'), Obj('str', s='BASE'), Obj('pathset', uid='paths-NEW'), thr, keys_arg], 'generics': None}))
                    done = []; I.run(st, done.append)
                finally:
                    I.models[:] = saved
                R.check_interp_clean(I, label)
                oks = []
                for s in done:
                    R.paths += 1
                    tag, _ = classify(s.result)
                    fetches = [e for e in s.events if e[0] == 'fetch']; dels = [e for e in s.events if e[0] == 'delegate_role']
                    for e in fetches:
                        R.obligation(f'{label}: the only file requested is <base>/enc(name).json, bounded by max_targets_size', s.pc,
                                     z3.And(z3.BoolVal(e[1] == ('BASE', '{enc(NEW ROLE)}.json') and len(fetches) == 1), e[2] == z3.BitVec('max_targets_size', 64)), group='add_role/fetch')
                    if tag != 'Ok':
                        continue
                    oks.append(s)
                    good = False
                    if len(dels) == 1 and have_env and len(fetches) == 1:
                        _, sg, paths, pairs, ids, th = dels[0]
                        try:
                            dt = fld(sg, 'Signed', 'signed')
                            okdoc = dr(I, s, fld(dt, 'DelegatedTargets', 'name')).d.get('s') == 'NEW ROLE' and fld(dt, 'DelegatedTargets', 'targets').fields.get((None, 'uid')) == 'doc-INCOMING' and dr(I, s, fld(sg, 'Signed', 'signatures')).d.get('uid') == 'sigs-INCOMING'
                            want = [f'sup-id{i}' for i in range(keys_given)] if keys_given else ['own-id']
                            wantk = [f'sup-key{i}' for i in range(keys_given)] if keys_given else ['own-key']
                            got_ids = [dr(I, s, Ref(c_)).d.get('uid') for c_ in dr(I, s, ids).d['elems']]
                            got_pairs = [(dr(I, s, k_).d.get('uid'), dr(I, s, v_).d.get('uid')) for k_, v_ in dr(I, s, pairs).d['entries']]
                            good = okdoc and dr(I, s, paths).d.get('uid') == 'paths-NEW' and got_ids == want and got_pairs == list(zip(want, wantk))
                            R.obligation(f'{label}: the threshold is passed on unchanged', s.pc, th == thr, group='add_role/delegated')
                        except (AttributeError, KeyError, TypeError): good = False
                    R.obligation(f'{label}: Ok => exactly one role is delegated: the parsed document and its signatures under the given name and paths, key ids = ids of the supplied keys (else of the document\'s own key table), key pairs = those keys', s.pc,
                                 z3.BoolVal(bool(good)), group='add_role/delegated')
                    if not keys_given and not doc_has_deleg:
                        R.obligation(f'{label}: without supplied keys and without a key table in the document there is nothing to verify the role with: must be refused', s.pc, z3.BoolVal(False), group='add_role/delegated')
                if have_env and (keys_given or doc_has_deleg): R.reach_any(f'{label}: success reachable', [s.pc for s in oks])
                R.samples.append({'case': label, 'paths': len(done), 'ok': len(oks)})
