"""C10 — whatever the repository editor signs and writes, the client loads back unchanged."""
import z3, json, os, itertools
from client import *
import editor
from editor import InT, InX, same, conj
from stdm import dr

TITLE = 'editor: sign/write chain — snapshot and timestamp describe exactly the buffers that are written, under the file names the client asks for; SignedRole::new signs with role keys only and enforces the threshold; from_signed derives length and digest from the buffer it keeps; delegate_role / build_targets / TargetsEditor::sign keep exactly the roles and keys put in; change_delegated_targets / sign_targets_editor open and put back the right role; walk_targets hands every regular file of the input directory (links followed) to the publishing operator'

def fld(adt, struct, name): return adt.fields[(None, F(struct, name))]

def sr_parts(I, s, sr):
    """SignedRole -> (tag, role document, length term, sha tag, buffer tag)"""
    sg = fld(sr, 'SignedRole', 'signed')
    return {'tag': sr.fields.get((None, 'tag')), 'doc': fld(sg, 'Signed', 'signed'), 'len': fld(sr, 'SignedRole', 'length'),
            'sha': dr(I, s, fld(sr, 'SignedRole', 'sha256')), 'buf': dr(I, s, fld(sr, 'SignedRole', 'buffer'))}

def meta_entries(I, s, doc, struct):
    m = dr(I, s, fld(doc, struct, 'meta'))
    if not (isinstance(m, Obj) and m.kind == 'smap'): raise Stuck(f'{struct}.meta is not a program-built map: {m!r}')
    out = []
    for k, v in m.d['entries']:
        key = path_key(I, s, k)
        mf = dr(I, s, v)
        hashes = mat(I, s, fld(mf, 'Metafile', 'hashes')); length = mat(I, s, fld(mf, 'Metafile', 'length'))
        sha = None
        if hashes.discr == 1:
            dec = dr(I, s, fld(hashes.fields[('Some', 0)], 'Hashes', 'sha256'))
            sha = dec.d.get('of') if isinstance(dec, Obj) and dec.kind == 'decoded' else dec
            sha = dr(I, s, sha) if sha is not None else None
        out.append({'key': key, 'sha': sha, 'has_len': length.discr, 'len': length.fields.get(('Some', 0)), 'version': fld(mf, 'Metafile', 'version')})
    return out

def chain(R, I, tier):
    shapes = ['no-delegations', 'nested'] if tier == 'quick' else ['no-delegations', 'flat-2', 'nested', 'depth-3']
    import props.C17 as C17
    for sh in shapes:
        for nadd in ([1] if tier == 'quick' else [0, 2]):
            label = f'chain[{sh}/+{nadd}]'
            W, fin = editor.run_update(I, C17.SHAPES[sh], nadd, then_write=True)
            R.check_interp_clean(I, label)
            oks = [x for x in fin if x[1] == 'write' and x[2] == 'Ok']
            R.paths += len(fin)
            R.reach_any(f'{label}: sign and write succeed', [s.pc for s, _, _, _ in oks])
            for s, stage, tag, repo in oks:
                def dec(m, label=label): return {'kind': 'chain', 'case': label, 'consistent_snapshot': bool(z3.is_true(m.eval(z3.Bool('consistent_snapshot'), model_completion=True)))}
                SRp = 'SignedRepository'
                T = sr_parts(I, s, fld(repo, SRp, 'targets')); SN = sr_parts(I, s, fld(repo, SRp, 'snapshot')); TS = sr_parts(I, s, fld(repo, SRp, 'timestamp'))
                dts = mat(I, s, fld(repo, SRp, 'delegated_targets')); DT = []
                if dts.discr == 1:
                    for c in dr(I, s, fld(dts.fields[('Some', 0)], 'SignedDelegatedTargets', 'roles')).d['elems']:
                        p = sr_parts(I, s, s.heap[c]); p['name'] = dr(I, s, fld(p['doc'], 'DelegatedTargets', 'name')).d.get('s'); DT.append(p)
                # ---- snapshot.meta describes targets.json and every delegated role file that is written, and nothing else
                want = {'targets.json': (T, fld(T['doc'], 'Targets', 'version'))}
                for p in DT: want[f"{p['name']}.json"] = (p, fld(fld(p['doc'], 'DelegatedTargets', 'targets'), 'Targets', 'version'))
                got = meta_entries(I, s, SN['doc'], 'Snapshot')
                last = {}
                for e in got: last[e['key']] = e          # later inserts overwrite
                R.obligation(f'{label}: snapshot.meta lists exactly targets.json and the delegated role files that are written', s.pc, z3.BoolVal(set(last) == set(want)), decode=dec, group='snapshot-meta/keys')
                for key, (p, ver) in want.items():
                    e = last.get(key)
                    if e is None: continue
                    ok_sha = isinstance(e['sha'], Obj) and e['sha'].kind == 'sha256' and e['sha'].d.get('tag') == p['tag']
                    R.obligation(f'{label}: snapshot.meta[{key}] carries the SHA-256 and length of the very buffer written for that role, and its version', s.pc,
                                 z3.And(z3.BoolVal(bool(ok_sha) and e['has_len'] == 1), e['len'] == p['len'] if e['len'] is not None else z3.BoolVal(False), e['version'] == ver), decode=dec, group='snapshot-meta/exact')
                tg = meta_entries(I, s, TS['doc'], 'Timestamp'); tl = {e['key']: e for e in tg}
                R.obligation(f'{label}: timestamp.meta lists exactly snapshot.json', s.pc, z3.BoolVal(set(tl) == {'snapshot.json'}), decode=dec, group='timestamp-meta/keys')
                e = tl.get('snapshot.json')
                if e is not None:
                    ok_sha = isinstance(e['sha'], Obj) and e['sha'].kind == 'sha256' and e['sha'].d.get('tag') == SN['tag']
                    R.obligation(f'{label}: timestamp.meta[snapshot.json] carries the SHA-256, length and version of the snapshot buffer that is written', s.pc,
                                 z3.And(z3.BoolVal(bool(ok_sha) and e['has_len'] == 1), e['len'] == SN['len'] if e['len'] is not None else z3.BoolVal(False), e['version'] == fld(SN['doc'], 'Snapshot', 'version')), decode=dec, group='timestamp-meta/exact')
                # ---- the files written: one per role, its own buffer, under the name the client derives from the parent's meta
                writes = [(e[1], e[2]) for e in s.events if e[0] == 'fs.write']
                cons = z3.Bool('consistent_snapshot')
                def name_ok(key, base, ver):
                    plain = f'out/{base}'; pref = f'out/{{{ver}}}.{base}'
                    return z3.Or(z3.And(z3.Not(cons), z3.BoolVal(key == plain)), z3.And(cons, z3.BoolVal(key == pref)))
                expect = [('targets.json', T, fld(T['doc'], 'Targets', 'version'), True), ('snapshot.json', SN, fld(SN['doc'], 'Snapshot', 'version'), True), ('timestamp.json', TS, None, False)]
                for p in DT: expect.append((f"{{enc({p['name']})}}.json", p, fld(fld(p['doc'], 'DelegatedTargets', 'targets'), 'Targets', 'version'), True))
                for base, p, ver, versioned in expect:
                    mine = [(k, c) for k, c in writes if isinstance(c, Obj) and c.kind == 'buffer' and c.d.get('tag') == p['tag']]
                    R.obligation(f'{label}: the buffer of {base} is written exactly once', s.pc, z3.BoolVal(len(mine) == 1), decode=dec, group='write/once')
                    if len(mine) == 1:
                        key = mine[0][0]
                        R.obligation(f'{label}: {base} is written under the name the client will request ({"N." if versioned else ""}name, N = version recorded in the parent meta, only with consistent snapshots)', s.pc,
                                     name_ok(key, base, ver) if versioned else z3.BoolVal(key == f'out/{base}'), decode=dec, group='write/name')
                others = [k for k, c in writes if not (isinstance(c, Obj) and c.kind == 'buffer' and c.d.get('tag') in {p['tag'] for _, p, _, _ in expect}) and 'root.json' not in str(k)]
                R.obligation(f'{label}: nothing else is written into the metadata directory', s.pc, z3.BoolVal(not others), decode=dec, group='write/nothing-else')
            R.samples.append({'case': label, 'paths': len(fin), 'written ok': len(oks)})

def programs(R, I, tier):
    """editing programs over symbolic names (names may coincide with each other and with names already listed): the signed top-level
    target map must be what a reference evaluation of the program gives, for every name"""
    import props.C17 as C17
    progs = [['add', 'remove'], ['remove', 'add'], ['add', 'add', 'remove'], ['clear', 'add'], ['add', 'clear']] if tier == 'quick' else \
            [list(p) for n in (1, 2, 3) for p in itertools.product(['add', 'remove', 'clear'], repeat=n)]
    R.bounds['editing programs'] = f'{len(progs)} operation sequences of length <= 3 over add / remove / clear with symbolic names (aliasing allowed), on a repository loaded with from_repo'
    for prog in progs:
        label = 'program[' + ','.join(prog) + ']'
        W, fin = editor.run_update(I, C17.SHAPES['no-delegations'], 0, program=prog)
        R.check_interp_clean(I, label)
        oks = [x for x in fin if x[1] == 'sign' and x[2] == 'Ok']
        R.paths += len(fin)
        R.reach_any(f'{label}: sign succeeds', [s.pc for s, _, _, _ in oks])
        k = z3.BitVec('anyname', 8)
        for s, stage, tag, sr in oks:
            out_t = fld(fld(fld(sr, 'SignedRepository', 'targets'), 'SignedRole', 'signed'), 'Signed', 'signed')
            tm = dr(I, s, fld(out_t, 'Targets', 'targets'))
            def dec(m, W=W, prog=prog):
                ev = lambda t: m.eval(t, model_completion=True).as_long()
                ids = sorted({ev(op[1]) for op in W['program'] if len(op) > 1} | {ev(k)})
                return {'kind': 'program', 'program': [[op[0], ev(op[1])] if len(op) > 1 else [op[0]] for op in W['program']], 'name': ev(k),
                        'listed_before': [i for i in ids if m.eval(InT(IDV(0), z3.BitVecVal(i, 8)), model_completion=True).as_long() != 0]}
            R.obligation(f'{label}: after signing, targets.json lists exactly what the program leaves (later operations win; removed names are gone)', s.pc, tm.d['f'](k) == editor.program_reference(W, k), decode=dec, group='program/target-set')
        R.samples.append({'case': label, 'paths': len(fin), 'ok': len(oks)})

def check(R, tier):
    I = R.interp('tough'); install_world(I)
    R.bounds.update({'chain': 'from_repo -> setters -> add_target -> sign -> SignedRepository::write on the C17 repository shapes', 'maps': 'arbitrary functions (any size)'})
    R.assumptions += ['SignedRole::new / from_signed contracts as in C17 for the chain (they are checked on their own below)', 'encode_filename is the C16 function enc(name)',
                      'tokio::fs::write(path, bytes) writes exactly bytes at path; create_dir_all succeeds or fails without side effect on the files']
    def m_enc(I_, s, fr, c, a, d, de, rb):
        n = dr(I_, s, a[0]); return Obj('str', s=None, pieces=['{enc(%s)}' % n.d.get('s')])
    def m_create_dir_all(I_, s, fr, c, a, d, de, rb): return leaf_future('ready', val=mk_ok(unit()))
    def m_as_path(I_, s, fr, c, a, d, de, rb): return a[0]
    def m_write(I_, s, fr, c, a, d, de, rb): return leaf_future('fs_write', key=path_key(I_, s, a[0]), content=dr(I_, s, a[1]))
    saved = list(I.models)
    I.models[:0] = [(re.compile(r'^tokio::fs::write::<'), m_write),(re.compile(r'^encode_filename::<'), m_enc), (re.compile(r'^tokio::fs::create_dir_all::<'), m_create_dir_all), (re.compile(r'^<&?P as AsRef<std::path::Path>>::as_ref$'), m_as_path),
                    (re.compile(r'^<&str as AsRef<std::path::Path>>::as_ref$'), m_as_path)]
    try:
        chain(R, I, tier)
        programs(R, I, tier)
    finally:
        I.models[:] = saved
    import props.c10_units as U
    U.from_signed(R, I, tier)
    U.signed_role_new(R, I, tier)
    U.update_delegated(R, I, tier)
    U.target_path(R, I, tier)
    U.key_lookup(R, I, tier)
    U.delegation_edits(R, I, tier)
    U.editor_switch(R, I, tier)
    U.walk_publication(R, I, tier)
    U.add_role_unit(R, I, tier)
    native(R, tier)

def native(R, tier):
    """random editing programs against the real editor and client (also the replay of the solver's counterexamples:
    a counterexample is only reported when the end-to-end sweep shows a deviation as well)"""
    seed = int(os.environ.get('VERIF_SEED', '0'))
    res = R.replay('editor_roundtrip', {'seed': seed, 'programs': 30 if tier == 'quick' else 200}, timeout=3000)
    st = res['stats']
    R.differential['scenarios'] += st['programs']
    real = [d for d in res['deviations'] if d.get('class') != 'file-transport-encoded-target-name']
    R.differential['agree'] += st['programs'] - len({d['program'] for d in real})
    R.samples.append({'native editor programs': st})
    for d in res['deviations']:
        if d.get('class') == 'file-transport-encoded-target-name':
            R.report_violation(d['what'], {'op': 'editor_roundtrip', 'seed': seed, 'program': d['program'], 'log': d['log']}, finding_key='file-transport-encoded-target-name')
    for d in real[:3]:
        R.report_violation('editor round trip: ' + d['what'] + ' — program: ' + '; '.join(d['log'])[:600], {'op': 'editor_roundtrip', 'seed': seed, 'program': d['program'], 'log': d['log']})
    # editing-program counterexamples have their own exact replay
    replayed = set()
    for cx in [c for c in R.counterexamples if c['group'] == 'program/target-set']:
        sc = cx.get('scenario') or {}
        key = json.dumps([sc.get('program'), sc.get('listed_before')])
        if key in replayed: continue
        replayed.add(key)
        r2 = R.replay('editor_program', {'program': sc.get('program'), 'listed_before': sc.get('listed_before')})
        if r2.get('violations'):
            if not any(v['what'].startswith('editing program') for v in R.violations):
                R.report_violation('editing program: ' + r2['violations'][0], {'op': 'editor_program', 'program': sc.get('program'), 'listed_before': sc.get('listed_before')})
        else:
            R.inconclusive.append(f'counterexample for "{cx["obligation"]}" did not reproduce natively: {json.dumps(sc)[:300]} -> {json.dumps(r2)[:200]}')
    # delegate_role counterexamples: exact replay through the public TargetsEditor API (equal numbers = the same key)
    seen = set(); dl_dev = False
    for cx in [c for c in R.counterexamples if c['group'].startswith('delegate/')]:
        sc = cx.get('scenario') or {}
        key = json.dumps([sc.get('old_keys'), sc.get('supplied_keys'), sc.get('roles'), sc.get('pending')])
        if key in seen or not sc.get('has_delegations', True): continue
        seen.add(key)
        r2 = R.replay('delegate_role', {k: sc.get(k) for k in ('old_keys', 'supplied_keys', 'roles', 'pending')})
        if r2.get('violations'):
            dl_dev = True
            if not any(v['what'].startswith('delegate_role') for v in R.violations):
                R.report_violation(f'delegate_role with {len(sc.get("old_keys") or [])} key(s) in the table and {len(sc.get("supplied_keys") or [])} supplied: ' + r2['violations'][0], dict(sc, op='delegate_role'))
    # and a directed sweep of the same op (validation of the key-table model): 0..3 keys in the table, 0..3 supplied, with and without overlap
    for old, sup in [([], [1]), ([1], [1]), ([1], [2, 3]), ([1, 2], [2, 3]), ([1, 2], [3]), ([1, 2, 3], [4, 5, 6]), ([1, 2], [])]:
        for roles, pending in ((0, 0), (1, 1)) if tier == 'quick' else ((0, 0), (1, 0), (0, 1), (2, 2)):
            r2 = R.replay('delegate_role', {'old_keys': old, 'supplied_keys': sup, 'roles': roles, 'pending': pending})
            R.differential['scenarios'] += 1
            if r2.get('violations') or r2.get('error'):
                dl_dev = True
                if not any(v['what'].startswith('delegate_role') for v in R.violations):
                    R.report_violation(f'delegate_role with keys {old} in the table, {sup} supplied, {roles} role(s), {pending} pending: ' + (r2.get('violations') or [r2.get('error')])[0], {'op': 'delegate_role', 'old_keys': old, 'supplied_keys': sup, 'roles': roles, 'pending': pending})
            else: R.differential['agree'] += 1
    # add_role: the six configurations of the solver harness against the real editor and FilesystemTransport (also the replay of add_role/* counterexamples)
    ar_dev = False
    for kg in (0, 1, 2):
        for hd in (True, False):
            r2 = R.replay('add_role', {'keys_given': kg, 'doc_has_deleg': hd})
            R.differential['scenarios'] += 1
            if r2.get('violations') or r2.get('error'):
                ar_dev = True
                if not any(v['what'].startswith('add_role') for v in R.violations):
                    R.report_violation(f'add_role with {kg} supplied key(s), role file {"with" if hd else "without"} delegations: ' + (r2.get('violations') or [r2.get('error')])[0], {'op': 'add_role', 'keys_given': kg, 'doc_has_deleg': hd})
            else: R.differential['agree'] += 1
    # one key source given twice must not count twice towards a threshold (also the replay of new/threshold counterexamples)
    dk = R.replay('dup_key_sources', {})
    R.differential['scenarios'] += 2; R.differential['agree'] += 2 - len(dk.get('violations', []))
    dk_dev = bool(dk.get('violations'))
    for v in dk.get('violations', [])[:1]:
        R.report_violation('duplicate key sources: ' + v, {'op': 'dup_key_sources'})
    # the cross-party flow: genuine / same-version / under-signed / wrong keys / mixed / older / unsigned hand-overs against the real editor
    cp = R.replay('cross_party', {'seed': seed}, timeout=600)
    R.differential['scenarios'] += cp['cases']; R.differential['agree'] += cp['cases'] - len(cp['deviations'])
    for d in cp['deviations'][:2]:
        R.report_violation('cross-party update: ' + d['what'], {'op': 'cross_party', 'seed': seed, 'native': d})
    others = [c for c in R.counterexamples if c['group'] != 'program/target-set' and not (c['group'].startswith('update/') and cp['deviations']) and not (c['group'].startswith('delegate/') and dl_dev) and not (c['group'].startswith('add_role/') and ar_dev) and not (c['group'].startswith('new/') and dk_dev)]
    if others and not real:
        for cx in others[:3]:
            R.inconclusive.append(f'counterexample for "{cx["obligation"]}" did not show up in the native editor sweep ({st["programs"]} programs): {str(cx.get("scenario"))[:300]}')

def replay_file(R, path):
    sc = json.load(open(path))['scenario']
    if sc.get('op') == 'cross_party':
        print(json.dumps(R.replay('cross_party', {'seed': sc.get('seed', 0)}))); return 0
    if sc.get('op') == 'dup_key_sources':
        print(json.dumps(R.replay('dup_key_sources', {}))); return 0
    if sc.get('op') == 'add_role':
        print(json.dumps(R.replay('add_role', {'keys_given': sc.get('keys_given'), 'doc_has_deleg': sc.get('doc_has_deleg')}))); return 0
    if sc.get('op') == 'delegate_role':
        print(json.dumps(R.replay('delegate_role', {k: sc.get(k) for k in ('old_keys', 'supplied_keys', 'roles', 'pending')}))); return 0
    if sc.get('op') == 'editor_program':
        print(json.dumps(R.replay('editor_program', {'program': sc['program'], 'listed_before': sc['listed_before']}))); return 0
    res = R.replay('editor_roundtrip', {'seed': sc.get('seed', 0), 'programs': sc.get('program', 0) + 1}, timeout=3000)
    print(json.dumps([d for d in res['deviations'] if d['program'] == sc.get('program')] or res['deviations'])); return 0
