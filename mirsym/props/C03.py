"""C03 — rollback protection across update cycles sharing a datastore."""
import z3, json
from histreplay import *

TITLE = 'no later cycle succeeds with lower timestamp/snapshot/targets (or snapshot-listed targets) versions unless a newer root changed the role keys'

def kt_differs(r1, r2, role_idx):
    return z3.Or(KS(r1, IDV(role_idx)) != KS(r2, IDV(role_idx)), Thr(r1, IDV(role_idx)) != Thr(r2, IDV(role_idx)))

def chain_of(c):
    """(root id, on-chain condition) for the roots cycle c may have adopted"""
    out = [(c.shipped, z3.BoolVal(True))]
    for i, h in enumerate(c.hops):
        out.append((h, z3.Or([c.root == x for x in c.hops[i:]])))
    return out

def exception(a, b, roles):
    RT = variants('RoleType')
    alts = []
    for rho, on in chain_of(b):
        alts.append(z3.And(on, z3.ULT(Ver(a.root), Ver(rho)), z3.ULE(Ver(rho), Ver(b.root)), z3.Or([kt_differs(rho, a.root, RT.index(r)) for r in roles])))
    return z3.Or(alts)

def known_class(c):
    """F7: the client compares the SHIPPED root's online keys with the final root's, so with an older shipped root whose
    timestamp/snapshot key lists differ from the final ones every cycle deletes the stored timestamp and snapshot"""
    RT = variants('RoleType')
    return z3.And(c.shipped != c.root, z3.Or(KS(c.shipped, IDV(RT.index('Timestamp'))) != KS(c.root, IDV(RT.index('Timestamp'))),
                                              KS(c.shipped, IDV(RT.index('Snapshot'))) != KS(c.root, IDV(RT.index('Snapshot')))))

def withheld(a, b):
    """known class 2: the newer root trusted in cycle a is withheld in cycle b, which therefore ends on an OLDER root
    (the client does not persist the root it trusted), so documents are judged under the older root's keys"""
    return z3.ULT(Ver(b.root), Ver(a.root))

def violation_terms(cyc, exclude_known=True):
    v_online, v_tg = [], []
    for i in range(len(cyc)):
        for j in range(i + 1, len(cyc)):
            a, b = cyc[i], cyc[j]
            both = z3.And(a.ok, b.ok)
            # a pair is attributed to a recorded finding if some cycle after a (up to b) ran load_root in one of the two
            # recorded situations: F7 deletion (online roles only), or ended on a root older than one trusted before
            mids = cyc[i + 1:j + 1]
            wh = [z3.And(c.ok_root, e.ok_root, withheld(e, c)) for ci, c in enumerate(mids) for e in cyc[:i + 1 + ci]]
            # ... or a load_root that had adopted a newer root with other online keys, had started deleting the stored files and then
            # failed (I/O fault between the two unlinks): the newer root is forgotten with the failed cycle
            wh += [z3.And(z3.Not(c.ok_root), z3.Or([z3.And(c.pre[fn][0], z3.Not(c.post_root[fn][0])) for fn in ('timestamp.json', 'snapshot.json')])) for c in mids]
            f7 = [z3.And(c.ok_root, known_class(c)) for c in mids]
            kn_on = z3.Or(f7 + wh) if exclude_known else z3.BoolVal(False)
            kn_tg = z3.Or(wh) if exclude_known else z3.BoolVal(False)
            exc_on = exception(a, b, ('Timestamp', 'Snapshot'))
            v_online.append(z3.And(both, z3.Not(exc_on), z3.Not(kn_on), z3.Or(z3.ULT(Ver(b.ts), Ver(a.ts)), z3.ULT(Ver(b.sn), Ver(a.sn)),
                                                               z3.Not(MPresent(b.sn, IDV(1))), z3.ULT(MVer(b.sn, IDV(1)), MVer(a.sn, IDV(1))))))
            v_tg.append(z3.And(both, z3.Not(exception(a, b, ('Targets',))), z3.Not(kn_tg), z3.ULT(Ver(b.tg), Ver(a.tg))))
    return v_online, v_tg

def build_history(sums, n, tagp='c'):
    shipped = z3.BitVec('shipped', 8)
    pre = EMPTY_DS; cyc = []; f = []
    for k in range(1, n + 1):
        c = Cycle(sums, f'{tagp}{k}', pre, shipped=shipped); f.append(c.formula); cyc.append(c); pre = c.post
    RT = variants('RoleType')
    # documents are typed: a file that parses as role X is a role-X document
    for c in cyc:
        f += [RoleOf(c.served['ts']) == RT.index('Timestamp'), RoleOf(c.served['sn']) == RT.index('Snapshot'), RoleOf(c.served['tg']) == RT.index('Targets')]
        f += [RoleOf(h) == RT.index('Root') for h in c.hops]
    f.append(RoleOf(shipped) == RT.index('Root'))
    # root key holders do not equivocate: there is one root document per version number
    roots = [shipped] + [h for c in cyc for h in c.hops]
    for i in range(len(roots)):
        for j in range(i + 1, len(roots)):
            f.append(z3.Implies(Ver(roots[i]) == Ver(roots[j]), roots[i] == roots[j]))
    # ... and one content per root file name: two cycles that ask for the same N.root.json (same current root) and
    # both get an answer get the same document
    for x in range(len(cyc)):
        for y in range(x + 1, len(cyc)):
            same_prefix = []
            for i in range(len(cyc[x].hops)):
                fx, fy = cyc[x].env['root']['hop_fetch_err'][i], cyc[y].env['root']['hop_fetch_err'][i]
                f.append(z3.Implies(z3.And(same_prefix + [z3.Not(fx), z3.Not(fy)]), cyc[x].hops[i] == cyc[y].hops[i]))
                same_prefix = same_prefix + [cyc[x].hops[i] == cyc[y].hops[i]]
    return shipped, cyc, f

def check(R, tier):
    R.fallback_kinds = {'rollback'}
    I = R.interp('tough'); install_world(I)
    cycle_composition(R, I)
    hops = 1
    ncyc = (2, 3) if tier == 'quick' else (2, 3, 4)
    R.bounds.update({'cycles': f'2..{ncyc[-1]}, first one from an empty datastore', 'root hops per cycle': hops, 'versions': 'any u64 per role per cycle',
                     'online key lists': 'one key per role (key-set identity KS, threshold Thr symbolic)', 'shipped root': 'the same in all cycles, older than or equal to the newest',
                     'expiry enforcement': 'off in the composed history (C04 covers it; its checks only add failures)'})
    R.assumptions += ['V(root, doc) depends on the root only through (key set, threshold) of the doc role: V = W(KS, Thr, doc)',
                      'a failing step ends the cycle; awaited operations complete; cycles do not overlap',
                      'same document id = same bytes; parse outcome is a function of the served file']
    sums = build_summaries(I, hops=hops)
    R.check_interp_clean(I, 'summaries')
    for s in sums:
        R.paths += len(s.paths)
        R.samples.append({'summary': s.name, 'paths': len(s.paths)})
    # ---- per-function liveness half: OlderMetadata only when a verifiable stored document is really newer
    for s, f in zip(sums[1:], ('timestamp.json', 'snapshot.json', 'targets.json')):
        pres, prs, old = s.P.ds[f]
        for p in s.paths:
            if 'OlderMetadata' in p.cls:
                lhs = z3.And(pres, prs, V(s.P.root, old))
                if s.name == 'sn':
                    rhs = z3.Or(z3.UGT(Ver(old), Ver(s.P.served)), z3.And(MPresent(old, IDV(1)), z3.UGT(MVer(old, IDV(1)), MVer(s.P.served, IDV(1)))))
                else:
                    rhs = z3.UGT(Ver(old), Ver(s.P.served))
                R.obligation(f'load_{s.name}: OlderMetadata only if a stored document that verifies under the current root is strictly newer', p.pc, z3.And(lhs, rhs), group='liveness/' + s.name)
            if p.ok:
                R.obligation(f'load_{s.name}: success persists exactly the newly trusted document', p.pc,
                             z3.BoolVal(p.stored_doc_is('/ds/' + f, s.P.served) and p.touched() <= {'/ds/' + f}), group='persist/' + s.name)
            else:
                R.obligation(f'load_{s.name}: a failed step leaves the trust files untouched', p.pc, z3.BoolVal(not p.touched()), group='fail-no-write/' + s.name)
    # ---- history queries
    for n in ncyc:
        shipped, cyc, f = build_history(sums, n)
        v_online, v_tg = violation_terms(cyc)
        R.obligation(f'{n} cycles: no rollback of timestamp / snapshot / snapshot-listed targets (outside the two recorded finding classes)', f, z3.Not(z3.Or(v_online)), group=f'history-{n}/online-roles')
        R.obligation(f'{n} cycles: no rollback of targets.json (outside the recorded withheld-root class)', f, z3.Not(z3.Or(v_tg)), group=f'history-{n}/targets')
        R.reach(f'{n} cycles: all succeed with strictly increasing versions', f + [c.ok for c in cyc] + [z3.ULT(Ver(cyc[i].ts), Ver(cyc[i + 1].ts)) for i in range(n - 1)])
        R.reach(f'{n} cycles: a genuinely signed older timestamp is rejected as OlderMetadata in the last cycle', f + [c.ok for c in cyc[:-1]] + [cyc[-1].older_ts])
        if n == 2:
            R.reach('2 cycles: lower versions accepted after a newer root changed the timestamp key (the stated exception)', f + [c.ok for c in cyc] +
                    [z3.ULT(Ver(cyc[1].ts), Ver(cyc[0].ts)), cyc[0].root == shipped, cyc[1].root != shipped])
    # ---- the recorded findings must still be demonstrable; each witness is replayed natively and printed as KNOWN-FINDING
    for key, extra in (('shipped-root-older-online-keys-differ', lambda a, b: [known_class(b), a.root == b.root]),
                       ('newer-root-withheld', lambda a, b: [withheld(a, b), z3.Not(known_class(b))])):
        shipped, cyc, f = build_history(sums, 2, 'k')
        v_online, v_tg = violation_terms(cyc, exclude_known=False)
        q = f + clean_constraints(cyc, shipped) + [z3.Or(v_online + v_tg)] + extra(cyc[0], cyc[1])
        r, s = R._solve(q)
        R.reach_list.append({'name': f'recorded finding {key}: witness query', 'result': str(r)})
        if r == z3.sat:
            sc, pred = decode_history(s.model(), cyc, shipped)
            real = R.replay('history', sc)
            R.samples.append({'known_finding': key, 'scenario': sc, 'predicted': pred, 'real': [{k: c.get(k) for k in ('ok', 'err', 'versions')} for c in real['cycles']]})
            d = agree(pred, real)
            if d:
                R.inconclusive.append(f'witness of recorded finding {key} did not reproduce natively: ' + '; '.join(d))
            else:
                a, b = real['cycles']
                R.report_violation(f"rollback accepted: cycle 1 trusted {a['versions']}, cycle 2 accepted {b['versions']}", sc, finding_key=key)
        elif r == z3.unknown:
            R.inconclusive.append(f'witness query for recorded finding {key} unknown')
    finalize(R, sums)
    replay_composition(R)

def finalize(R, sums):
    """any counterexample outside the known class: decode, replay, report"""
    for cx in R.counterexamples:
        if cx['group'].startswith('composition/'): continue
        if not cx['group'].startswith('history-'):
            R.inconclusive.append(f'counterexample for "{cx["obligation"]}": {str(cx.get("model"))[:300]}'); continue
        n = int(cx['group'].split('-')[1].split('/')[0])
        shipped, cyc, f = build_history(sums, n)
        v_online, v_tg = violation_terms(cyc)
        online = 'online' in cx['group']
        q = f + clean_constraints(cyc, shipped) + ([z3.Or(v_online)] if online else [z3.Or(v_tg)])
        r, s = R._solve(q)
        if r != z3.sat:
            R.inconclusive.append(f'violation of "{cx["obligation"]}" exists in the encoding but has no witness within the replayable sub-class ({r})'); continue
        sc, pred = decode_history(s.model(), cyc, shipped)
        real = R.replay('history', sc)
        d = agree(pred, real)
        if d:
            R.inconclusive.append(f'counterexample for "{cx["obligation"]}" did not reproduce natively: ' + '; '.join(d)); continue
        vs = [c.get('versions') for c in real['cycles']]
        R.report_violation(f'rollback accepted across cycles: versions per cycle {vs}', sc)

def replay_file(R, path):
    sc = json.load(open(path))['scenario']
    print(json.dumps(R.replay('history', sc)))
    return 0
