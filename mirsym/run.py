"""./check <Cxx> [--tier quick|thorough] [--replay <file>]"""
import argparse, importlib, os, sys, traceback
sys.path.insert(0, os.path.dirname(os.path.abspath(__file__)))
import harness

def rescue(mod, R, tier):
    """the solver part of a check stopped on a code shape its harness cannot read (never a pass: the run stays INCONCLUSIVE).  The native side of the
    check is still consulted, so that a change which also breaks the harness is reported as a VIOLATION when the real code demonstrably misbehaves."""
    import inspect
    if R.violations or getattr(R, '_rescued', False): return
    R._rescued = True
    try:
        def call(f):
            n = len(inspect.signature(f).parameters)
            return f(R, tier) if n >= 2 else f(R)
        if hasattr(mod, 'native'): call(mod.native)
        elif hasattr(mod, 'native_validation'):
            call(mod.native_validation)
            if hasattr(mod, 'finalize') and len(inspect.signature(mod.finalize).parameters) == 1: mod.finalize(R)
        elif getattr(R, 'fallback_kinds', None):
            import menu
            menu.run(R, set(R.fallback_kinds), 'conformance scenarios after an internal error of the solver part')
    except Exception as e2:
        R.notes.append('native rescue failed as well: ' + repr(e2)[:200])

def main():
    ap = argparse.ArgumentParser()
    ap.add_argument('pid'); ap.add_argument('--tier', default=os.environ.get('VERIF_TIER', 'quick'), choices=['quick', 'thorough'])
    ap.add_argument('--replay')
    a = ap.parse_args()
    seed = int(os.environ.get('VERIF_SEED', '0') or 0)
    mod = importlib.import_module('props.' + a.pid)
    R = harness.Run(a.pid, a.tier, seed)
    if a.replay:
        sys.exit(mod.replay_file(R, a.replay))
    try:
        mod.check(R, a.tier)
        if a.tier == 'thorough' or os.environ.get('VERIF_CVC5'):
            R.cross_check(None if a.tier == 'thorough' else 10)
    except harness.Inconclusive as e:
        R.inconclusive.append(str(e))
    except Exception as e:
        traceback.print_exc()
        R.inconclusive.append('internal error: ' + repr(e)[:300])
        rescue(mod, R, a.tier)
    rc = R.finish(level=getattr(mod, 'LEVEL', 'other'),
                  explanation=getattr(mod, 'EXPLANATION', 'bounded symbolic execution of the rustc MIR of the anchored repository functions (re-emitted from the working tree on this run) with contract models for calls leaving the repository; each obligation is an SMT query (z3) over all values of the symbolic inputs within the stated bounds; ' + getattr(mod, 'TITLE', '')))
    sys.exit(rc)
main()
