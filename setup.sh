#!/bin/bash
# Build dependency caches offline (nightly target dir for MIR emission, stable one for the replay crate).
set -e
cd "$(dirname "$0")"
export CARGO_NET_OFFLINE=true
mkdir -p .cache/mir evidence/replays
python3 mirsym/dump.py tough tough-http olpc-cjson tuftool
if [ -f replay/Cargo.toml ]; then
  cp /repo/Cargo.lock replay/Cargo.lock 2>/dev/null || true
  (cd replay && CARGO_TARGET_DIR=/verif/.cache/stable cargo build --offline --release -q)
fi
# the real tuftool binary for the C20 command-sequence sweep (first build compiles the AWS SDK crates: about 5 minutes)
(cd /repo && CARGO_TARGET_DIR=/verif/.cache/tuftool cargo build -p tuftool --offline -q 2>/dev/null) || echo "warning: tuftool did not build (C20 native sweep will report it)"
python3-vt -c "import z3; print('z3', z3.get_version_string())"
echo setup ok
