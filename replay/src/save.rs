// C08 native validation: TargetName::new / Repository::save_target over an exhaustive name space, with failures and pre-existing files.
use crate::targets::{Body, T};
use crate::*;
use tough::{Prefix, RepositoryLoader, TargetName};
use url::Url;

fn sha(b: &[u8]) -> Vec<u8> {
    aws_lc_rs::digest::digest(&aws_lc_rs::digest::SHA256, b).as_ref().to_vec()
}

fn all_files(root: &std::path::Path) -> Vec<std::path::PathBuf> {
    let mut out = vec![];
    let mut stack = vec![root.to_path_buf()];
    while let Some(d) = stack.pop() {
        if let Ok(rd) = std::fs::read_dir(&d) {
            for e in rd.flatten() {
                let p = e.path();
                if p.is_dir() {
                    stack.push(p);
                } else {
                    out.push(p);
                }
            }
        }
    }
    out
}

fn all_dirs(root: &std::path::Path) -> Vec<std::path::PathBuf> {
    let mut out = vec![];
    let mut stack = vec![root.to_path_buf()];
    while let Some(d) = stack.pop() {
        if let Ok(rd) = std::fs::read_dir(&d) {
            for e in rd.flatten() {
                let p = e.path();
                if p.is_dir() {
                    out.push(p.clone());
                    stack.push(p);
                }
            }
        }
    }
    out.sort();
    out
}

pub async fn op_save_targets(sc: Value) -> Value {
    let maxlen = sc["maxlen"].as_u64().unwrap_or(4) as usize;
    let alphabet = ['/', '.', 'a', '\\', ' ', 'é'];
    let mut names: Vec<String> = vec![];
    let mut frontier: Vec<String> = vec![String::new()];
    for _ in 0..maxlen {
        let mut next = vec![];
        for p in &frontier {
            for c in alphabet {
                let mut s = p.clone();
                s.push(c);
                names.push(s.clone());
                next.push(s);
            }
        }
        frontier = next;
    }
    names.extend(["a/../../x", "a/b/../../../../x", "/../../x", "../x", "../../x", "a/./b//c/", "..a/b", "a/..", "%2e%2e/x", "a\\..\\..\\x", "foo/../../escape.txt"].iter().map(|s| s.to_string()));
    let mut dev: Vec<Value> = vec![];
    let mut cases = 0usize;
    let data = b"verified target content".to_vec();
    let mut accepted: Vec<TargetName> = vec![];
    for n in &names {
        cases += 1;
        if let Ok(tn) = TargetName::new(n.clone()) {
            let r = tn.resolved().to_string();
            let comps: Vec<&str> = r.trim_start_matches('/').split('/').collect();
            if r.is_empty() || r == "/" || comps.iter().any(|c| c.is_empty() || *c == "." || *c == "..") || (!n.starts_with('/') && r.starts_with('/')) {
                dev.push(json!({"what": format!("target name {n:?} is accepted with resolved form {r:?} (empty / traversal / doubled separator / became absolute)")}));
            }
            accepted.push(tn);
        }
    }
    // one repository listing every accepted name with the same content
    let keys: Vec<Ed25519KeyPair> = (0..4).map(|_| kp()).collect();
    for consistent in [false, true] {
        let mut table: HashMap<Decoded<Hex>, Key> = HashMap::new();
        for k in &keys {
            table.insert(kid(k), k.tuf_key());
        }
        let rk = |k: &Ed25519KeyPair| RoleKeys { keyids: vec![kid(k)], threshold: nz(1), _extra: HashMap::new() };
        let mut roles = HashMap::new();
        roles.insert(RoleType::Root, rk(&keys[0]));
        roles.insert(RoleType::Timestamp, rk(&keys[1]));
        roles.insert(RoleType::Snapshot, rk(&keys[2]));
        roles.insert(RoleType::Targets, rk(&keys[3]));
        let root = sign(Root { spec_version: "1.0.0".into(), consistent_snapshot: consistent, version: nz(1), expires: far(), keys: table, roles, _extra: HashMap::new() }, &[&keys[0]]).await;
        let mut top = Targets::new("1.0.0".into(), nz(1), far());
        top.delegations = None;
        // absolute names that have the output directory as a STRING prefix without lying inside it (a sibling `outdir-evil/`, `outdir.txt`), and one inside
        let jail = tempfile::tempdir().unwrap();
        let abs_out = jail.path().canonicalize().unwrap().join("abs").join("mid").join("outdir");
        let abs_names: Vec<(TargetName, bool)> = [("-evil/x.txt", false), (".txt", false), ("2/victim.txt", false)].iter()
            .filter_map(|(suffix, inside)| TargetName::new(format!("{}{suffix}", abs_out.display())).ok().map(|t| (t, *inside))).collect();
        for (tn, _) in &abs_names {
            top.targets.insert(tn.clone(), Target { length: data.len() as u64, hashes: Hashes { sha256: sha(&data).into(), _extra: HashMap::new() }, custom: HashMap::new(), _extra: HashMap::new() });
        }
        for tn in &accepted {
            top.targets.insert(tn.clone(), Target { length: data.len() as u64, hashes: Hashes { sha256: sha(&data).into(), _extra: HashMap::new() }, custom: HashMap::new(), _extra: HashMap::new() });
        }
        let t = T::default();
        *t.default_target.lock().unwrap() = Some(Body::Bytes(data.clone()));
        let pfx = |n: &str| if consistent { format!("1.{n}") } else { n.to_string() };
        let m = |b: &[u8]| Metafile { length: Some(b.len() as u64), hashes: Some(Hashes { sha256: sha(b).into(), _extra: HashMap::new() }), version: nz(1), _extra: HashMap::new() };
        let tb = ser(&sign(top, &[&keys[3]]).await);
        let mut sn = Snapshot::new("1.0.0".into(), nz(1), far());
        sn.meta.insert("targets.json".into(), m(&tb));
        t.meta.lock().unwrap().insert(format!("/m/{}", pfx("targets.json")), tb);
        let sb = ser(&sign(sn, &[&keys[2]]).await);
        let mut ts = Timestamp::new("1.0.0".into(), nz(1), far());
        ts.meta.insert("snapshot.json".into(), m(&sb));
        t.meta.lock().unwrap().insert(format!("/m/{}", pfx("snapshot.json")), sb);
        t.meta.lock().unwrap().insert("/m/timestamp.json".into(), ser(&sign(ts, &[&keys[1]]).await));
        let mut limits = tough::Limits::default();
        limits.max_targets_size = 64 * 1024 * 1024;
        let repo = RepositoryLoader::new(&ser(&root), Url::parse("file:///m/").unwrap(), Url::parse("file:///t/").unwrap()).transport(t.clone()).limits(limits).load().await.expect("sweep repository loads");
        for (tn, inside) in &abs_names {
            cases += 1;
            let base = jail.path().canonicalize().unwrap().join("abs");
            std::fs::create_dir_all(&abs_out).unwrap();
            let r = repo.save_target(tn, &abs_out, Prefix::None).await;
            let files = all_files(&base);
            let outside: Vec<_> = files.iter().filter(|p| !p.starts_with(&abs_out)).collect();
            if !outside.is_empty() || (!*inside && r.is_ok()) {
                dev.push(json!({"what": format!("consistent={consistent}, prefix None: save_target of the absolute name {:?} into {:?}: result ok={}, files outside of outdir: {:?}", tn.raw().replace(&jail.path().canonicalize().unwrap().display().to_string(), "<tmp>"), "<tmp>/abs/mid/outdir", r.is_ok(),
                    outside.iter().map(|p| p.strip_prefix(&base).unwrap()).collect::<Vec<_>>())}));
            }
            let _ = std::fs::remove_dir_all(&base);
        }
        for (mode_name, mode) in [("None", Prefix::None), ("Digest", Prefix::Digest)] {
            for (i, tn) in accepted.iter().enumerate() {
                cases += 1;
                let outdir = jail.path().join(format!("{mode_name}-{i}")).join("mid").join("outdir");
                std::fs::create_dir_all(&outdir).unwrap();
                let base = jail.path().join(format!("{mode_name}-{i}"));
                let dirs_before = all_dirs(&base);
                // an absolute resolved name replaces outdir in Path::join: watch the directory chain it would name in the real file system
                let abs_parent = if tn.resolved().starts_with('/') { std::path::Path::new(tn.resolved()).parent().map(|p| p.to_path_buf()) } else { None };
                let abs_parent_existed = abs_parent.as_ref().map_or(true, |p| p.exists());
                let r = repo.save_target(tn, &outdir, mode).await;
                if let Some(p) = &abs_parent {
                    if !abs_parent_existed && p.exists() {
                        dev.push(json!({"what": format!("consistent={consistent}, prefix {mode_name}: save_target({:?}) created the directory {:?} outside of outdir (result ok={})", tn.raw(), p, r.is_ok())}));
                        let mut q = p.clone();          // clean up what was just created, innermost first, only while empty
                        while q != std::path::Path::new("/") && std::fs::remove_dir(&q).is_ok() {
                            if !q.pop() { break; }
                        }
                    }
                }
                if r.is_err() {
                    let dirs_after = all_dirs(&base);
                    if dirs_after != dirs_before {
                        let new: Vec<_> = dirs_after.iter().filter(|d| !dirs_before.contains(d)).map(|d| d.strip_prefix(&base).unwrap().to_path_buf()).collect();
                        dev.push(json!({"what": format!("consistent={consistent}, prefix {mode_name}: save_target({:?}) failed but created directories {:?}", tn.raw(), new)}));
                    }
                }
                let files = all_files(&base);
                let outside: Vec<_> = files.iter().filter(|p| !p.starts_with(&outdir)).collect();
                if !outside.is_empty() {
                    dev.push(json!({"what": format!("consistent={consistent}, prefix {mode_name}: save_target({:?}) wrote outside of outdir: {:?}", tn.raw(), outside.iter().map(|p| p.strip_prefix(&base).unwrap()).collect::<Vec<_>>())}));
                }
                let rel = tn.resolved().trim_start_matches('/').to_string();
                let want = match mode {
                    Prefix::None => outdir.join(&rel),
                    Prefix::Digest => outdir.join(format!("{}.{}", hex::encode(sha(&data)), tn.resolved()).trim_start_matches('/')),
                };
                match r {
                    Ok(()) => {
                        if files.len() != 1 || std::fs::read(&files[0]).ok().as_deref() != Some(&data[..]) {
                            dev.push(json!({"what": format!("consistent={consistent}, prefix {mode_name}: save_target({:?}) reported success but left {:?}", tn.raw(), files.iter().map(|p| p.strip_prefix(&base).unwrap()).collect::<Vec<_>>())}));
                        } else if matches!(mode, Prefix::None) && files[0] != want {
                            dev.push(json!({"what": format!("consistent={consistent}, prefix None: save_target({:?}) saved to {:?}, expected {:?}", tn.raw(), files[0].strip_prefix(&base).unwrap(), want.strip_prefix(&base).unwrap())}));
                        }
                    }
                    Err(_) => {
                        if !files.is_empty() {
                            dev.push(json!({"what": format!("consistent={consistent}, prefix {mode_name}: save_target({:?}) failed but left {:?} behind", tn.raw(), files.iter().map(|p| p.strip_prefix(&base).unwrap()).collect::<Vec<_>>())}));
                        }
                    }
                }
                let _ = std::fs::remove_dir_all(&base);
                if dev.len() > 12 {
                    break;
                }
            }
        }
        // failures part-way: corrupted / oversize / transport error, with and without a pre-existing destination
        let tn = TargetName::new("dir/keep.txt").unwrap();
        let mut top2 = vec![];
        top2.push(tn.clone());
        for (what, body) in [("corrupted content", Body::Bytes(b"verified target c0ntent".to_vec())), ("oversize content", Body::Bytes([data.clone(), b"xx".to_vec()].concat())),
                             ("transport error after the first chunk", Body::FailAfter(data.clone(), 1)), ("endless content", Body::Endless(data.clone())), ("no content", Body::NoChunks)] {
            for pre_existing in [false, true] {
                for (mode_name, mode) in [("None", Prefix::None), ("Digest", Prefix::Digest)] {
                    // "aaaa" is in the sweep's name space and therefore a listed target
                    let name = TargetName::new("aaaa").unwrap();
                    if !accepted.contains(&name) {
                        continue;
                    }
                    cases += 1;
                    let mut t2 = t.clone();
                    t2.chunk = 5;
                    let base = jail.path().join(format!("fail-{mode_name}-{pre_existing}"));
                    let outdir = base.join("outdir");
                    std::fs::create_dir_all(&outdir).unwrap();
                    let dest = match mode {
                        Prefix::None => outdir.join("aaaa"),
                        Prefix::Digest => outdir.join(format!("{}.aaaa", hex::encode(sha(&data)))),
                    };
                    if pre_existing {
                        std::fs::write(&dest, b"previous good file").unwrap();
                    }
                    *t.default_target.lock().unwrap() = Some(body.clone());
                    let repo2 = &repo;
                    let r = repo2.save_target(&name, &outdir, mode).await;
                    *t.default_target.lock().unwrap() = Some(Body::Bytes(data.clone()));
                    let files = all_files(&base);
                    let ok_state = if pre_existing { files.len() == 1 && std::fs::read(&dest).ok().as_deref() == Some(&b"previous good file"[..]) } else { files.is_empty() };
                    if r.is_ok() || !ok_state {
                        dev.push(json!({"what": format!("consistent={consistent}, prefix {mode_name}, {what}, pre-existing destination {pre_existing}: result ok={}, files afterwards {:?}", r.is_ok(), files.iter().map(|p| p.strip_prefix(&base).unwrap()).collect::<Vec<_>>())}));
                    }
                    let _ = std::fs::remove_dir_all(&base);
                    let _ = &t2;
                }
            }
        }
        let _ = top2;
    }
    dev.truncate(10);
    json!({"cases": cases, "names": names.len(), "accepted_names": accepted.len(), "deviations": dev})
}
