// Engine C: rebuild solver counterexamples with real keys / signatures and run the real library.
// usage: replay <op>   (scenario JSON on stdin, one JSON result line on stdout)
use aws_lc_rs::rand::SystemRandom;
use aws_lc_rs::signature::Ed25519KeyPair;
use chrono::{DateTime, Duration, Utc};
use serde::Serialize;
use serde_json::{json, Value};
use std::collections::HashMap;
use std::num::NonZeroU64;
use tough::schema::decoded::{Decoded, Hex};
use tough::schema::key::Key;
use tough::schema::*;
use tough::sign::Sign;

mod history;
mod misc;
mod targets;
mod httpx;
mod keyids;
mod names;
mod save;
mod delegs;
mod repo;
mod update;
mod roundtrip;
mod cache;
mod rootcli;
mod mutate;
mod delegate;

pub fn kp() -> Ed25519KeyPair {
    let doc = Ed25519KeyPair::generate_pkcs8(&SystemRandom::new()).unwrap();
    Ed25519KeyPair::from_pkcs8(doc.as_ref()).unwrap()
}
pub fn kid(k: &Ed25519KeyPair) -> Decoded<Hex> {
    k.tuf_key().key_id().unwrap()
}
pub fn nz(v: u64) -> NonZeroU64 {
    NonZeroU64::new(v.max(1)).unwrap()
}
pub fn far() -> DateTime<Utc> {
    Utc::now() + Duration::days(365)
}
pub fn rel(secs: i64) -> DateTime<Utc> {
    Utc::now() + Duration::seconds(secs)
}

pub async fn sign_with<T: Role + Serialize>(signed: &T, k: &Ed25519KeyPair) -> Vec<u8> {
    let data = signed.canonical_form().unwrap();
    Sign::sign(k, &data, &SystemRandom::new()).await.unwrap()
}

pub async fn sign<T: Role + Serialize>(signed: T, signers: &[&Ed25519KeyPair]) -> Signed<T> {
    let mut signatures = vec![];
    for k in signers {
        let sig = sign_with(&signed, k).await;
        signatures.push(Signature {
            keyid: kid(k),
            sig: sig.into(),
        });
    }
    Signed { signed, signatures }
}

pub fn ser<T: Serialize>(v: &T) -> Vec<u8> {
    serde_json::to_vec_pretty(v).unwrap()
}

/// C01: one verify_role call with the signature list chosen by the solver.
async fn op_verify_role(sc: Value) -> Value {
    let keys: Vec<Ed25519KeyPair> = (0..8).map(|_| kp()).collect();
    let which = sc["which"].as_str().unwrap();
    let thr = sc["threshold"].as_u64().unwrap();
    let has_role = sc["has_role"].as_bool().unwrap();
    let role_keyids: Vec<usize> = sc["role_keyids"].as_array().unwrap().iter().map(|v| v.as_u64().unwrap() as usize).collect();
    let table: Vec<usize> = sc["key_table"].as_array().unwrap().iter().map(|v| v.as_u64().unwrap() as usize).collect();
    let mut doc = Targets::new("1.0.0".into(), nz(1), far());
    doc.delegations = None;
    let other = {
        let mut t = Targets::new("1.0.0".into(), nz(2), far());
        t.delegations = None;
        t
    };
    let mut signatures = vec![];
    let mut valid_signers = std::collections::HashSet::new();
    for s in sc["signatures"].as_array().unwrap() {
        let k = s["keyid"].as_u64().unwrap() as usize;
        let valid = s["valid"].as_bool().unwrap();
        let sig = if valid { sign_with(&doc, &keys[k]).await } else { sign_with(&other, &keys[k]).await };
        if valid && role_keyids.contains(&k) && table.contains(&k) {
            valid_signers.insert(k);
        }
        signatures.push(Signature { keyid: kid(&keys[k]), sig: sig.into() });
    }
    let signed = Signed { signed: doc, signatures };
    let mut keymap: HashMap<Decoded<Hex>, Key> = HashMap::new();
    for k in &table {
        keymap.insert(kid(&keys[*k]), keys[*k].tuf_key());
    }
    let ids: Vec<Decoded<Hex>> = role_keyids.iter().map(|k| kid(&keys[*k])).collect();
    let accepted = if which == "root" {
        let mut roles = HashMap::new();
        if has_role {
            roles.insert(RoleType::Targets, RoleKeys { keyids: ids, threshold: nz(thr), _extra: HashMap::new() });
        }
        let root = Root { spec_version: "1.0.0".into(), consistent_snapshot: false, version: nz(1), expires: far(), keys: keymap, roles, _extra: HashMap::new() };
        root.verify_role(&signed).is_ok()
    } else {
        let mut roles = vec![];
        let mk = |name: &str, ids: Vec<Decoded<Hex>>, thr: u64| DelegatedRole {
            name: name.into(), keyids: ids, threshold: nz(thr), paths: PathSet::Paths(vec![PathPattern::new("*").unwrap()]), terminating: false, targets: None,
        };
        roles.push(mk("other", vec![kid(&keys[7])], 1));
        if has_role {
            roles.push(mk("want", ids, thr));
        }
        let d = Delegations { keys: keymap, roles };
        d.verify_role(&signed, "want").is_ok()
    };
    json!({"accepted": accepted, "distinct_valid_authorised": valid_signers.len()})
}

#[tokio::main(flavor = "current_thread")]
async fn main() {
    let op = std::env::args().nth(1).unwrap_or_default();
    let mut input = String::new();
    std::io::Read::read_to_string(&mut std::io::stdin(), &mut input).unwrap();
    let sc: Value = serde_json::from_str(&input).unwrap_or(Value::Null);
    let out = match op.as_str() {
        "verify_role" => op_verify_role(sc).await,
        "history" => history::run(sc).await,
        "canon" => misc::canon(sc),
        "target_stream" => targets::op_target_stream(sc).await,
        "http_script" => httpx::op_http_script(sc).await,
        "keyids" => keyids::op_keyids(sc),
        "save_targets" => save::op_save_targets(sc).await,
        "filenames" => names::op_filenames(sc),
        "cache_roles" => names::op_cache_roles(sc).await,
        "file_transport" => names::op_file_transport(sc).await,
        "mutate_signed" => mutate::op_mutate_signed(sc).await,
        "gen_keyfiles" => rootcli::op_gen_keyfiles(sc),
        "root_check" => rootcli::op_root_check(sc),
        "cache_roundtrip" => cache::op_cache_roundtrip(sc).await,
        "editor_roundtrip" => roundtrip::op_editor_roundtrip(sc).await,
        "cross_party" => update::op_cross_party(sc).await,
        "editor_program" => update::op_editor_program(sc).await,
        "update_preserves" => update::op_update_preserves(sc).await,
        "delegated_paths" => delegs::op_delegated_paths(sc).await,
        "delegate_role" => delegate::op_delegate_role(sc).await,
        "add_role" => delegate::op_add_role(sc).await,
        "dup_key_sources" => delegate::op_dup_key_sources(sc).await,
        "key_types" => keyids::op_key_types(sc).await,
        _ => json!({"error": format!("unknown op {op}")}),
    };
    println!("{}", out);
}
