// C07 native validation: delegation trees with glob paths and hash prefixes, targets placed in and outside the delegated paths.
use crate::targets::{Body, T};
use crate::*;
use futures::StreamExt;
use tough::{RepositoryLoader, TargetName};
use url::Url;

fn sha(b: &[u8]) -> Vec<u8> {
    aws_lc_rs::digest::digest(&aws_lc_rs::digest::SHA256, b).as_ref().to_vec()
}
fn matches(ps: &PathSet, resolved: &str) -> bool {
    match ps {
        PathSet::Paths(v) => v.iter().any(|p| globset::Glob::new(p.value()).unwrap().compile_matcher().is_match(resolved)),
        PathSet::PathHashPrefixes(v) => {
            let h = hex::encode(sha(resolved.as_bytes()));
            v.iter().any(|p| h.starts_with(p.value()))
        }
    }
}

#[derive(Clone)]
struct RoleSpec {
    name: &'static str,
    parent: Option<usize>,
    paths: Option<PathSet>,
}

/// reference lookup: pre-order, own entries first, children in listed order, pruned by the path sets
fn ref_find(roles: &[RoleSpec], placed: &[(usize, usize)], role: usize, name_idx: usize, resolved: &str) -> Option<usize> {
    if placed.iter().any(|(r, n)| *r == role && *n == name_idx) {
        return Some(role);
    }
    for (ci, c) in roles.iter().enumerate() {
        if c.parent == Some(role) && matches(c.paths.as_ref().unwrap(), resolved) {
            if let Some(r) = ref_find(roles, placed, ci, name_idx, resolved) {
                return Some(r);
            }
        }
    }
    None
}

pub async fn op_delegated_paths(_sc: Value) -> Value {
    let roles = vec![
        RoleSpec { name: "targets", parent: None, paths: None },
        RoleSpec { name: "A", parent: Some(0), paths: Some(PathSet::Paths(vec![PathPattern::new("a/*").unwrap(), PathPattern::new("?/only").unwrap()])) },
        RoleSpec { name: "B", parent: Some(0), paths: Some(PathSet::PathHashPrefixes(("01234567").chars().map(|c| PathHashPrefix::new(c.to_string()).unwrap()).collect())) },
        RoleSpec { name: "C", parent: Some(1), paths: Some(PathSet::Paths(vec![PathPattern::new("a/c*").unwrap()])) },
    ];
    let names = ["a/x", "a/cx", "b/y", "q/../a/r", "z/only", "a/../b/w"];
    let keys: Vec<Ed25519KeyPair> = (0..5).map(|_| kp()).collect();
    let mut dev: Vec<Value> = vec![];
    let mut cases = 0usize;
    // placements: every name in one of {nowhere, targets, A, B, C}; plus double placements of the first two names
    let mut placements: Vec<Vec<(usize, usize)>> = vec![];
    let n = 4; // names taking part in the exhaustive part
    for code in 0..5usize.pow(n as u32) {
        let mut p = vec![];
        let mut c = code;
        for ni in 0..n {
            let r = c % 5;
            c /= 5;
            if r > 0 {
                p.push((r - 1, ni));
            }
        }
        placements.push(p);
    }
    for (r1, r2) in [(0usize, 1usize), (1, 3), (2, 1), (3, 2), (1, 2)] {
        for ni in 0..names.len() {
            placements.push(vec![(r1, ni), (r2, ni)]);
        }
    }
    for ni in 4..names.len() {
        for r in 0..4 {
            placements.push(vec![(r, ni)]);
        }
    }
    for placed in &placements {
        cases += 1;
        // build role documents bottom-up; content of (role, name) = "role:name"
        let mut docs: Vec<Targets> = roles.iter().map(|_| { let mut t = Targets::new("1.0.0".into(), nz(1), far()); t.delegations = None; t }).collect();
        for (r, ni) in placed {
            let c = format!("{}:{}", roles[*r].name, names[*ni]).into_bytes();
            docs[*r].targets.insert(TargetName::new(names[*ni]).unwrap(), Target { length: c.len() as u64, hashes: Hashes { sha256: sha(&c).into(), _extra: HashMap::new() }, custom: HashMap::new(), _extra: HashMap::new() });
        }
        let mut dk = HashMap::new();
        dk.insert(kid(&keys[4]), keys[4].tuf_key());
        for parent in [1usize, 0] {
            let children: Vec<usize> = (0..roles.len()).filter(|i| roles[*i].parent == Some(parent)).collect();
            if children.is_empty() {
                continue;
            }
            docs[parent].delegations = Some(Delegations { keys: dk.clone(), roles: children.iter().map(|c| DelegatedRole { name: roles[*c].name.into(), keyids: vec![kid(&keys[4])], threshold: nz(1), paths: roles[*c].paths.clone().unwrap(), terminating: false, targets: None }).collect() });
        }
        let t = T::default();
        let mut sn = Snapshot::new("1.0.0".into(), nz(1), far());
        let m = |b: &[u8]| Metafile { length: Some(b.len() as u64), hashes: Some(Hashes { sha256: sha(b).into(), _extra: HashMap::new() }), version: nz(1), _extra: HashMap::new() };
        for (i, r) in roles.iter().enumerate().skip(1) {
            let b = ser(&sign(docs[i].clone(), &[&keys[4]]).await);
            sn.meta.insert(format!("{}.json", r.name), m(&b));
            t.meta.lock().unwrap().insert(format!("/m/{}.json", r.name), b);
        }
        let tb = ser(&sign(docs[0].clone(), &[&keys[3]]).await);
        sn.meta.insert("targets.json".into(), m(&tb));
        t.meta.lock().unwrap().insert("/m/targets.json".into(), tb);
        let sb = ser(&sign(sn, &[&keys[2]]).await);
        let mut ts = Timestamp::new("1.0.0".into(), nz(1), far());
        ts.meta.insert("snapshot.json".into(), m(&sb));
        t.meta.lock().unwrap().insert("/m/snapshot.json".into(), sb);
        t.meta.lock().unwrap().insert("/m/timestamp.json".into(), ser(&sign(ts, &[&keys[1]]).await));
        let mut table: HashMap<Decoded<Hex>, Key> = HashMap::new();
        for k in &keys[..4] {
            table.insert(kid(k), k.tuf_key());
        }
        let rk = |k: &Ed25519KeyPair| RoleKeys { keyids: vec![kid(k)], threshold: nz(1), _extra: HashMap::new() };
        let mut rr = HashMap::new();
        rr.insert(RoleType::Root, rk(&keys[0]));
        rr.insert(RoleType::Timestamp, rk(&keys[1]));
        rr.insert(RoleType::Snapshot, rk(&keys[2]));
        rr.insert(RoleType::Targets, rk(&keys[3]));
        let root = sign(Root { spec_version: "1.0.0".into(), consistent_snapshot: false, version: nz(1), expires: far(), keys: table, roles: rr, _extra: HashMap::new() }, &[&keys[0]]).await;
        let desc = || placed.iter().map(|(r, ni)| format!("{} lists {:?}", roles[*r].name, names[*ni])).collect::<Vec<_>>().join(", ");
        // reference expectation
        let resolved: Vec<String> = names.iter().map(|n| TargetName::new(*n).unwrap().resolved().to_string()).collect();
        let all_reachable = placed.iter().all(|(_, ni)| ref_find(&roles, placed, 0, *ni, &resolved[*ni]).is_some());
        let r = RepositoryLoader::new(&ser(&root), Url::parse("file:///m/").unwrap(), Url::parse("file:///t/").unwrap()).transport(t.clone()).load().await;
        match r {
            Err(e) => {
                if all_reachable {
                    dev.push(json!({"what": format!("[{}]: every listed target is reachable through an authorised chain, yet the repository is refused: {e}", desc())}));
                }
            }
            Ok(repo) => {
                if !all_reachable {
                    dev.push(json!({"what": format!("[{}]: a role lists a target that no authorised chain reaches, yet the repository loads", desc())}));
                    continue;
                }
                // every name: the digest enforced is the one of the reference entry
                for (ni, name) in names.iter().enumerate() {
                    let want = ref_find(&roles, placed, 0, ni, &resolved[ni]);
                    let tn = TargetName::new(*name).unwrap();
                    // serve, for this name, the content of each candidate role in turn and see which one verifies
                    let mut served_from: Option<usize> = None;
                    let mut found = false;
                    for cand in 0..roles.len() {
                        let c = format!("{}:{}", roles[cand].name, name).into_bytes();
                        *t.default_target.lock().unwrap() = Some(Body::Bytes(c.clone()));
                        match repo.read_target(&tn).await {
                            Ok(Some(mut s)) => {
                                found = true;
                                let mut got = vec![];
                                let mut ok = true;
                                while let Some(i) = s.next().await {
                                    match i {
                                        Ok(b) => got.extend_from_slice(&b),
                                        Err(_) => { ok = false; break; }
                                    }
                                }
                                if ok && got == c {
                                    served_from = Some(cand);
                                }
                            }
                            Ok(None) => {}
                            Err(e) => dev.push(json!({"what": format!("[{}]: read_target({name:?}) failed: {e}", desc())})),
                        }
                    }
                    if want.is_none() && found {
                        dev.push(json!({"what": format!("[{}]: {name:?} has no authorised entry but read_target serves data for it", desc())}));
                    }
                    if want != served_from && (want.is_some() || served_from.is_some()) {
                        dev.push(json!({"what": format!("[{}]: {name:?} should be served from {:?}, the client enforces the digest of {:?}", desc(), want.map(|w| roles[w].name), served_from.map(|w| roles[w].name))}));
                    }
                }
            }
        }
        if dev.len() > 10 {
            break;
        }
    }
    dev.truncate(10);
    json!({"cases": cases, "deviations": dev})
}
