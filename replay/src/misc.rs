// small native oracles: canonical JSON, file-name encoding, ...
use serde_json::{json, Value};

/// C11: serialise a JSON value (given as text, members in the given order) with the real CanonicalFormatter
pub fn canon(sc: Value) -> Value {
    let mut outs = vec![];
    for t in sc["texts"].as_array().unwrap() {
        let text = t.as_str().unwrap();
        let v: Result<serde_json::Value, _> = serde_json::from_str(text);
        match v {
            Err(e) => outs.push(json!({"parse_error": e.to_string()})),
            Ok(v) => {
                let mut buf = Vec::new();
                let mut ser = serde_json::Serializer::with_formatter(&mut buf, olpc_cjson::CanonicalFormatter::new());
                match serde::Serialize::serialize(&v, &mut ser) {
                    Ok(()) => outs.push(json!({"hex": hex::encode(&buf)})),
                    Err(e) => outs.push(json!({"error": e.to_string()})),
                }
            }
        }
    }
    json!({"outputs": outs})
}
