// small native oracles: canonical JSON, file-name encoding, ...
use serde::ser::{SerializeMap, SerializeSeq};
use serde::{Serialize, Serializer};
use serde_json::{json, Value};

/// A JSON value whose object members are serialised in the order given (objects arrive as {"$obj": [[key, value], ...]}).
pub struct Ordered<'a>(pub &'a Value);

impl<'a> Serialize for Ordered<'a> {
    fn serialize<S: Serializer>(&self, s: S) -> Result<S::Ok, S::Error> {
        match self.0 {
            Value::Object(m) if m.len() == 1 && m.contains_key("$obj") => {
                let items = m["$obj"].as_array().unwrap();
                let mut map = s.serialize_map(Some(items.len()))?;
                for kv in items {
                    map.serialize_entry(kv[0].as_str().unwrap(), &Ordered(&kv[1]))?;
                }
                map.end()
            }
            Value::Object(m) if m.len() == 1 && m.contains_key("$f64") => s.serialize_f64(m["$f64"].as_f64().unwrap()),
            Value::Array(a) => {
                let mut seq = s.serialize_seq(Some(a.len()))?;
                for x in a {
                    seq.serialize_element(&Ordered(x))?;
                }
                seq.end()
            }
            other => other.serialize(s),
        }
    }
}

/// C11: serialise values with the real CanonicalFormatter
pub fn canon(sc: Value) -> Value {
    let mut outs = vec![];
    for v in sc["values"].as_array().unwrap() {
        let mut buf = Vec::new();
        let mut ser = serde_json::Serializer::with_formatter(&mut buf, olpc_cjson::CanonicalFormatter::new());
        match Ordered(v).serialize(&mut ser) {
            Ok(()) => outs.push(json!({"hex": hex::encode(&buf)})),
            Err(e) => outs.push(json!({"error": e.to_string()})),
        }
    }
    json!({"outputs": outs})
}
