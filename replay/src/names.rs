// C16 / C19 native validation: role-name -> file-name mapping, and cache()/load() of repositories with hazardous role names.
use crate::targets::{Body, T};
use crate::*;
use tough::{FilesystemTransport, RepositoryLoader, TargetName, Transport};
use url::Url;

/// independent reference: percent-encode every byte except ASCII letters, digits and _ . - ~ (upper-case hex)
pub fn ref_encode(name: &str) -> String {
    let mut out = String::new();
    for b in name.bytes() {
        if b.is_ascii_alphanumeric() || b"_.-~".contains(&b) {
            out.push(b as char);
        } else {
            out.push_str(&format!("%{b:02X}"));
        }
    }
    out
}

pub fn op_filenames(sc: Value) -> Value {
    let mut outs = vec![];
    for n in sc["names"].as_array().unwrap() {
        let name = n.as_str().unwrap();
        let mut t = Targets::new("1.0.0".into(), nz(1), far());
        t.delegations = None;
        let dt = DelegatedTargets { name: name.to_string(), targets: t };
        outs.push(json!(dt.filename(false)));
    }
    json!({"filenames": outs})
}

fn sha(b: &[u8]) -> Vec<u8> {
    aws_lc_rs::digest::digest(&aws_lc_rs::digest::SHA256, b).as_ref().to_vec()
}

pub async fn op_cache_roles(sc: Value) -> Value {
    let role_names: Vec<String> = sc["roles"].as_array().unwrap().iter().map(|v| v.as_str().unwrap().to_string()).collect();
    let mut dev: Vec<Value> = vec![];
    let mut cases = 0;
    for consistent in [false, true] {
        let keys: Vec<Ed25519KeyPair> = (0..5).map(|_| kp()).collect();
        let mut table: HashMap<Decoded<Hex>, Key> = HashMap::new();
        for k in &keys[..4] {
            table.insert(kid(k), k.tuf_key());
        }
        let rk = |k: &Ed25519KeyPair| RoleKeys { keyids: vec![kid(k)], threshold: nz(1), _extra: HashMap::new() };
        let mut roles = HashMap::new();
        roles.insert(RoleType::Root, rk(&keys[0]));
        roles.insert(RoleType::Timestamp, rk(&keys[1]));
        roles.insert(RoleType::Snapshot, rk(&keys[2]));
        roles.insert(RoleType::Targets, rk(&keys[3]));
        let root = sign(Root { spec_version: "1.0.0".into(), consistent_snapshot: consistent, version: nz(1), expires: far(), keys: table, roles, _extra: HashMap::new() }, &[&keys[0]]).await;
        let t = T::default();
        let pfx = |n: &str| if consistent { format!("1.{n}") } else { n.to_string() };
        let m = |b: &[u8]| Metafile { length: Some(b.len() as u64), hashes: Some(Hashes { sha256: sha(b).into(), _extra: HashMap::new() }), version: nz(1), _extra: HashMap::new() };
        let mut sn = Snapshot::new("1.0.0".into(), nz(1), far());
        let mut top = Targets::new("1.0.0".into(), nz(1), far());
        let mut dk = HashMap::new();
        dk.insert(kid(&keys[4]), keys[4].tuf_key());
        let mut droles = vec![];
        let mut role_files: Vec<(String, String, Vec<u8>)> = vec![]; // role, expected file name, bytes
        for (i, name) in role_names.iter().enumerate() {
            let mut d = Targets::new("1.0.0".into(), nz(1), far());
            d.delegations = None;
            // each role owns one target in its own directory
            let content = format!("content of role {i}").into_bytes();
            let tname = format!("r{i}/file.txt");
            d.targets.insert(TargetName::new(tname.clone()).unwrap(), Target { length: content.len() as u64, hashes: Hashes { sha256: sha(&content).into(), _extra: HashMap::new() }, custom: HashMap::new(), _extra: HashMap::new() });
            // under consistent snapshots the digest prefixes the whole (resolved) target name
            let tpath = if consistent { format!("/t/{}.r{i}/file.txt", hex::encode(sha(&content))) } else { format!("/t/r{i}/file.txt") };
            t.targets.lock().unwrap().insert(tpath, Body::Bytes(content));
            let db = ser(&sign(d, &[&keys[4]]).await);
            sn.meta.insert(format!("{name}.json"), m(&db));
            let fname = pfx(&format!("{}.json", ref_encode(name)));
            t.meta.lock().unwrap().insert(format!("/m/{fname}"), db.clone());
            role_files.push((name.clone(), fname, db));
            droles.push(DelegatedRole { name: name.clone(), keyids: vec![kid(&keys[4])], threshold: nz(1), paths: PathSet::Paths(vec![PathPattern::new(format!("r{i}/*")).unwrap()]), terminating: false, targets: None });
        }
        top.delegations = Some(Delegations { keys: dk, roles: droles });
        let tb = ser(&sign(top, &[&keys[3]]).await);
        sn.meta.insert("targets.json".into(), m(&tb));
        t.meta.lock().unwrap().insert(format!("/m/{}", pfx("targets.json")), tb);
        let sb = ser(&sign(sn, &[&keys[2]]).await);
        let mut ts = Timestamp::new("1.0.0".into(), nz(1), far());
        ts.meta.insert("snapshot.json".into(), m(&sb));
        t.meta.lock().unwrap().insert(format!("/m/{}", pfx("snapshot.json")), sb);
        t.meta.lock().unwrap().insert("/m/timestamp.json".into(), ser(&sign(ts, &[&keys[1]]).await));
        t.meta.lock().unwrap().insert("/m/1.root.json".into(), ser(&root));
        let shipped = ser(&root);
        // a private parent directory: "written next to the datastore" must not depend on what else lives in the system temp dir
        let private_parent = tempfile::tempdir().unwrap();
        let dsdir = tempfile::tempdir_in(private_parent.path()).unwrap();
        cases += 1;
        let repo = match RepositoryLoader::new(&shipped, Url::parse("file:///m/").unwrap(), Url::parse("file:///t/").unwrap()).transport(t.clone()).datastore(dsdir.path()).load().await {
            Ok(r) => r,
            Err(e) => {
                dev.push(json!({"what": format!("consistent={consistent}: repository with role names {role_names:?} does not load: {e}")}));
                continue;
            }
        };
        let check_requests = |dev: &mut Vec<Value>, phase: &str, log: &Vec<String>| {
            for p in log {
                let rest = p.strip_prefix("/m/").or_else(|| p.strip_prefix("/t/"));
                let bad = match rest {
                    None => true,
                    Some(r) => p.starts_with("/m/") && (r.contains('/') || r.is_empty() || r == "." || r == ".."),
                };
                if bad {
                    dev.push(json!({"what": format!("consistent={consistent}, {phase}: request {p:?} is not a plain entry of the metadata base")}));
                }
            }
        };
        check_requests(&mut dev, "load", &t.log.lock().unwrap().clone());
        // datastore entries are plain files directly inside the datastore
        cases += 1;
        for e in std::fs::read_dir(dsdir.path()).unwrap().flatten() {
            if e.path().is_dir() {
                dev.push(json!({"what": format!("consistent={consistent}: datastore contains a directory {:?}", e.file_name())}));
            }
        }
        let outside: Vec<_> = std::fs::read_dir(dsdir.path().parent().unwrap()).unwrap().flatten().filter(|e| e.file_name().to_string_lossy().ends_with(".json")).collect();
        if !outside.is_empty() {
            dev.push(json!({"what": format!("consistent={consistent}: files written next to the datastore: {:?}", outside.iter().map(|e| e.file_name()).collect::<Vec<_>>())}));
        }
        // cache
        t.log.lock().unwrap().clear();
        let out = tempfile::tempdir().unwrap();
        let md = out.path().join("mid").join("metadata");
        let td = out.path().join("mid").join("targets");
        cases += 1;
        match repo.cache(&md, &td, None::<&[&str]>, true).await {
            Err(e) => dev.push(json!({"what": format!("consistent={consistent}: cache() failed: {e}")})),
            Ok(()) => {
                check_requests(&mut dev, "cache", &t.log.lock().unwrap().clone());
                let mut walk = vec![out.path().to_path_buf()];
                while let Some(d) = walk.pop() {
                    for e in std::fs::read_dir(&d).unwrap().flatten() {
                        let p = e.path();
                        if p.is_dir() {
                            if !(p.starts_with(&td) || p == out.path().join("mid") || p == md) {
                                dev.push(json!({"what": format!("consistent={consistent}: cache() created directory {:?} outside the targets directory", p.strip_prefix(out.path()).unwrap())}));
                            }
                            walk.push(p);
                        } else if !(p.starts_with(&md) || p.starts_with(&td)) {
                            dev.push(json!({"what": format!("consistent={consistent}: cache() wrote {:?} outside the two directories", p.strip_prefix(out.path()).unwrap())}));
                        }
                    }
                }
                for (name, fname, bytes) in &role_files {
                    cases += 1;
                    match std::fs::read(md.join(fname)) {
                        Ok(b) if &b == bytes => {}
                        Ok(_) => dev.push(json!({"what": format!("consistent={consistent}: cached file {fname:?} of role {name:?} holds another role's metadata")})),
                        Err(_) => dev.push(json!({"what": format!("consistent={consistent}: role {name:?} not cached under {fname:?}")})),
                    }
                }
                // the copy loads, with the same versions, and every target reads back identically
                cases += 1;
                let r2 = RepositoryLoader::new(&shipped, Url::from_directory_path(&md).unwrap(), Url::from_directory_path(&td).unwrap()).transport(FilesystemTransport).load().await;
                match r2 {
                    Err(e) => dev.push(json!({"what": format!("consistent={consistent}: the cached copy does not load: {e}")})),
                    Ok(r2) => {
                        if r2.targets().signed.version != repo.targets().signed.version || r2.snapshot().signed.version != repo.snapshot().signed.version || r2.timestamp().signed.version != repo.timestamp().signed.version {
                            dev.push(json!({"what": format!("consistent={consistent}: versions differ between the repository and its cached copy")}));
                        }
                        for i in 0..role_names.len() {
                            cases += 1;
                            match crate::targets::drain(&r2, &format!("r{i}/file.txt")).await {
                                Ok(Some((b, true))) if b == format!("content of role {i}").into_bytes() => {}
                                other => dev.push(json!({"what": format!("consistent={consistent}: target r{i}/file.txt does not read back from the cached copy: {:?}", other.map(|o| o.map(|x| (x.0.len(), x.1))))})),
                            }
                        }
                    }
                }
            }
        }
        let _ = t.fetch(Url::parse("file:///m/none").unwrap()).await;
    }
    dev.truncate(10);
    json!({"cases": cases, "deviations": dev})
}

/// C16: FilesystemTransport must open the path component of a file URL verbatim.  For each role name: the metadata directory holds NO entry under the
/// encoded file name but a file exists at the percent-DECODED location (inside or outside the directory); the fetch must be FileNotFound.  Control: the
/// entry under the encoded name is served with its own bytes even when a decoded twin exists.
pub async fn op_file_transport(sc: Value) -> Value {
    use futures::StreamExt;
    let names: Vec<String> = sc["names"].as_array().unwrap().iter().map(|v| v.as_str().unwrap().to_string()).collect();
    let mut dev: Vec<Value> = vec![];
    let mut cases = 0;
    for name in &names {
        let enc = format!("{}.json", ref_encode(name));
        let work = tempfile::tempdir().unwrap();
        let md = work.path().join("outer").join("metadata");
        std::fs::create_dir_all(&md).unwrap();
        let decoded = md.join(format!("{name}.json"));
        if name.contains('\0') || enc == format!("{name}.json") {
            continue; // nothing to decode
        }
        let mut placed = false;
        if let Some(parent) = decoded.parent() {
            if std::fs::create_dir_all(parent).is_ok() && std::fs::write(&decoded, b"DECODED TWIN").is_ok() {
                placed = true;
            }
        }
        let url = crate::repo::dir_url(&md).join(&enc).unwrap();
        // (1) only the decoded twin exists
        cases += 1;
        let got = match FilesystemTransport.fetch(url.clone()).await {
            Ok(mut s) => {
                let mut b = vec![];
                while let Some(Ok(x)) = s.next().await {
                    b.extend_from_slice(&x);
                }
                Some(b)
            }
            Err(_) => None,
        };
        if let Some(b) = got {
            dev.push(json!({"what": format!("role name {name:?}: the client asks for {enc:?}; no such entry exists, yet FilesystemTransport serves {:?} (decoded twin placed: {placed}, at {:?})", String::from_utf8_lossy(&b), decoded.strip_prefix(work.path()).unwrap_or(&decoded))}));
        }
        // (2) the encoded entry exists as well: it is what must be served
        cases += 1;
        std::fs::write(md.join(&enc), b"ENCODED ENTRY").unwrap();
        match FilesystemTransport.fetch(url).await {
            Ok(mut s) => {
                let mut b = vec![];
                while let Some(Ok(x)) = s.next().await {
                    b.extend_from_slice(&x);
                }
                if b != b"ENCODED ENTRY" {
                    dev.push(json!({"what": format!("role name {name:?}: entry {enc:?} exists but FilesystemTransport serves {:?}", String::from_utf8_lossy(&b))}));
                }
            }
            Err(e) => dev.push(json!({"what": format!("role name {name:?}: entry {enc:?} exists but the fetch fails: {e}")})),
        }
    }
    json!({"cases": cases, "deviations": dev})
}
