// Scenario interpreter: a history of update cycles against one datastore, repository states built with real keys.
use crate::*;
use async_trait::async_trait;
use std::sync::atomic::{AtomicUsize, Ordering};
use std::sync::{Arc, Mutex};
use tough::{ExpirationEnforcement, Limits, RepositoryLoader, TargetName, Transport, TransportError, TransportErrorKind};
use url::Url;

type TS = std::pin::Pin<Box<dyn futures::Stream<Item = std::result::Result<bytes::Bytes, TransportError>> + Send>>;

#[derive(Debug, Clone, Default)]
pub struct Mem {
    pub files: Arc<Mutex<HashMap<String, Vec<u8>>>>,
    pub count: Arc<AtomicUsize>,
    pub max_requests: usize,
    pub chunk: usize,
    pub endless: Arc<Mutex<Vec<String>>>,
    pub log: Arc<Mutex<Vec<(String, usize)>>>,
    pub pulled: Arc<Mutex<HashMap<String, usize>>>,
}

#[async_trait]
impl Transport for Mem {
    async fn fetch(&self, url: Url) -> std::result::Result<TS, TransportError> {
        let n = self.count.fetch_add(1, Ordering::SeqCst);
        let name = url.path().rsplit('/').next().unwrap().to_string();
        if self.max_requests > 0 && n >= self.max_requests {
            self.log.lock().unwrap().push((name, 0));
            return Err(TransportError::new(TransportErrorKind::Other, url));
        }
        let endless = self.endless.lock().unwrap().contains(&name);
        match self.files.lock().unwrap().get(url.path()) {
            Some(b) => {
                self.log.lock().unwrap().push((name.clone(), b.len()));
                let chunk = if self.chunk == 0 { b.len().max(1) } else { self.chunk };
                let pulled = self.pulled.clone();
                let mut items: Vec<bytes::Bytes> = b.chunks(chunk).map(bytes::Bytes::copy_from_slice).collect();
                if endless {
                    for _ in 0..4096 {
                        items.push(bytes::Bytes::from(vec![b' '; 4096]));
                    }
                }
                let nm = name.clone();
                let s = futures::stream::iter(items.into_iter().map(move |c| {
                    *pulled.lock().unwrap().entry(nm.clone()).or_insert(0) += c.len();
                    Ok(c)
                }));
                Ok(Box::pin(s))
            }
            None => {
                self.log.lock().unwrap().push((name, 0));
                Err(TransportError::new(TransportErrorKind::FileNotFound, url))
            }
        }
    }
}

fn idxs(v: &Value) -> Vec<usize> {
    v.as_array().map(|a| a.iter().map(|x| x.as_u64().unwrap() as usize).collect()).unwrap_or_default()
}

fn rolekeys(keys: &[Ed25519KeyPair], v: &Value) -> RoleKeys {
    RoleKeys { keyids: idxs(&v["keys"]).iter().map(|k| kid(&keys[*k])).collect(), threshold: nz(v["thr"].as_u64().unwrap_or(1)), _extra: HashMap::new() }
}

async fn build_root(keys: &[Ed25519KeyPair], r: &Value) -> Signed<Root> {
    let mut table: HashMap<Decoded<Hex>, Key> = HashMap::new();
    for k in idxs(&r["table"]) {
        table.insert(kid(&keys[k]), keys[k].tuf_key());
    }
    let mut roles = HashMap::new();
    for (name, rt) in [("root", RoleType::Root), ("timestamp", RoleType::Timestamp), ("snapshot", RoleType::Snapshot), ("targets", RoleType::Targets)] {
        if !r["roles"][name].is_null() {
            roles.insert(rt, rolekeys(keys, &r["roles"][name]));
        }
    }
    let root = Root {
        spec_version: "1.0.0".into(),
        consistent_snapshot: r["consistent"].as_bool().unwrap_or(false),
        version: nz(r["version"].as_u64().unwrap()),
        expires: rel(r["expires"].as_i64().unwrap_or(86400 * 365)),
        keys: table,
        roles,
        _extra: HashMap::new(),
    };
    let signers: Vec<&Ed25519KeyPair> = idxs(&r["signers"]).iter().map(|k| &keys[*k]).collect();
    sign(root, &signers).await
}

fn meta(version: u64, buf: &[u8], m: &Value) -> Metafile {
    let pin_len = m["pin_len"].as_bool().unwrap_or(false);
    let pin_hash = m["pin_hash"].as_bool().unwrap_or(false);
    let len = (buf.len() as i64 + m["len_delta"].as_i64().unwrap_or(0)).max(0) as u64;
    let mut sha = aws_lc_rs::digest::digest(&aws_lc_rs::digest::SHA256, buf).as_ref().to_vec();
    if m["wrong_hash"].as_bool().unwrap_or(false) {
        sha[0] ^= 0xff;
    }
    Metafile {
        length: if pin_len { Some(len) } else { None },
        hashes: if pin_hash { Some(Hashes { sha256: sha.into(), _extra: HashMap::new() }) } else { None },
        version: nz(m["version"].as_u64().unwrap_or(version)),
        _extra: HashMap::new(),
    }
}

fn tgt(n: u64) -> Target {
    Target { length: n, hashes: Hashes { sha256: vec![7u8; 32].into(), _extra: HashMap::new() }, custom: HashMap::new(), _extra: HashMap::new() }
}

/// builds a (possibly delegating) targets document; delegated role files are pushed into `out` as (name, bytes, version)
#[async_recursion::async_recursion(?Send)]
async fn build_targets(keys: &[Ed25519KeyPair], t: &Value, out: &mut Vec<(String, Vec<u8>, u64)>) -> Targets {
    let mut doc = Targets::new("1.0.0".into(), nz(t["version"].as_u64().unwrap_or(1)), rel(t["expires"].as_i64().unwrap_or(86400 * 365)));
    for i in 0..t["ntargets"].as_u64().unwrap_or(0) {
        doc.targets.insert(TargetName::new(format!("{}file-{i}.bin", t["target_prefix"].as_str().unwrap_or(""))).unwrap(), tgt(i));
    }
    doc.delegations = None;
    if let Some(ds) = t["delegations"].as_array() {
        let mut dkeys = HashMap::new();
        let mut roles = vec![];
        for d in ds {
            for k in idxs(&d["table"]) {
                dkeys.insert(kid(&keys[k]), keys[k].tuf_key());
            }
            let name = d["name"].as_str().unwrap().to_string();
            roles.push(DelegatedRole {
                name: name.clone(),
                keyids: idxs(&d["keys"]).iter().map(|k| kid(&keys[*k])).collect(),
                threshold: nz(d["thr"].as_u64().unwrap_or(1)),
                paths: PathSet::Paths(vec![PathPattern::new(d["pattern"].as_str().unwrap_or("*")).unwrap()]),
                terminating: false,
                targets: None,
            });
            if !d["doc"].is_null() && !out.iter().any(|(n, _, _)| n == &name) {
                let sub = build_targets(keys, &d["doc"], out).await;
                let signers: Vec<&Ed25519KeyPair> = idxs(&d["doc"]["signers"]).iter().map(|k| &keys[*k]).collect();
                let v = sub.version.get();
                let s = sign(sub, &signers).await;
                out.push((name, ser(&s), v));
            }
        }
        doc.delegations = Some(Delegations { keys: dkeys, roles });
    }
    doc
}

fn err_name(e: &tough::error::Error) -> String {
    let d = format!("{e:?}");
    d.split(|c: char| !c.is_alphanumeric()).next().unwrap_or("").to_string()
}

fn stored(ds: &std::path::Path, f: &str) -> Value {
    match std::fs::read(ds.join(f)) {
        Err(_) => Value::Null,
        Ok(b) => match serde_json::from_slice::<Value>(&b) {
            Ok(v) => v["signed"]["version"].clone(),
            Err(_) => json!("unparsable"),
        },
    }
}

pub async fn run(sc: Value) -> Value {
    let nkeys = sc["nkeys"].as_u64().unwrap_or(8) as usize;
    let keys: Vec<Ed25519KeyPair> = (0..nkeys).map(|_| kp()).collect();
    let mut roots = vec![];
    for r in sc["roots"].as_array().unwrap() {
        roots.push(build_root(&keys, r).await);
    }
    let dsdir = tempfile::tempdir().unwrap();
    let mut results = vec![];
    for c in sc["cycles"].as_array().unwrap() {
        let mut files: HashMap<String, Vec<u8>> = HashMap::new();
        let put = |files: &mut HashMap<String, Vec<u8>>, n: &str, b: Vec<u8>| {
            files.insert(format!("/m/{n}"), b);
        };
        let shipped = ser(&roots[c["shipped"].as_u64().unwrap_or(0) as usize]);
        if let Some(m) = c["serve_roots"].as_object() {
            for (n, v) in m {
                let b = if let Some(i) = v.as_u64() { ser(&roots[i as usize]) } else { v["raw"].as_str().unwrap_or("garbage").as_bytes().to_vec() };
                put(&mut files, &format!("{n}.root.json"), b);
            }
        }
        let consistent = c["consistent"].as_bool().unwrap_or(false);
        let pfx = |v: u64, n: &str| if consistent { format!("{v}.{n}") } else { n.to_string() };
        // targets (+ delegated)
        let mut delegated = vec![];
        let tdoc = build_targets(&keys, &c["targets"], &mut delegated).await;
        let tver = tdoc.version.get();
        let tsigners: Vec<&Ed25519KeyPair> = idxs(&c["targets"]["signers"]).iter().map(|k| &keys[*k]).collect();
        let tbuf = if let Some(raw) = c["targets"]["raw"].as_str() { raw.as_bytes().to_vec() } else { ser(&sign(tdoc, &tsigners).await) };
        // snapshot
        let mut sn = Snapshot::new("1.0.0".into(), nz(c["snapshot"]["version"].as_u64().unwrap_or(1)), rel(c["snapshot"]["expires"].as_i64().unwrap_or(86400 * 365)));
        if !c["sn_meta"]["drop_targets"].as_bool().unwrap_or(false) {
            sn.meta.insert("targets.json".into(), meta(tver, &tbuf, &c["sn_meta"]));
        }
        for (name, buf, v) in &delegated {
            let dm = &c["sn_meta"]["delegated"][name];
            if !dm["omit"].as_bool().unwrap_or(false) {
                sn.meta.insert(format!("{name}.json"), meta(*v, buf, dm));
            }
            let listed = dm["version"].as_u64().unwrap_or(*v);
            put(&mut files, &pfx(listed, &format!("{name}.json")), buf.clone());
        }
        let snver = sn.version.get();
        let ssigners: Vec<&Ed25519KeyPair> = idxs(&c["snapshot"]["signers"]).iter().map(|k| &keys[*k]).collect();
        let sbuf = if let Some(raw) = c["snapshot"]["raw"].as_str() { raw.as_bytes().to_vec() } else { ser(&sign(sn, &ssigners).await) };
        put(&mut files, &pfx(c["sn_meta"]["version"].as_u64().unwrap_or(tver), "targets.json"), tbuf);
        // timestamp
        let mut ts = Timestamp::new("1.0.0".into(), nz(c["timestamp"]["version"].as_u64().unwrap_or(1)), rel(c["timestamp"]["expires"].as_i64().unwrap_or(86400 * 365)));
        if !c["ts_meta"]["drop_snapshot"].as_bool().unwrap_or(false) {
            ts.meta.insert("snapshot.json".into(), meta(snver, &sbuf, &c["ts_meta"]));
        }
        put(&mut files, &pfx(c["ts_meta"]["version"].as_u64().unwrap_or(snver), "snapshot.json"), sbuf);
        let xsigners: Vec<&Ed25519KeyPair> = idxs(&c["timestamp"]["signers"]).iter().map(|k| &keys[*k]).collect();
        let xbuf = if let Some(raw) = c["timestamp"]["raw"].as_str() { raw.as_bytes().to_vec() } else { ser(&sign(ts, &xsigners).await) };
        put(&mut files, "timestamp.json", xbuf);
        if let Some(a) = c["absent"].as_array() {
            for n in a {
                files.remove(&format!("/m/{}", n.as_str().unwrap()));
            }
        }
        let sizes: HashMap<String, usize> = files.iter().map(|(k, v)| (k.trim_start_matches("/m/").to_string(), v.len())).collect();
        // datastore pre-operations (crash / fault effects, stored clock)
        if let Some(ops) = c["pre"].as_array() {
            for o in ops {
                let f = dsdir.path().join(o["file"].as_str().unwrap_or("x"));
                match o["op"].as_str().unwrap_or("") {
                    "truncate" => {
                        if f.exists() {
                            std::fs::OpenOptions::new().write(true).truncate(true).open(&f).unwrap();
                        }
                    }
                    "remove" => {
                        let _ = std::fs::remove_file(&f);
                    }
                    "write_time" => {
                        let t = rel(o["offset"].as_i64().unwrap_or(0));
                        std::fs::write(dsdir.path().join("latest_known_time.json"), serde_json::to_vec(&t).unwrap()).unwrap();
                    }
                    "garbage" => {
                        std::fs::write(&f, b"{not json").unwrap();
                    }
                    _ => {}
                }
            }
        }
        let t = Mem { files: Arc::new(Mutex::new(files)), max_requests: c["max_requests"].as_u64().unwrap_or(200) as usize, chunk: c["chunk"].as_u64().unwrap_or(0) as usize, ..Default::default() };
        if let Some(a) = c["endless"].as_array() {
            for n in a {
                t.endless.lock().unwrap().push(n.as_str().unwrap().to_string());
            }
        }
        let log = t.log.clone();
        let pulled = t.pulled.clone();
        let mut loader = RepositoryLoader::new(&shipped, Url::parse("file:///m/").unwrap(), Url::parse("file:///t/").unwrap())
            .transport(t)
            .datastore(dsdir.path());
        if let Some(l) = c["limits"].as_object() {
            let d = Limits::default();
            loader = loader.limits(Limits {
                max_root_size: l.get("max_root_size").and_then(|v| v.as_u64()).unwrap_or(d.max_root_size),
                max_targets_size: l.get("max_targets_size").and_then(|v| v.as_u64()).unwrap_or(d.max_targets_size),
                max_timestamp_size: l.get("max_timestamp_size").and_then(|v| v.as_u64()).unwrap_or(d.max_timestamp_size),
                max_snapshot_size: l.get("max_snapshot_size").and_then(|v| v.as_u64()).unwrap_or(d.max_snapshot_size),
                max_root_updates: l.get("max_root_updates").and_then(|v| v.as_u64()).unwrap_or(d.max_root_updates),
            });
        }
        if !c["safe"].as_bool().unwrap_or(true) {
            loader = loader.expiration_enforcement(ExpirationEnforcement::Unsafe);
        }
        if let Some(ms) = c["sleep_ms"].as_u64() {
            tokio::time::sleep(std::time::Duration::from_millis(ms)).await;
        }
        let r = loader.load().await;
        let reqs: Vec<Value> = log.lock().unwrap().iter().map(|(n, l)| json!([n, l])).collect();
        let pulled: HashMap<String, usize> = pulled.lock().unwrap().clone();
        let mut res = match &r {
            Ok(repo) => json!({"ok": true, "versions": {"root": repo.root().signed.version, "timestamp": repo.timestamp().signed.version,
                               "snapshot": repo.snapshot().signed.version, "targets": repo.targets().signed.version},
                               "ntargets": repo.all_targets().count()}),
            Err(e) => json!({"ok": false, "err": err_name(e), "msg": e.to_string().chars().take(300).collect::<String>()}),
        };
        if let (Ok(repo), Some(name)) = (&r, c["read_target_after_ms"].as_u64()) {
            tokio::time::sleep(std::time::Duration::from_millis(name)).await;
            let rt = repo.read_target(&TargetName::new("nope").unwrap()).await;
            res["read_target"] = match rt { Ok(_) => json!("ok"), Err(e) => json!(err_name(&e)) };
        }
        res["requests"] = json!(reqs);
        res["pulled"] = json!(pulled);
        res["sizes"] = json!(sizes);
        res["stored"] = json!({"timestamp.json": stored(dsdir.path(), "timestamp.json"), "snapshot.json": stored(dsdir.path(), "snapshot.json"), "targets.json": stored(dsdir.path(), "targets.json")});
        results.push(res);
    }
    json!({"cycles": results})
}
