// C10 replay of the solver's `delegate_role` counterexamples through the public editor API:
// a TargetsEditor whose delegations already hold `old_keys` (and `roles` delegated roles, `pending` roles added earlier with delegate_role)
// delegates a new role with `supplied_keys`; equal numbers denote the same key.  build_targets / sign must contain what was put in.
use crate::repo::*;
use crate::*;
use tough::editor::targets::TargetsEditor;
use tough::key_source::KeySource;

fn empty_targets(delegations: Option<Delegations>) -> Targets {
    Targets { spec_version: "1.0.0".into(), version: nz(1), expires: far(), targets: HashMap::new(), delegations, _extra: HashMap::new() }
}

pub async fn op_delegate_role(sc: Value) -> Value {
    let vals = |k: &str| -> Vec<u64> { sc[k].as_array().map(|a| a.iter().filter_map(|v| v.as_u64()).collect()).unwrap_or_default() };
    let (old, supplied) = (vals("old_keys"), vals("supplied_keys"));
    let nroles = sc["roles"].as_u64().unwrap_or(0) as usize;
    let npending = sc["pending"].as_u64().unwrap_or(0) as usize;
    let mut pool: HashMap<u64, MemKey> = HashMap::new();
    for v in old.iter().chain(supplied.iter()) {
        pool.entry(*v).or_insert_with(MemKey::new);
    }
    let pubkey = |v: &u64| -> (Decoded<Hex>, Key) {
        let k = pool[v].pair().tuf_key();
        (k.key_id().unwrap(), k)
    };
    let me = MemKey::new();
    let me_pub = me.pair().tuf_key();
    let me_id = me_pub.key_id().unwrap();
    // the editor's own state: key table with the old keys, `nroles` roles already delegated
    let mut dg = Delegations::new();
    for v in &old {
        let (id, k) = pubkey(v);
        dg.keys.insert(id, k);
    }
    for i in 0..nroles {
        dg.roles.push(DelegatedRole { name: format!("old{i}"), keyids: vec![], threshold: nz(1), paths: PathSet::Paths(vec![PathPattern::new(format!("old{i}/*")).unwrap()]), terminating: false, targets: None });
    }
    let mut holder = Delegations::new();
    holder.keys.insert(me_id.clone(), me_pub.clone());
    holder.roles.push(DelegatedRole { name: "me".into(), keyids: vec![me_id.clone()], threshold: nz(1), paths: PathSet::Paths(vec![]), terminating: false, targets: None });
    let mut ed = TargetsEditor::from_targets("me", empty_targets(Some(dg)), KeyHolder::Delegations(holder));
    ed.version(nz(2)).expires(far());
    let mut want_roles: Vec<String> = (0..nroles).map(|i| format!("old{i}")).collect();
    let mut handed: Vec<(String, Vec<u8>)> = vec![];
    let mut violations: Vec<String> = vec![];
    // roles created by their holders and handed over
    let mut names: Vec<String> = (0..npending).map(|i| format!("pending{i}")).collect();
    names.push("NEW".into());
    for name in &names {
        let child_key = MemKey::new();
        let mut child = TargetsEditor::new(name);
        child.version(nz(1)).expires(far());
        let ks: Vec<Box<dyn KeySource>> = vec![Box::new(child_key.clone())];
        let signed = match child.create_signed(&ks).await {
            Ok(s) => s,
            Err(e) => return json!({"error": format!("create_signed for {name} failed: {e}")}),
        };
        handed.push((name.clone(), serde_json::to_vec(&Signed { signed: signed.signed.targets.clone(), signatures: signed.signatures.clone() }).unwrap()));
        let (pairs, ids): (HashMap<Decoded<Hex>, Key>, Vec<Decoded<Hex>>) = if name == "NEW" {
            let m: HashMap<_, _> = supplied.iter().map(pubkey).collect();
            let ids = supplied.iter().map(|v| pubkey(v).0).collect();
            (m, ids)
        } else {
            (HashMap::new(), vec![])
        };
        if let Err(e) = ed.delegate_role(signed, PathSet::Paths(vec![PathPattern::new(format!("{name}/*")).unwrap()]), pairs, ids, nz(if name == "NEW" { 1 } else { 2 })) {
            return json!({"error": format!("delegate_role({name}) failed: {e}")});
        }
        want_roles.push(name.clone());
    }
    let built = match ed.build_targets() {
        Ok(b) => b,
        Err(e) => return json!({"violations": [format!("build_targets fails after a successful delegate_role: {e}")]}),
    };
    match &built.targets.delegations {
        None => violations.push("the built targets carry no delegations".into()),
        Some(d) => {
            let got: Vec<String> = d.roles.iter().map(|r| r.name.clone()).collect();
            if got != want_roles {
                violations.push(format!("delegated roles after the edit are {got:?}, expected {want_roles:?}"));
            }
            if let Some(r) = d.roles.iter().find(|r| r.name == "NEW") {
                let want_ids: Vec<Decoded<Hex>> = supplied.iter().map(|v| pubkey(v).0).collect();
                let pv: Vec<String> = match &r.paths {
                    PathSet::Paths(v) => v.iter().map(|p| p.value().to_string()).collect(),
                    PathSet::PathHashPrefixes(v) => v.iter().map(|p| format!("hash-prefix:{}", p.value())).collect(),
                };
                if r.keyids != want_ids || r.threshold != nz(1) || r.terminating || pv != vec!["NEW/*".to_string()] {
                    violations.push(format!("role NEW is {{keyids: {} ids, threshold: {}, terminating: {}, paths: {:?}}}, created with {} ids, threshold 1, not terminating, paths [NEW/*]", r.keyids.len(), r.threshold, r.terminating,
                        pv, want_ids.len()));
                }
                for id in &r.keyids {
                    if !d.keys.contains_key(id) {
                        violations.push(format!("role NEW lists key id {} but the delegations key table (now {} entries; {} before, {} supplied) has no such key: a client cannot verify NEW.json",
                            &hex::encode(id.as_ref())[..8], d.keys.len(), old.len(), supplied.len()));
                    }
                }
            }
            for v in old.iter().chain(supplied.iter()) {
                let (id, k) = pubkey(v);
                if d.keys.get(&id) != Some(&k) {
                    violations.push(format!("key {} ({}) is not in the delegations key table after delegate_role (table has {} entries; {} before, {} supplied)", &hex::encode(id.as_ref())[..8],
                        if old.contains(v) { "there before" } else { "supplied" }, d.keys.len(), old.len(), supplied.len()));
                }
            }
            let known: std::collections::HashSet<Decoded<Hex>> = old.iter().chain(supplied.iter()).map(|v| pubkey(v).0).collect();
            if d.keys.keys().any(|k| !known.contains(k)) {
                violations.push("the key table holds a key that was neither there nor supplied".into());
            }
        }
    }
    // sign(): own role freshly signed, every newly delegated role as handed over
    let ks: Vec<Box<dyn KeySource>> = vec![Box::new(me.clone())];
    match ed.sign(&ks).await {
        Err(e) => violations.push(format!("sign with the role's own key fails: {e}")),
        Ok(sdt) => {
            let roles = sdt.roles();
            let got: Vec<String> = roles.iter().map(|r| r.signed().signed.name.clone()).collect();
            let mut want = vec!["me".to_string()];
            want.extend(names.iter().cloned());
            if got != want {
                violations.push(format!("sign() emits roles {got:?}, expected {want:?}"));
            }
            for (name, bytes) in &handed {
                if let Some(r) = roles.iter().find(|r| &r.signed().signed.name == name) {
                    let now = serde_json::to_vec(&Signed { signed: r.signed().signed.targets.clone(), signatures: r.signed().signatures.clone() }).unwrap();
                    if &now != bytes {
                        violations.push(format!("role {name} is not emitted as it was handed over"));
                    }
                }
            }
        }
    }
    violations.dedup();
    json!({"violations": violations, "old_keys": old.len(), "supplied_keys": supplied.len(), "distinct_keys": pool.len()})
}

/// C10 replay of `add_role` counterexamples: a role file written by its holder is added by the owner from a directory URL.
/// scenario: keys_given (0..2), doc_has_deleg (the role's own delegations carry a key table entry)
pub async fn op_add_role(sc: Value) -> Value {
    use tough::{FilesystemTransport, Limits};
    let keys_given = sc["keys_given"].as_u64().unwrap_or(1) as usize;
    let doc_has_deleg = sc["doc_has_deleg"].as_bool().unwrap_or(true);
    let mut violations: Vec<String> = vec![];
    for name in ["plain", "needs encoding/β x"] {
        let holder_key = MemKey::new();
        let own_key = MemKey::new().pair().tuf_key();
        let own_id = own_key.key_id().unwrap();
        let mut child = TargetsEditor::new(name);
        child.version(nz(4)).expires(far());
        if doc_has_deleg {
            child.add_key([(own_id.clone(), own_key.clone())].into_iter().collect(), None).unwrap();
        }
        let ks: Vec<Box<dyn KeySource>> = vec![Box::new(holder_key.clone())];
        let signed = child.sign(&ks).await.unwrap();
        let dir = tempfile::tempdir().unwrap();
        signed.write(dir.path(), false).await.unwrap();
        let file = dir.path().join(format!("{}.json", crate::names::ref_encode(name)));
        let bytes = match std::fs::read(&file) {
            Ok(b) => b,
            Err(_) => return json!({"error": format!("the role file of {name:?} was not written as {file:?}")}),
        };
        let mut written: Value = serde_json::from_slice(&bytes).unwrap();
        let bytes = if doc_has_deleg { bytes } else {
            // a role file without a `delegations` member (add_role does not verify signatures; that happens when the owner signs / a client loads)
            written["signed"].as_object_mut().unwrap().remove("delegations");
            let b = serde_json::to_vec_pretty(&written).unwrap();
            std::fs::write(&file, &b).unwrap();
            b
        };
        let supplied: Vec<Key> = (0..keys_given).map(|_| MemKey::new().pair().tuf_key()).collect();
        let keys_arg: Option<HashMap<Decoded<Hex>, Key>> = if keys_given > 0 { Some(supplied.iter().map(|k| (k.key_id().unwrap(), k.clone())).collect()) } else { None };
        let want_keys: Vec<(Decoded<Hex>, Key)> = if keys_given > 0 { supplied.iter().map(|k| (k.key_id().unwrap(), k.clone())).collect() } else if doc_has_deleg { vec![(own_id.clone(), own_key.clone())] } else { vec![] };
        for (what, limit, expect_ok) in [("limit = file size", bytes.len() as u64, true), ("limit one byte below the file size", bytes.len() as u64 - 1, false)] {
            let mut ed = TargetsEditor::new("me");
            ed.version(nz(1)).expires(far());
            ed.limits(Limits { max_targets_size: limit, max_root_size: 10 * 1024 * 1024, ..Limits::default() });
            ed.transport(Box::new(FilesystemTransport));
            let res = ed.add_role(name, dir_url(dir.path()).as_str(), PathSet::Paths(vec![PathPattern::new("x/*").unwrap()]), nz(2), keys_arg.clone()).await.map(|_| ());
            let must_succeed = expect_ok && (keys_given > 0 || doc_has_deleg);
            match (&res, must_succeed, expect_ok) {
                (Err(e), true, _) => { violations.push(format!("add_role({name:?}, {what}) failed: {e}")); continue; }
                (Ok(()), _, false) => { violations.push(format!("add_role({name:?}) accepted a {}-byte role file with max_targets_size = {limit}", bytes.len())); continue; }
                (Ok(()), false, true) => { violations.push(format!("add_role({name:?}) succeeded without supplied keys although the role file has no delegations to take keys from")); continue; }
                (Err(_), false, _) => continue,
                (Ok(()), true, true) => {}
            }
            let built = match ed.build_targets() { Ok(b) => b, Err(e) => { violations.push(format!("build_targets after add_role failed: {e}")); continue; } };
            let d = built.targets.delegations.unwrap();
            match d.roles.iter().find(|r| r.name == name) {
                None => violations.push(format!("after add_role({name:?}) the delegated roles are {:?}", d.roles.iter().map(|r| r.name.clone()).collect::<Vec<_>>())),
                Some(r) => {
                    let mut got: Vec<String> = r.keyids.iter().map(|k| hex::encode(k.as_ref())).collect();
                    let mut want: Vec<String> = want_keys.iter().map(|(k, _)| hex::encode(k.as_ref())).collect();
                    got.sort(); want.sort();
                    if got != want || r.threshold != nz(2) || r.terminating {
                        violations.push(format!("role {name:?} added with {} key id(s) / threshold {} / terminating {}: expected the {} {} key id(s), threshold 2, not terminating", got.len(), r.threshold, r.terminating, want.len(), if keys_given > 0 { "supplied" } else { "document's own" }));
                    }
                    if r.paths != PathSet::Paths(vec![PathPattern::new("x/*").unwrap()]) {
                        violations.push(format!("role {name:?} added with other paths than given"));
                    }
                    let now = r.targets.as_ref().map(|t| serde_json::to_value(t).unwrap());
                    if now.as_ref().map(|v| (&v["signed"], &v["signatures"])) != Some((&written["signed"], &written["signatures"])) {
                        violations.push(format!("role {name:?}: the delegated metadata is not the document (and signatures) read from the role file"));
                    }
                }
            }
            for (id, k) in &want_keys {
                if d.keys.get(id) != Some(k) {
                    violations.push(format!("after add_role({name:?}) key {} is missing from the delegations key table", &hex::encode(id.as_ref())[..8]));
                }
            }
            if d.roles.len() != 1 { violations.push(format!("after one add_role there are {} delegated roles", d.roles.len())); }
        }
    }
    violations.dedup();
    json!({"violations": violations})
}

/// C10: the same key source given twice must not count twice towards a threshold: targets role with threshold 2 over keys {a, b}, signing with
/// [root, snapshot, timestamp, a, a]: either the editor refuses, or what it writes must load.
pub async fn op_dup_key_sources(_sc: Value) -> Value {
    use crate::roundtrip::K;
    use tough::editor::RepositoryEditor;
    use tough::RepositoryLoader;
    let mk = || K(Ed25519KeyPair::generate_pkcs8(&SystemRandom::new()).unwrap().as_ref().to_vec());
    let (rk, tk, sk, a, b) = (mk(), mk(), mk(), mk(), mk());
    let mut table = HashMap::new();
    for k in [&rk, &tk, &sk, &a, &b] {
        table.insert(k.id(), k.signer().tuf_key());
    }
    let one = |k: &K| RoleKeys { keyids: vec![k.id()], threshold: nz(1), _extra: HashMap::new() };
    let mut roles = HashMap::new();
    roles.insert(RoleType::Root, one(&rk));
    roles.insert(RoleType::Timestamp, one(&tk));
    roles.insert(RoleType::Snapshot, one(&sk));
    roles.insert(RoleType::Targets, RoleKeys { keyids: vec![a.id(), b.id()], threshold: nz(2), _extra: HashMap::new() });
    let root = Root { spec_version: "1.0.0".into(), consistent_snapshot: false, version: nz(1), expires: far(), keys: table, roles, _extra: HashMap::new() };
    let data = root.canonical_form().unwrap();
    let sig = rk.signer().sign(&data, &SystemRandom::new()).await.unwrap();
    let root_bytes = serde_json::to_vec_pretty(&Signed { signed: root, signatures: vec![Signature { keyid: rk.id(), sig: sig.into() }] }).unwrap();
    let work = tempfile::tempdir().unwrap();
    let root_path = work.path().join("root.json");
    std::fs::write(&root_path, &root_bytes).unwrap();
    let mut violations = vec![];
    for (what, signing) in [("[a, a]", vec![rk.clone(), tk.clone(), sk.clone(), a.clone(), a.clone()]), ("[a, b, a]", vec![rk.clone(), tk.clone(), sk.clone(), a.clone(), b.clone(), a.clone()])] {
        let mut ed = RepositoryEditor::new(&root_path).await.unwrap();
        ed.targets_version(nz(1)).unwrap().targets_expires(far()).unwrap();
        ed.snapshot_version(nz(1)).snapshot_expires(far()).timestamp_version(nz(1)).timestamp_expires(far());
        let ks: Vec<Box<dyn KeySource>> = signing.iter().map(|k| Box::new(k.clone()) as Box<dyn KeySource>).collect();
        match ed.sign(&ks).await {
            Err(e) => {
                if what == "[a, b, a]" {
                    violations.push(format!("signing a threshold-2 role with both of its keys (one given twice) is refused: {e}"));
                }
            }
            Ok(signed) => {
                let md = work.path().join(format!("md-{}", signing.len()));
                signed.write(&md).await.unwrap();
                std::fs::create_dir_all(work.path().join("t")).unwrap();
                if let Err(e) = RepositoryLoader::new(&root_bytes, dir_url(&md), dir_url(&work.path().join("t"))).load().await {
                    violations.push(format!("targets role with threshold 2 over keys {{a, b}}, signing keys {what}: the editor reported success but the client refuses the result: {e}"));
                }
            }
        }
    }
    json!({"violations": violations})
}
