// C13 native validation: key tables with altered / respelled / duplicated identifiers, for root and delegation tables.
use crate::*;
use serde_json::Map;

fn collect_fixture_keys() -> Vec<(String, Value)> {
    // every distinct key object found in the key tables of the repository's fixture root.json files (RSA, Ed25519, ECDSA, PEM and hex)
    let mut out: Vec<(String, Value)> = vec![];
    let base = std::path::Path::new("/repo/tough/tests/data");
    let mut stack = vec![base.to_path_buf()];
    while let Some(d) = stack.pop() {
        if let Ok(rd) = std::fs::read_dir(&d) {
            for e in rd.flatten() {
                let p = e.path();
                if p.is_dir() {
                    stack.push(p);
                } else if p.file_name().map(|n| n.to_string_lossy().ends_with("root.json")).unwrap_or(false) {
                    if let Ok(b) = std::fs::read(&p) {
                        if let Ok(v) = serde_json::from_slice::<Value>(&b) {
                            if let Some(keys) = v["signed"]["keys"].as_object() {
                                for (id, k) in keys {
                                    if !out.iter().any(|(i, _)| i == id) {
                                        out.push((id.clone(), k.clone()));
                                    }
                                }
                            }
                        }
                    }
                }
            }
        }
    }
    out.sort_by(|a, b| a.0.cmp(&b.0));
    out
}

fn ref_id(v: &Value) -> String {
    use serde::Serialize;
    let mut buf = Vec::new();
    let mut ser = serde_json::Serializer::with_formatter(&mut buf, olpc_cjson::CanonicalFormatter::new());
    v.serialize(&mut ser).unwrap();
    hex::encode(aws_lc_rs::digest::digest(&aws_lc_rs::digest::SHA256, &buf).as_ref())
}

fn root_text(keys_json: &str, listed: &str) -> String {
    let role = format!(r#"{{"keyids":["{listed}"],"threshold":1}}"#);
    format!(
        r#"{{"_type":"root","spec_version":"1.0.0","consistent_snapshot":false,"version":1,"expires":"2100-01-01T00:00:00Z","keys":{keys_json},"roles":{{"root":{role},"snapshot":{role},"targets":{role},"timestamp":{role}}}}}"#
    )
}
fn targets_text(keys_json: &str, listed: &str) -> String {
    format!(
        r#"{{"_type":"targets","spec_version":"1.0.0","version":1,"expires":"2100-01-01T00:00:00Z","targets":{{}},"delegations":{{"keys":{keys_json},"roles":[{{"name":"d","keyids":["{listed}"],"threshold":1,"paths":["*"],"terminating":false}}]}}}}"#
    )
}

fn parses(kind: &str, keys_json: &str, listed: &str) -> bool {
    if kind == "root" {
        serde_json::from_str::<Root>(&root_text(keys_json, listed)).is_ok()
    } else {
        serde_json::from_str::<Targets>(&targets_text(keys_json, listed)).is_ok()
    }
}

pub fn op_keyids(_sc: Value) -> Value {
    let mut keys = collect_fixture_keys();
    // plus two freshly generated Ed25519 keys
    for _ in 0..2 {
        let k = kp();
        let key = k.tuf_key();
        keys.push((hex::encode(key.key_id().unwrap().as_ref() as &[u8]), serde_json::to_value(&key).unwrap()));
    }
    let mut dev: Vec<Value> = vec![];
    let mut cases = 0;
    let mut check = |cases: &mut usize, what: String, got: bool, want: bool| {
        *cases += 1;
        if got != want {
            dev.push(json!({"what": format!("{what}: {} (expected {})", if got { "accepted" } else { "refused" }, if want { "accepted" } else { "refused" })}));
        }
    };
    // only keys whose fixture identifier is right take part (some fixtures are deliberately broken)
    let good: Vec<(String, Value)> = keys
        .iter()
        .filter(|(id, k)| serde_json::from_value::<Key>(k.clone()).ok().and_then(|key| key.key_id().ok()).map(|c| hex::encode(c.as_ref() as &[u8]) == id.to_lowercase()).unwrap_or(false))
        .cloned()
        .collect();
    for kind in ["root", "delegations"] {
        for (n, (id, k)) in good.iter().enumerate() {
            let kj = serde_json::to_string(k).unwrap();
            let ty = k["keytype"].as_str().unwrap_or("?").to_string();
            let one = |i: &str| format!(r#"{{"{i}":{kj}}}"#);
            check(&mut cases, format!("{kind} table, {ty} key under its own identifier"), parses(kind, &one(id), id), true);
            let up = id.to_uppercase();
            check(&mut cases, format!("{kind} table, {ty} key, identifier in upper-case hex"), parses(kind, &one(&up), &up), true);
            let mut flipped = id.clone().into_bytes();
            flipped[0] = if flipped[0] == b'0' { b'1' } else { b'0' };
            let flipped = String::from_utf8(flipped).unwrap();
            check(&mut cases, format!("{kind} table, {ty} key, first identifier digit changed"), parses(kind, &one(&flipped), &flipped), false);
            let mut last = id.clone().into_bytes();
            let l = last.len() - 1;
            last[l] = if last[l] == b'0' { b'1' } else { b'0' };
            let last = String::from_utf8(last).unwrap();
            check(&mut cases, format!("{kind} table, {ty} key, last identifier digit changed"), parses(kind, &one(&last), &last), false);
            for cut in [2usize, 32, 62, 64] {
                let t = &id[..id.len() - cut.min(id.len())];
                check(&mut cases, format!("{kind} table, {ty} key, identifier truncated to {} hex digits", t.len()), parses(kind, &one(t), t), false);
            }
            let ext = format!("{id}00");
            check(&mut cases, format!("{kind} table, {ty} key, identifier extended by one byte"), parses(kind, &one(&ext), &ext), false);
            let (oid, _) = &good[(n + 1) % good.len()];
            if oid != id {
                check(&mut cases, format!("{kind} table, {ty} key listed under another key's identifier"), parses(kind, &one(oid), oid), false);
            }
            let dup = format!(r#"{{"{id}":{kj},"{up}":{kj}}}"#);
            if up != *id {
                check(&mut cases, format!("{kind} table, {ty} key listed twice (identifier in both hex cases)"), parses(kind, &dup, id), false);
            }
            let dup2 = format!(r#"{{"{id}":{kj},"{id}":{kj}}}"#);
            check(&mut cases, format!("{kind} table, {ty} key listed twice under the same identifier"), parses(kind, &dup2, id), false);
            // unknown extra member inside the key: the identifier covers it
            let mut kx: Map<String, Value> = k.as_object().unwrap().clone();
            kx.insert("x-unknown-member".into(), json!({"a": [1, 2]}));
            let kxv = Value::Object(kx);
            if let Ok(parsed) = serde_json::from_value::<Key>(kxv.clone()) {
                let idx = hex::encode(parsed.key_id().unwrap().as_ref() as &[u8]);
                let kxj = serde_json::to_string(&kxv).unwrap();
                check(&mut cases, format!("{kind} table, {ty} key with an unknown member under the identifier of the whole key"), parses(kind, &format!(r#"{{"{idx}":{kxj}}}"#), &idx), true);
                check(&mut cases, format!("{kind} table, {ty} key with an unknown member under the identifier of the key without it"), parses(kind, &format!(r#"{{"{id}":{kxj}}}"#), id), idx == *id);
                // stability across parse / re-serialise / re-parse
                let again: Key = serde_json::from_slice(&serde_json::to_vec(&parsed).unwrap()).unwrap();
                check(&mut cases, format!("{ty} key with an unknown member: identifier stable across parse, re-serialise, re-parse (accepted = stable)"), again.key_id().unwrap() == parsed.key_id().unwrap(), true);
            }
            // the same at the `keyval` level, with the reference identifier computed independently of the library: SHA-256 of the OLPC canonical
            // form of the key object as it stands in the document
            for level in ["key", "keyval"] {
                let mut kv = k.clone();
                {
                    let obj = if level == "keyval" { kv["keyval"].as_object_mut() } else { kv.as_object_mut() };
                    match obj {
                        Some(o) => { o.insert("x-extra".into(), json!("kept")); }
                        None => continue,
                    }
                }
                let rid = ref_id(&kv);
                let kvj = serde_json::to_string(&kv).unwrap();
                check(&mut cases, format!("{kind} table, {ty} key with an unknown member at the {level} level, listed under the SHA-256 of its canonical form"), parses(kind, &format!(r#"{{"{rid}":{kvj}}}"#), &rid), true);
                if rid != *id {
                    check(&mut cases, format!("{kind} table, {ty} key with an unknown member at the {level} level, listed under the identifier of the key WITHOUT that member"), parses(kind, &format!(r#"{{"{id}":{kvj}}}"#), id), false);
                }
            }
            let parsed: Key = serde_json::from_value(k.clone()).unwrap();
            let again: Key = serde_json::from_slice(&serde_json::to_vec(&parsed).unwrap()).unwrap();
            check(&mut cases, format!("{ty} key {}: identifier stable across parse, re-serialise, re-parse (accepted = stable)", &id[..8]), hex::encode(again.key_id().unwrap().as_ref() as &[u8]) == id.to_lowercase(), true);
        }
    }
    dev.truncate(10);
    json!({"cases": cases, "keys": good.len(), "deviations": dev})
}

/// C01 replay of Key::verify wiring counterexamples: for every key type a root signed by a key of that type (by tough's own signer, and — for
/// ECDSA — by sigstore's tooling in the repository's fixtures) must verify under itself, and must stop verifying when one signature byte changes.
pub async fn op_key_types(_sc: Value) -> Value {
    use crate::roundtrip::K;
    let mut dev: Vec<Value> = vec![];
    let mut cases = 0;
    let rsa = std::fs::read("/repo/tough/tests/data/snakeoil.pem").ok();
    let mut keys: Vec<(&str, K)> = vec![
        ("ed25519", K(Ed25519KeyPair::generate_pkcs8(&SystemRandom::new()).unwrap().as_ref().to_vec())),
        ("ecdsa-sha2-nistp256", K(aws_lc_rs::signature::EcdsaKeyPair::generate_pkcs8(&aws_lc_rs::signature::ECDSA_P256_SHA256_ASN1_SIGNING, &SystemRandom::new()).unwrap().as_ref().to_vec())),
    ];
    if let Some(r) = rsa {
        keys.push(("rsassa-pss-sha256", K(r)));
    }
    for (what, k) in &keys {
        let mut table = HashMap::new();
        table.insert(k.id(), k.signer().tuf_key());
        let mut roles = HashMap::new();
        for rt in [RoleType::Root, RoleType::Timestamp, RoleType::Snapshot, RoleType::Targets] {
            roles.insert(rt, RoleKeys { keyids: vec![k.id()], threshold: nz(1), _extra: HashMap::new() });
        }
        let root = Root { spec_version: "1.0.0".into(), consistent_snapshot: false, version: nz(1), expires: far(), keys: table, roles, _extra: HashMap::new() };
        let data = root.canonical_form().unwrap();
        let sig = k.signer().sign(&data, &SystemRandom::new()).await.unwrap();
        let good = Signed { signed: root.clone(), signatures: vec![Signature { keyid: k.id(), sig: sig.clone().into() }] };
        cases += 1;
        if let Err(e) = root.verify_role(&good) {
            dev.push(json!({"what": format!("a root signed by its own {what} key (signature made by tough's signer over the canonical form) does not verify: {e}")}));
        }
        let mut bad_sig = sig.clone();
        let n = bad_sig.len();
        bad_sig[n / 2] ^= 0x01;
        let bad = Signed { signed: root.clone(), signatures: vec![Signature { keyid: k.id(), sig: bad_sig.into() }] };
        cases += 1;
        if root.verify_role(&bad).is_ok() {
            dev.push(json!({"what": format!("a root whose only {what} signature has one bit flipped still verifies")}));
        }
        cases += 1;
        let empty = Signed { signed: root.clone(), signatures: vec![Signature { keyid: k.id(), sig: Vec::new().into() }] };
        if root.verify_role(&empty).is_ok() {
            dev.push(json!({"what": format!("a root whose only {what} signature is empty verifies")}));
        }
    }
    // fixtures signed by other tooling
    for dir in ["hex-encoded-ecdsa-sig-keys", "pem-encoded-ecdsa-sig-keys", "ecdsa-new-type-sig-keys"] {
        let p = format!("/repo/tough/tests/data/{dir}/root.json");
        if let Ok(b) = std::fs::read(&p) {
            cases += 1;
            match serde_json::from_slice::<Signed<Root>>(&b) {
                Err(e) => dev.push(json!({"what": format!("fixture {dir}/root.json does not parse: {e}")})),
                Ok(r) => {
                    if let Err(e) = r.signed.verify_role(&r) {
                        dev.push(json!({"what": format!("fixture {dir}/root.json (ECDSA signatures made by other tooling) does not verify under its own keys: {e}")}));
                    }
                }
            }
        }
    }
    json!({"cases": cases, "deviations": dev})
}
