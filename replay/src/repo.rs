// Reusable generator of on-disk TUF repositories (C10 / C17 / C19 native validation): delegation trees, several keys and thresholds,
// unknown members at the top of every role's signed portion, custom data on targets, both consistent-snapshot settings.
use crate::names::ref_encode;
use crate::*;
use async_trait::async_trait;
use serde_json::Map;
use std::collections::BTreeMap;
use std::path::Path;
use tough::key_source::KeySource;

pub fn sha(b: &[u8]) -> Vec<u8> {
    aws_lc_rs::digest::digest(&aws_lc_rs::digest::SHA256, b).as_ref().to_vec()
}

/// in-memory signing key (pkcs8 document kept so that the pair can be rebuilt)
#[derive(Debug, Clone)]
pub struct MemKey(pub Vec<u8>);
impl MemKey {
    pub fn new() -> Self {
        MemKey(Ed25519KeyPair::generate_pkcs8(&SystemRandom::new()).unwrap().as_ref().to_vec())
    }
    pub fn pair(&self) -> Ed25519KeyPair {
        Ed25519KeyPair::from_pkcs8(&self.0).unwrap()
    }
}
#[async_trait]
impl KeySource for MemKey {
    async fn as_sign(&self) -> std::result::Result<Box<dyn Sign>, Box<dyn std::error::Error + Send + Sync + 'static>> {
        Ok(Box::new(self.pair()))
    }
    async fn write(&self, _v: &str, _k: &str) -> std::result::Result<(), Box<dyn std::error::Error + Send + Sync + 'static>> {
        Ok(())
    }
}

#[derive(Clone)]
pub struct TargetSpec {
    pub name: String,
    pub content: Vec<u8>,
    pub custom: Vec<(String, Value)>,
}
#[derive(Clone)]
pub struct RoleSpec {
    pub name: String,
    pub parent: Option<usize>,
    pub paths: Option<PathSet>,
    pub targets: Vec<TargetSpec>,
    pub extra: Vec<(String, Value)>,
    pub threshold: u64,
    pub nkeys: usize,
    pub nsign: usize,
    pub version: u64,
    pub terminating: bool,
}
#[derive(Clone)]
pub struct RepoSpec {
    pub consistent: bool,
    pub roles: Vec<RoleSpec>, // roles[0] is the top-level targets role
    pub snapshot_extra: Vec<(String, Value)>,
    pub timestamp_extra: Vec<(String, Value)>,
    pub root_version: u64,
    pub snapshot_version: u64,
    pub timestamp_version: u64,
}
pub struct BuiltRepo {
    pub root: Vec<u8>,
    pub root_latest: Vec<u8>,
    pub meta: BTreeMap<String, Vec<u8>>,         // file name in the metadata directory -> bytes
    pub target_files: BTreeMap<String, Vec<u8>>, // relative path in the targets directory -> bytes
    pub top_keys: Vec<MemKey>,                   // root, timestamp, snapshot, targets
    pub role_keys: Vec<Vec<MemKey>>,             // per role of the spec (index 0 = [targets key])
}

fn hm(v: &[(String, Value)]) -> HashMap<String, Value> {
    v.iter().cloned().collect()
}

pub fn role(name: &str, parent: Option<usize>, paths: Option<PathSet>) -> RoleSpec {
    RoleSpec { name: name.into(), parent, paths, targets: vec![], extra: vec![], threshold: 1, nkeys: 1, nsign: 1, version: 1, terminating: false }
}
pub fn glob(ps: &[&str]) -> Option<PathSet> {
    Some(PathSet::Paths(ps.iter().map(|p| PathPattern::new(*p).unwrap()).collect()))
}
pub fn tgt(name: &str, content: &[u8]) -> TargetSpec {
    TargetSpec { name: name.into(), content: content.to_vec(), custom: vec![] }
}

pub fn metafile(b: &[u8], version: u64) -> Metafile {
    Metafile { length: Some(b.len() as u64), hashes: Some(Hashes { sha256: sha(b).into(), _extra: HashMap::new() }), version: nz(version), _extra: HashMap::new() }
}

pub async fn build_repo(spec: &RepoSpec) -> BuiltRepo {
    let top_keys: Vec<MemKey> = (0..4).map(|_| MemKey::new()).collect();
    let mut role_keys: Vec<Vec<MemKey>> = spec.roles.iter().map(|r| (0..r.nkeys.max(1)).map(|_| MemKey::new()).collect()).collect();
    role_keys[0] = vec![top_keys[3].clone()];
    let mut docs: Vec<Targets> = vec![];
    let mut target_files = BTreeMap::new();
    for r in &spec.roles {
        let mut t = Targets::new("1.0.0".into(), nz(r.version), far());
        t.delegations = None;
        t._extra = hm(&r.extra);
        for ts in &r.targets {
            let h = sha(&ts.content);
            let tn = tough::TargetName::new(&ts.name).unwrap();
            let fname = if spec.consistent { format!("{}.{}", hex::encode(&h), tn.resolved()) } else { tn.resolved().to_string() };
            target_files.insert(fname, ts.content.clone());
            t.targets.insert(tn, Target { length: ts.content.len() as u64, hashes: Hashes { sha256: h.into(), _extra: HashMap::new() }, custom: hm(&ts.custom), _extra: HashMap::new() });
        }
        docs.push(t);
    }
    // delegations, deepest roles first so that parents embed nothing but the DelegatedRole entries
    for parent in (0..spec.roles.len()).rev() {
        let children: Vec<usize> = (0..spec.roles.len()).filter(|i| spec.roles[*i].parent == Some(parent)).collect();
        if children.is_empty() {
            continue;
        }
        let mut keys = HashMap::new();
        let mut droles = vec![];
        for c in children {
            let mut ids = vec![];
            for k in &role_keys[c] {
                let p = k.pair();
                keys.insert(kid(&p), p.tuf_key());
                ids.push(kid(&p));
            }
            let r = &spec.roles[c];
            droles.push(DelegatedRole { name: r.name.clone(), keyids: ids, threshold: nz(r.threshold), paths: r.paths.clone().unwrap(), terminating: r.terminating, targets: None });
        }
        docs[parent].delegations = Some(Delegations { keys, roles: droles });
    }
    let mut meta = BTreeMap::new();
    let mut sn = Snapshot::new("1.0.0".into(), nz(spec.snapshot_version), far());
    sn._extra = hm(&spec.snapshot_extra);
    let pfx = |v: u64, n: &str| if spec.consistent { format!("{v}.{n}") } else { n.to_string() };
    for (i, r) in spec.roles.iter().enumerate() {
        let pairs: Vec<Ed25519KeyPair> = role_keys[i].iter().take(r.nsign.max(1)).map(|k| k.pair()).collect();
        let refs: Vec<&Ed25519KeyPair> = pairs.iter().collect();
        let mut b = ser(&sign(docs[i].clone(), &refs).await);
        b.push(b'\n');
        let fname = if i == 0 { "targets.json".to_string() } else { format!("{}.json", r.name) };
        sn.meta.insert(fname, metafile(&b, r.version));
        let disk = if i == 0 { "targets.json".to_string() } else { format!("{}.json", ref_encode(&r.name)) };
        meta.insert(pfx(r.version, &disk), b);
    }
    let snp = top_keys[2].pair();
    let sb = ser(&sign(sn, &[&snp]).await);
    let mut ts = Timestamp::new("1.0.0".into(), nz(spec.timestamp_version), far());
    ts._extra = hm(&spec.timestamp_extra);
    ts.meta.insert("snapshot.json".into(), metafile(&sb, spec.snapshot_version));
    meta.insert(pfx(spec.snapshot_version, "snapshot.json"), sb);
    let tsp = top_keys[1].pair();
    meta.insert("timestamp.json".into(), ser(&sign(ts, &[&tsp]).await));
    let mut table: HashMap<Decoded<Hex>, Key> = HashMap::new();
    let mut rr = HashMap::new();
    for (i, rt) in [RoleType::Root, RoleType::Timestamp, RoleType::Snapshot, RoleType::Targets].into_iter().enumerate() {
        let p = top_keys[i].pair();
        table.insert(kid(&p), p.tuf_key());
        rr.insert(rt, RoleKeys { keyids: vec![kid(&p)], threshold: nz(1), _extra: HashMap::new() });
    }
    let rp = top_keys[0].pair();
    // every root version 1..=root_version (same keys); `root` is version 1 (what a client ships with), root_latest the newest
    let mut root = vec![];
    let mut root_latest = vec![];
    for v in 1..=spec.root_version.max(1) {
        let b = ser(&sign(Root { spec_version: "1.0.0".into(), consistent_snapshot: spec.consistent, version: nz(v), expires: far(), keys: table.clone(), roles: rr.clone(), _extra: HashMap::new() }, &[&rp]).await);
        meta.insert(format!("{v}.root.json"), b.clone());
        if v == 1 {
            root = b.clone();
        }
        root_latest = b;
    }
    BuiltRepo { root, root_latest, meta, target_files, top_keys, role_keys }
}

impl BuiltRepo {
    /// writes <dir>/metadata, <dir>/targets and <dir>/root.json
    pub fn write_to(&self, dir: &Path) {
        let md = dir.join("metadata");
        let td = dir.join("targets");
        std::fs::create_dir_all(&md).unwrap();
        std::fs::create_dir_all(&td).unwrap();
        for (n, b) in &self.meta {
            std::fs::write(md.join(n), b).unwrap();
        }
        for (n, b) in &self.target_files {
            let p = td.join(n);
            std::fs::create_dir_all(p.parent().unwrap()).unwrap();
            std::fs::write(p, b).unwrap();
        }
        std::fs::write(dir.join("root.json"), &self.root).unwrap();
    }
    pub fn all_keys(&self) -> Vec<Box<dyn KeySource>> {
        let mut v: Vec<Box<dyn KeySource>> = vec![];
        for k in &self.top_keys {
            v.push(Box::new(k.clone()));
        }
        for ks in &self.role_keys {
            for k in ks {
                v.push(Box::new(k.clone()));
            }
        }
        v
    }
}

pub fn dir_url(p: &Path) -> url::Url {
    url::Url::from_directory_path(p).unwrap()
}

/// `signed` portion of a metadata file as JSON
pub fn signed_of(bytes: &[u8]) -> Map<String, Value> {
    let v: Value = serde_json::from_slice(bytes).unwrap();
    v["signed"].as_object().cloned().unwrap_or_default()
}

/// a menu of repository shapes shared by the C10 / C17 / C19 sweeps; `seed` varies sizes and names
pub fn menu(seed: u64) -> Vec<(String, RepoSpec)> {
    let x = |k: &str| (k.to_string(), json!({"k": [1, 2, {"n": seed}], "s": "v"}));
    let big = |n: usize| (0..n).map(|i| ((i as u64 * 31 + seed) % 251) as u8).collect::<Vec<u8>>();
    let mut out = vec![];
    for consistent in [false, true] {
        // flat: no delegations, extras everywhere, custom data
        let mut top = role("targets", None, None);
        top.targets = vec![tgt("file1.txt", b"one"), TargetSpec { name: "dir/file 2.txt".into(), content: big(700), custom: vec![("owner".into(), json!("me")), ("n".into(), json!({"a": [1, 2]}))] }, tgt("unicodé-ß.bin", b"")];
        top.extra = vec![x("x-targets-extra")];
        top.version = 3;
        out.push((format!("flat/consistent={consistent}"), RepoSpec { consistent, roles: vec![top.clone()], snapshot_extra: vec![x("x-snapshot-extra")], timestamp_extra: vec![x("x-timestamp-extra")], root_version: 1, snapshot_version: 4, timestamp_version: 5 }));
        // delegation tree of depth 3, thresholds above one, a delegated file larger than targets.json
        let mut a = role("A", Some(0), glob(&["a/*", "a/**/*"]));
        a.targets = (0..40).map(|i| TargetSpec { name: format!("a/f{i}"), content: big(i * 7), custom: vec![("i".into(), json!(i))] }).collect();
        a.extra = vec![x("x-A-extra")];
        a.nkeys = 3;
        a.threshold = 2;
        a.nsign = 2;
        a.version = 2;
        let mut b = role("B role/with odd name", Some(0), Some(PathSet::PathHashPrefixes("0123456789abcdef".chars().map(|c| PathHashPrefix::new(c.to_string()).unwrap()).collect())));
        b.targets = vec![tgt("b/any", b"bbb")];
        let mut c = role("C", Some(1), glob(&["a/c/*"]));
        c.targets = vec![tgt("a/c/deep", &big(33))];
        c.extra = vec![x("x-C-extra")];
        c.nkeys = 2;
        c.nsign = 2;
        let mut d = role("D", Some(3), glob(&["a/c/d*"]));
        d.targets = vec![];
        // a third sibling whose name sorts BEFORE its elder siblings: the order of `delegations.roles` is the priority order of the lookup and
        // must survive an update as it is (not sorted, not keyed by name)
        let mut e = role("@ listed last, sorts first", Some(0), glob(&["e/*", "a/f1*"]));
        e.targets = vec![tgt("e/x", b"eee")];
        let mut top2 = top.clone();
        top2.targets.truncate(1);
        out.push((format!("tree/consistent={consistent}"), RepoSpec { consistent, roles: vec![top2, a, b, c, d, e], snapshot_extra: vec![x("x-snapshot-extra"), x("another")], timestamp_extra: vec![x("x-timestamp-extra")], root_version: 1, snapshot_version: 2, timestamp_version: 2 }));
        // no extras at all, empty targets
        out.push((format!("bare/consistent={consistent}"), RepoSpec { consistent, roles: vec![role("targets", None, None)], snapshot_extra: vec![], timestamp_extra: vec![], root_version: 1, snapshot_version: 1, timestamp_version: 1 }));
    }
    out
}
