// C10 native validation / replay: random editing programs against RepositoryEditor, sign, write, publish targets;
// a client holding the same root must load the result and see exactly what a reference model of the program says.
use crate::names::ref_encode;
use crate::repo::{dir_url, sha};
use crate::*;
use async_trait::async_trait;
use futures::StreamExt;
use std::collections::BTreeMap;
use std::path::{Path, PathBuf};
use tough::editor::signed::PathExists;
use tough::editor::RepositoryEditor;
use tough::key_source::KeySource;
use tough::{RepositoryLoader, TargetName};

/// a signing key of any supported algorithm, kept as the bytes tough's own parser accepts
#[derive(Debug, Clone)]
pub struct K(pub Vec<u8>);
impl K {
    pub fn signer(&self) -> Box<dyn Sign> {
        Box::new(tough::sign::parse_keypair(&self.0).unwrap())
    }
    pub fn id(&self) -> Decoded<Hex> {
        self.signer().tuf_key().key_id().unwrap()
    }
}
#[async_trait]
impl KeySource for K {
    async fn as_sign(&self) -> std::result::Result<Box<dyn Sign>, Box<dyn std::error::Error + Send + Sync + 'static>> {
        Ok(self.signer())
    }
    async fn write(&self, _v: &str, _k: &str) -> std::result::Result<(), Box<dyn std::error::Error + Send + Sync + 'static>> {
        Ok(())
    }
}

/// serves files the way a web server does: the request path is percent-decoded once, segment-wise, before it is mapped to a file
/// (only below `0`, the targets directory: metadata files are requested under their stored, already encoded names)
#[derive(Debug, Clone)]
pub struct DecodingFs(pub String);
pub fn pct_decode(s: &str) -> Vec<u8> {
    let b = s.as_bytes();
    let mut out = vec![];
    let mut i = 0;
    while i < b.len() {
        if b[i] == b'%' && i + 3 <= b.len() && s.is_char_boundary(i + 1) && s.is_char_boundary(i + 3) {
            if let Ok(v) = u8::from_str_radix(&s[i + 1..i + 3], 16) {
                out.push(v);
                i += 3;
                continue;
            }
        }
        out.push(b[i]);
        i += 1;
    }
    out
}
#[async_trait]
impl tough::Transport for DecodingFs {
    async fn fetch(&self, url: url::Url) -> std::result::Result<std::pin::Pin<Box<dyn futures::Stream<Item = std::result::Result<bytes::Bytes, tough::TransportError>> + Send>>, tough::TransportError> {
        use std::os::unix::ffi::OsStringExt;
        let p = if url.path().starts_with(&self.0) { PathBuf::from(std::ffi::OsString::from_vec(pct_decode(url.path()))) } else { PathBuf::from(url.path()) };
        match std::fs::read(&p) {
            Ok(b) => Ok(Box::pin(futures::stream::iter(b.chunks(4096).map(|c| Ok(bytes::Bytes::copy_from_slice(c))).collect::<Vec<_>>()))),
            Err(e) if e.kind() == std::io::ErrorKind::NotFound => Err(tough::TransportError::new(tough::TransportErrorKind::FileNotFound, url)),
            Err(_) => Err(tough::TransportError::new(tough::TransportErrorKind::Other, url)),
        }
    }
}

pub struct Rng(pub u64);
impl Rng {
    pub fn next(&mut self) -> u64 {
        self.0 ^= self.0 << 13;
        self.0 ^= self.0 >> 7;
        self.0 ^= self.0 << 17;
        self.0
    }
    pub fn below(&mut self, n: u64) -> u64 {
        self.next() % n.max(1)
    }
}

pub fn gen_key(rng: &mut Rng, allow_rsa: &mut Vec<Vec<u8>>) -> K {
    match rng.below(5) {
        0 | 1 => K(aws_lc_rs::signature::EcdsaKeyPair::generate_pkcs8(&aws_lc_rs::signature::ECDSA_P256_SHA256_ASN1_SIGNING, &SystemRandom::new()).unwrap().as_ref().to_vec()),
        2 if !allow_rsa.is_empty() => K(allow_rsa.pop().unwrap()),
        _ => K(Ed25519KeyPair::generate_pkcs8(&SystemRandom::new()).unwrap().as_ref().to_vec()),
    }
}

#[derive(Clone)]
struct MRole {
    parent: Option<String>,
    prefix: String,
    keys: Vec<K>,
    threshold: u64,
    version: u64,
    expires: DateTime<Utc>,
    targets: BTreeMap<String, Vec<u8>>,
    depth: usize,
}

async fn sign_root(root: Root, key: &K) -> Vec<u8> {
    let data = root.canonical_form().unwrap();
    let sig = key.signer().sign(&data, &SystemRandom::new()).await.unwrap();
    ser(&Signed { signed: root, signatures: vec![Signature { keyid: key.id(), sig: sig.into() }] })
}

fn names_pool(i: u64) -> String {
    let pool = ["file", "with space", "unicodé-ß", "dot.name.txt", "UPPER", "x"];
    format!("{}-{}", pool[(i % pool.len() as u64) as usize], i)
}

pub async fn op_editor_roundtrip(sc: Value) -> Value {
    let seed = sc["seed"].as_u64().unwrap_or(0);
    let nprog = sc["programs"].as_u64().unwrap_or(12);
    let mut dev: Vec<Value> = vec![];
    let mut encoded_name_cases = 0u64;
    let mut encoded_name_example: Option<Value> = None;
    let mut stats = json!({"programs": 0, "sign_ok": 0, "sign_refused": 0, "loaded": 0, "targets_read": 0, "roles": 0});
    for p in 0..nprog {
        let mut rng = Rng(0x9E3779B97F4A7C15 ^ (seed.wrapping_mul(1000003) + p + 1));
        let mut rsa: Vec<Vec<u8>> = ["snakeoil.pem", "snakeoil_2.pem"].iter().filter_map(|f| std::fs::read(format!("/repo/tough/tests/data/{f}")).ok()).collect();
        let consistent = rng.below(2) == 0;
        let link = rng.below(2) == 0;
        let inadequate = rng.below(5) == 0;
        let work = tempfile::tempdir().unwrap();
        let indir = work.path().join("in");
        std::fs::create_dir_all(&indir).unwrap();
        // ---- root with 1..3 keys per online role
        let rootkey = gen_key(&mut rng, &mut rsa);
        let mut table: HashMap<Decoded<Hex>, Key> = HashMap::new();
        let mut rr = HashMap::new();
        let mut top_keys: BTreeMap<&str, (Vec<K>, u64)> = BTreeMap::new();
        table.insert(rootkey.id(), rootkey.signer().tuf_key());
        rr.insert(RoleType::Root, RoleKeys { keyids: vec![rootkey.id()], threshold: nz(1), _extra: HashMap::new() });
        for (name, rt) in [("timestamp", RoleType::Timestamp), ("snapshot", RoleType::Snapshot), ("targets", RoleType::Targets)] {
            let n = 1 + rng.below(3);
            let ks: Vec<K> = (0..n).map(|_| gen_key(&mut rng, &mut rsa)).collect();
            let thr = 1 + rng.below(n);
            for k in &ks {
                table.insert(k.id(), k.signer().tuf_key());
            }
            rr.insert(rt, RoleKeys { keyids: ks.iter().map(|k| k.id()).collect(), threshold: nz(thr), _extra: HashMap::new() });
            top_keys.insert(name, (ks, thr));
        }
        let root_bytes = sign_root(Root { spec_version: "1.0.0".into(), consistent_snapshot: consistent, version: nz(1), expires: far(), keys: table, roles: rr, _extra: HashMap::new() }, &rootkey).await;
        let root_path = work.path().join("root.json");
        std::fs::write(&root_path, &root_bytes).unwrap();
        let mut all_keys: Vec<K> = vec![rootkey.clone()];
        for (ks, _) in top_keys.values() {
            all_keys.extend(ks.iter().cloned());
        }
        // ---- the program
        let mut model: BTreeMap<String, MRole> = BTreeMap::new();
        model.insert("targets".into(), MRole { parent: None, prefix: String::new(), keys: top_keys["targets"].0.clone(), threshold: top_keys["targets"].1, version: 1 + rng.below(1 << 20), expires: rel(86400 * (1 + rng.below(300) as i64)), targets: BTreeMap::new(), depth: 0 });
        let mut cur = "targets".to_string();
        let mut ed = RepositoryEditor::new(&root_path).await.unwrap();
        let mut log: Vec<String> = vec![format!("consistent={consistent} publish={} ", if link { "link" } else { "copy" })];
        let mut fail: Option<String> = None;
        let nops = 3 + rng.below(23);
        let mut counter = 0u64;
        let boxed = |ks: &[K]| -> Vec<Box<dyn KeySource>> { ks.iter().map(|k| Box::new(k.clone()) as Box<dyn KeySource>).collect() };
        macro_rules! setver {
            () => {{
                let r = model.get(&cur).unwrap();
                ed.targets_version(nz(r.version)).unwrap().targets_expires(r.expires).unwrap();
            }};
        }
        for _ in 0..nops {
            if fail.is_some() {
                break;
            }
            match rng.below(10) {
                0..=4 => {
                    // add a target under the current role's path prefix
                    counter += 1;
                    let size = match rng.below(4) { 0 => 0, 1 => rng.below(64), 2 => rng.below(4096), _ => rng.below(32 * 1024) } as usize;
                    let content: Vec<u8> = (0..size).map(|i| ((i as u64 * 131 + counter * 7 + seed) % 256) as u8).collect();
                    let r = model.get_mut(&cur).unwrap();
                    let name = format!("{}{}", r.prefix, names_pool(counter));
                    let t = Target { length: content.len() as u64, hashes: Hashes { sha256: sha(&content).into(), _extra: HashMap::new() }, custom: HashMap::new(), _extra: HashMap::new() };
                    match ed.add_target(TargetName::new(&name).unwrap(), t) {
                        Ok(_) => {
                            log.push(format!("{cur}: add {name:?} ({size} bytes)"));
                            r.targets.insert(name, content);
                        }
                        Err(e) => log.push(format!("{cur}: add {name:?} refused: {e}")),
                    }
                }
                5 => {
                    let r = model.get_mut(&cur).unwrap();
                    if let Some(name) = r.targets.keys().next().cloned() {
                        match ed.remove_target(&TargetName::new(&name).unwrap()) {
                            Ok(_) => {
                                log.push(format!("{cur}: remove {name:?}"));
                                r.targets.remove(&name);
                            }
                            Err(e) => log.push(format!("{cur}: remove refused: {e}")),
                        }
                    }
                }
                6 | 7 => {
                    // delegate a new role from the current one
                    let (depth, prefix) = { let r = &model[&cur]; (r.depth, r.prefix.clone()) };
                    if depth >= 3 {
                        continue;
                    }
                    counter += 1;
                    let name = format!("{}{}", ["role", "role with space", "rôle", "r.o/l\\e"][rng.below(4) as usize], counter);
                    let n = 1 + rng.below(3);
                    let ks: Vec<K> = (0..n).map(|_| gen_key(&mut rng, &mut rsa)).collect();
                    let thr = 1 + rng.below(n);
                    let cprefix = format!("{prefix}d{counter}/");
                    let version = 1 + rng.below(1000);
                    let expires = rel(86400 * (1 + rng.below(300) as i64));
                    let paths = PathSet::Paths(vec![PathPattern::new(format!("{cprefix}*")).unwrap()]);
                    match ed.delegate_role(&name, &boxed(&ks), paths, nz(thr), expires, nz(version)).await {
                        Ok(_) => {
                            log.push(format!("{cur}: delegate {name:?} paths {cprefix}* threshold {thr}/{n}"));
                            all_keys.extend(ks.iter().cloned());
                            model.insert(name, MRole { parent: Some(cur.clone()), prefix: cprefix, keys: ks, threshold: thr, version, expires, targets: BTreeMap::new(), depth: depth + 1 });
                        }
                        Err(e) => log.push(format!("{cur}: delegate {name:?} refused: {e}")),
                    }
                }
                _ => {
                    // switch to another role: sign the current one in place first
                    setver!();
                    if let Err(e) = ed.sign_targets_editor(&boxed(&all_keys)).await {
                        fail = Some(format!("sign_targets_editor({cur}) failed although every key was supplied: {e}"));
                        break;
                    }
                    let names: Vec<String> = model.keys().cloned().collect();
                    let next = names[rng.below(names.len() as u64) as usize].clone();
                    match ed.change_delegated_targets(&next) {
                        Ok(_) => {
                            log.push(format!("switch {cur} -> {next}"));
                            cur = next;
                            if rng.below(2) == 0 {
                                model.get_mut(&cur).unwrap().version += 1;
                            }
                        }
                        Err(e) => {
                            fail = Some(format!("change_delegated_targets({next:?}) failed: {e}"));
                            break;
                        }
                    }
                }
            }
        }
        stats["programs"] = json!(stats["programs"].as_u64().unwrap() + 1);
        macro_rules! push {
            ($what:expr, $log:expr) => {{
                let w: String = $what;
                dev.push(json!({"program": p, "seed": seed, "class": "roundtrip", "what": w, "log": $log}))
            }};
        }
        if let Some(f) = fail {
            // an operation sequence the editor refuses is not a violation of C10 unless every key was there and the sequence is legal; report as deviation of the generator
            push!(format!("editor refused a legal step: {f}"), &log);
            continue;
        }
        setver!();
        let (sv, tv) = (1 + rng.below(1 << 30), 1 + rng.below(1 << 30));
        let (se, te) = (rel(86400 * (2 + rng.below(100) as i64)), rel(86400 * (1 + rng.below(30) as i64)));
        ed.snapshot_version(nz(sv)).snapshot_expires(se).timestamp_version(nz(tv)).timestamp_expires(te);
        let mut signing: Vec<K> = if inadequate { all_keys.iter().enumerate().filter(|(i, _)| rng.below(3) != 0 || *i == 0).map(|(_, k)| k.clone()).collect() } else { all_keys.clone() };
        if inadequate && rng.below(2) == 0 {
            // the same key source given more than once must not count more than once towards a threshold
            let dup = signing.clone();
            signing.extend(dup);
        }
        log.push(format!("sign with {} of {} keys", signing.len(), all_keys.len()));
        let signed = match ed.sign(&boxed(&signing)).await {
            Ok(s) => s,
            Err(e) => {
                stats["sign_refused"] = json!(stats["sign_refused"].as_u64().unwrap() + 1);
                if !inadequate {
                    push!(format!("sign failed although every key was supplied: {e}"), &log);
                }
                continue;
            }
        };
        stats["sign_ok"] = json!(stats["sign_ok"].as_u64().unwrap() + 1);
        let md = work.path().join("metadata");
        let td = work.path().join("targets");
        if let Err(e) = signed.write(&md).await {
            push!(format!("write failed: {e}"), &log);
            continue;
        }
        // publish targets: one input file per target, named by the last path component; explicit target name
        let mut published = true;
        std::fs::create_dir_all(&td).unwrap();
        let mut n = 0;
        for r in model.values() {
            for (name, content) in &r.targets {
                n += 1;
                let inp = indir.join(format!("input-{n}"));
                std::fs::write(&inp, content).unwrap();
                let tn = TargetName::new(name).unwrap();
                let dest_parent: PathBuf = td.join(if consistent { format!("{}.{}", hex::encode(sha(content)), name) } else { name.clone() }).parent().unwrap().to_path_buf();
                std::fs::create_dir_all(&dest_parent).unwrap();
                let res = if link { signed.link_target(&inp, &td, PathExists::Skip, Some(&tn)).await } else { signed.copy_target(&inp, &td, PathExists::Skip, Some(&tn)).await };
                if let Err(e) = res {
                    published = false;
                    log.push(format!("publishing {name:?} refused: {e}"));
                }
            }
        }
        // ---- publication is checked against the signed digests: a file with other content (same length) must be refused for a listed name
        if let Some((name, content)) = model.values().flat_map(|r| r.targets.iter()).find(|(_, c)| !c.is_empty()) {
            let mut other = content.clone();
            other[0] ^= 0x5a;
            let inp = indir.join("wrong-content");
            std::fs::write(&inp, &other).unwrap();
            let td2 = work.path().join("targets-wrong");
            let tn = TargetName::new(name).unwrap();
            let dest_parent: PathBuf = td2.join(if consistent { format!("{}.{}", hex::encode(sha(&other)), name) } else { name.clone() }).parent().unwrap().to_path_buf();
            std::fs::create_dir_all(&dest_parent).unwrap();
            let res = if link { signed.link_target(&inp, &td2, PathExists::Replace, Some(&tn)).await } else { signed.copy_target(&inp, &td2, PathExists::Replace, Some(&tn)).await };
            if res.is_ok() {
                push!(format!("a file whose SHA-256 differs from the signed digest of {name:?} was published under that name ({})", if link { "link_target" } else { "copy_target" }), &log);
            }
        }
        // ---- publication by walking a directory (copy_targets / link_targets): the input directory holds the top-level targets under their
        // own names, some as regular files, some as symlinks to files elsewhere, some inside a symlinked sub-directory (what a directory
        // produced by link_targets looks like); if the walk reports success every one of them must have been published
        {
            let walk_in = work.path().join("walk-in");
            let store = work.path().join("walk-store");
            let store_dir = work.path().join("walk-store-dir");
            for d in [&walk_in, &store, &store_dir] {
                std::fs::create_dir_all(d).unwrap();
            }
            let mut expect: Vec<(String, Vec<u8>, &str)> = vec![];
            for (i, (name, content)) in model["targets"].targets.iter().filter(|(n, _)| !n.contains('/')).enumerate() {
                match i % 3 {
                    0 => {
                        std::fs::write(walk_in.join(name), content).unwrap();
                        expect.push((name.clone(), content.clone(), "regular file"));
                    }
                    1 => {
                        std::fs::write(store.join(name), content).unwrap();
                        std::os::unix::fs::symlink(store.join(name), walk_in.join(name)).unwrap();
                        expect.push((name.clone(), content.clone(), "symlink to a file"));
                    }
                    _ => {
                        std::fs::write(store_dir.join(name), content).unwrap();
                        expect.push((name.clone(), content.clone(), "file in a symlinked directory"));
                    }
                }
            }
            std::os::unix::fs::symlink(&store_dir, walk_in.join("linked-dir")).unwrap();
            std::fs::write(walk_in.join("not-a-target"), b"stray file").unwrap();
            let td3 = work.path().join("targets-walk");
            let res = if link { signed.link_targets(&walk_in, &td3, PathExists::Skip).await } else { signed.copy_targets(&walk_in, &td3, PathExists::Skip).await };
            match res {
                Err(e) => push!(format!("{} over a directory of genuine target files failed: {e}", if link { "link_targets" } else { "copy_targets" }), &log),
                Ok(()) => {
                    for (name, content, how) in &expect {
                        let dest = td3.join(if consistent { format!("{}.{}", hex::encode(sha(content)), name) } else { name.clone() });
                        match std::fs::read(&dest) {
                            Ok(b) if &b == content => {}
                            Ok(_) => push!(format!("{} reported success but {name:?} ({how}) was published with other bytes", if link { "link_targets" } else { "copy_targets" }), &log),
                            Err(_) => push!(format!("{} reported success but target {name:?}, present in the input directory as a {how}, was not published", if link { "link_targets" } else { "copy_targets" }), &log),
                        }
                    }
                    if td3.join("not-a-target").exists() {
                        push!("a file that is not a signed target was published by the directory walk".into(), &log);
                    }
                }
            }
        }
        // ---- the client
        // (a) through the stock file transport: target names that need percent-encoding in a URL are requested under their ENCODED name
        if published {
            if let Ok(r0) = RepositoryLoader::new(&root_bytes, dir_url(&md), dir_url(&td)).load().await {
                for r in model.values() {
                    for name in r.targets.keys() {
                        if let Err(e) = r0.read_target(&TargetName::new(name).unwrap()).await {
                            let needs = crate::names::ref_encode(&name.replace('/', "")) != name.replace('/', "");
                            let d = json!({"program": p, "seed": seed, "class": if needs { "file-transport-encoded-target-name" } else { "file-transport" },
                                           "what": format!("published target {name:?} cannot be fetched from the written directory through FilesystemTransport: {e}"), "log": log});
                            if needs {
                                encoded_name_cases += 1;
                                encoded_name_example.get_or_insert(d);
                            } else {
                                dev.push(d);
                            }
                            break;
                        }
                    }
                }
            }
        }
        // (b) through a transport that decodes the request path like a web server does
        let repo = match RepositoryLoader::new(&root_bytes, dir_url(&md), dir_url(&td)).transport(DecodingFs(dir_url(&td).path().to_string())).load().await {
            Ok(r) => r,
            Err(e) => {
                push!(format!("the editor reported success but the client cannot load the result: {e}"), &log);
                continue;
            }
        };
        stats["loaded"] = json!(stats["loaded"].as_u64().unwrap() + 1);
        if repo.timestamp().signed.version.get() != tv || repo.snapshot().signed.version.get() != sv || repo.timestamp().signed.expires != te || repo.snapshot().signed.expires != se {
            push!("timestamp/snapshot version or expiration differ from what was set".into(), &log);
        }
        // role by role
        fn find<'a>(t: &'a Targets, name: &str) -> Option<(&'a DelegatedRole, &'a Targets)> {
            for r in &t.delegations.as_ref()?.roles {
                let sub = &r.targets.as_ref()?.signed;
                if r.name == name {
                    return Some((r, sub));
                }
                if let Some(x) = find(sub, name) {
                    return Some(x);
                }
            }
            None
        }
        let top = &repo.targets().signed;
        for (name, m) in &model {
            stats["roles"] = json!(stats["roles"].as_u64().unwrap() + 1);
            let doc: &Targets = if name == "targets" {
                top
            } else {
                match find(top, name) {
                    Some((dr, doc)) => {
                        if dr.threshold.get() != m.threshold || dr.keyids.len() != m.keys.len() || !m.keys.iter().all(|k| dr.keyids.contains(&k.id())) {
                            push!(format!("delegation of {name:?}: threshold/keys differ from what was put in ({}/{} vs {}/{})", dr.threshold, dr.keyids.len(), m.threshold, m.keys.len()), &log);
                        }
                        if dr.paths != PathSet::Paths(vec![PathPattern::new(format!("{}*", m.prefix)).unwrap()]) {
                            push!(format!("delegation of {name:?}: paths differ"), &log);
                        }
                        let parent_ok = match m.parent.as_deref() {
                            Some("targets") => top.delegations.as_ref().map_or(false, |d| d.roles.iter().any(|r| &r.name == name)),
                            Some(pn) => find(top, pn).map_or(false, |(_, pd)| pd.delegations.as_ref().map_or(false, |d| d.roles.iter().any(|r| &r.name == name))),
                            None => true,
                        };
                        if !parent_ok {
                            push!(format!("role {name:?} is not delegated by {:?}", m.parent), &log);
                        }
                        doc
                    }
                    None => {
                        push!(format!("delegated role {name:?} is missing from the loaded repository"), &log);
                        continue;
                    }
                }
            };
            if doc.version.get() != m.version || doc.expires != m.expires {
                push!(format!("role {name:?}: version/expiration {}/{} differ from what was set {}/{}", doc.version, doc.expires, m.version, m.expires), &log);
            }
            let got: BTreeMap<String, (u64, Vec<u8>)> = doc.targets.iter().map(|(n, t)| (n.raw().to_string(), (t.length, t.hashes.sha256.to_vec()))).collect();
            let want: BTreeMap<String, (u64, Vec<u8>)> = m.targets.iter().map(|(n, c)| (n.clone(), (c.len() as u64, sha(c)))).collect();
            if got != want {
                push!(format!("role {name:?}: targets differ from what was put in: loaded {:?}, expected {:?}", got.keys().collect::<Vec<_>>(), want.keys().collect::<Vec<_>>()), &log);
            }
        }
        // no roles beyond the model
        let loaded_roles: Vec<String> = top.signed_delegated_targets().into_iter().map(|r| r.signed.name).collect();
        for r in &loaded_roles {
            if !model.contains_key(r) {
                push!(format!("unexpected delegated role {r:?}"), &log);
            }
        }
        // every published target downloads and verifies
        if published {
            for r in model.values() {
                for (name, content) in &r.targets {
                    match repo.read_target(&TargetName::new(name).unwrap()).await {
                        Ok(Some(mut s)) => {
                            let mut got = vec![];
                            let mut err = None;
                            while let Some(i) = s.next().await {
                                match i {
                                    Ok(b) => got.extend_from_slice(&b),
                                    Err(e) => { err = Some(e.to_string()); break; }
                                }
                            }
                            stats["targets_read"] = json!(stats["targets_read"].as_u64().unwrap() + 1);
                            if let Some(e) = err {
                                push!(format!("published target {name:?} does not verify: {e}"), &log);
                            } else if &got != content {
                                push!(format!("published target {name:?} reads back different bytes"), &log);
                            }
                        }
                        Ok(None) => push!(format!("target {name:?} is not found by the client"), &log),
                        Err(e) => push!(format!("read_target({name:?}) failed: {e}"), &log),
                    }
                }
            }
        }
        // snapshot / timestamp describe the written files exactly
        let file = |n: String| std::fs::read(md.join(n)).ok();
        let snap_name = if consistent { format!("{sv}.snapshot.json") } else { "snapshot.json".into() };
        match file(snap_name.clone()) {
            None => push!(format!("{snap_name} was not written"), &log),
            Some(sb) => {
                let tm = &repo.timestamp().signed.meta["snapshot.json"];
                if tm.length != Some(sb.len() as u64) || tm.hashes.as_ref().map(|h| h.sha256.to_vec()) != Some(sha(&sb)) || tm.version.get() != sv {
                    push!("timestamp.json does not describe the written snapshot.json exactly (version, length, SHA-256)".into(), &log);
                }
            }
        }
        for (mname, mf) in &repo.snapshot().signed.meta {
            let role = mname.strip_suffix(".json").unwrap_or(mname);
            let disk = if role == "targets" { "targets.json".to_string() } else { format!("{}.json", ref_encode(role)) };
            let disk = if consistent { format!("{}.{disk}", mf.version) } else { disk };
            match file(disk.clone()) {
                None => push!(format!("snapshot lists {mname:?} but {disk} was not written"), &log),
                Some(b) => {
                    if mf.length != Some(b.len() as u64) || mf.hashes.as_ref().map(|h| h.sha256.to_vec()) != Some(sha(&b)) {
                        push!(format!("snapshot.json does not describe the written {disk} exactly (length, SHA-256)"), &log);
                    }
                    let v: Value = serde_json::from_slice(&b).unwrap_or(Value::Null);
                    if v["signed"]["version"].as_u64() != Some(mf.version.get()) {
                        push!(format!("snapshot.json records version {} for {disk}, the file says {}", mf.version, v["signed"]["version"]), &log);
                    }
                }
            }
        }
        let listed: std::collections::BTreeSet<String> = repo.snapshot().signed.meta.keys().cloned().collect();
        let mut want_listed: std::collections::BTreeSet<String> = model.keys().filter(|n| *n != "targets").map(|n| format!("{n}.json")).collect();
        want_listed.insert("targets.json".into());
        if listed != want_listed {
            push!(format!("snapshot.json lists {listed:?}, expected {want_listed:?}"), &log);
        }
        if dev.len() > 8 {
            break;
        }
    }
    dev.truncate(8);
    if let Some(d) = encoded_name_example {
        dev.push(d);
    }
    stats["file_transport_encoded_name_cases"] = json!(encoded_name_cases);
    json!({"stats": stats, "deviations": dev})
}
