// C12 native sweep: documents signed the way another conforming implementation would (canonical JSON of the whole `signed` object, unknown
// members at every struct level) must load; every single-point mutation inside a signed portion must make the document unacceptable even when the
// parents are regenerated to match; re-formatting, member re-ordering and unrelated signature entries must not; a document signed for one role is not
// accepted as another role when both share a key.
use crate::repo::*;
use crate::*;
use olpc_cjson::CanonicalFormatter;
use serde_json::Map;
use std::collections::BTreeMap;
use tough::RepositoryLoader;

fn canon(v: &Value) -> Vec<u8> {
    let mut buf = Vec::new();
    let mut ser = serde_json::Serializer::with_formatter(&mut buf, CanonicalFormatter::new());
    v.serialize(&mut ser).unwrap();
    buf
}
async fn sign_value(signed: &Value, keys: &[&MemKey]) -> Value {
    let data = canon(signed);
    let mut sigs = vec![];
    for k in keys {
        let p = k.pair();
        let sig = Sign::sign(&p, &data, &SystemRandom::new()).await.unwrap();
        sigs.push(json!({"keyid": hex::encode(kid(&p)), "sig": hex::encode(sig)}));
    }
    json!({"signed": signed, "signatures": sigs})
}
const STRUCT_KEYS: [&str; 10] = ["_type", "length", "sha256", "keyids", "keytype", "public", "name", "threshold", "hashes", "scheme"];
fn inject(v: &mut Value, n: &mut u32) {
    inject_at(v, n, String::new(), &[], None)
}
/// insert an unknown member into every struct-level object (not into name-keyed maps, not into keys); `skip`: JSON pointers to leave alone;
/// `only`: if given, inject only at that pointer
fn inject_at(v: &mut Value, n: &mut u32, path: String, skip: &[String], only: Option<&str>) {
    match v {
        Value::Object(m) => {
            if m.contains_key("keytype") {
                return; // a key's id is the digest of the whole key object: leave keys as they are
            }
            let is_struct = STRUCT_KEYS.iter().any(|k| m.contains_key(*k)) || (m.contains_key("keys") && m.contains_key("roles"));
            for (k, c) in m.iter_mut() {
                inject_at(c, n, format!("{path}/{k}"), skip, only);
            }
            if is_struct && !skip.contains(&path) && only.map_or(true, |o| o == path) {
                *n += 1;
                m.insert(format!("x-unknown-{n}"), json!({"note": "kept by other implementations", "n": *n, "list": [1, "two", null]}));
            }
        }
        Value::Array(a) => {
            for (i, c) in a.iter_mut().enumerate() {
                inject_at(c, n, format!("{path}/{i}"), skip, only);
            }
        }
        _ => {}
    }
}
fn struct_levels(v: &Value, path: String, out: &mut Vec<String>) {
    match v {
        Value::Object(m) => {
            if m.contains_key("keytype") {
                return;
            }
            if STRUCT_KEYS.iter().any(|k| m.contains_key(*k)) || (m.contains_key("keys") && m.contains_key("roles")) {
                out.push(path.clone());
            }
            for (k, c) in m {
                struct_levels(c, format!("{path}/{k}"), out);
            }
        }
        Value::Array(a) => {
            for (i, c) in a.iter().enumerate() {
                struct_levels(c, format!("{path}/{i}"), out);
            }
        }
        _ => {}
    }
}
/// all single-point mutations of `v`: (description, mutated copy)
fn mutations(v: &Value, path: &str, out: &mut Vec<(String, Value)>, root: &Value, setter: &dyn Fn(&Value, Value) -> Value) {
    match v {
        Value::Object(m) => {
            // insertion and deletion of members
            let mut ins = m.clone();
            ins.insert("zz-inserted-member".into(), json!(1));
            out.push((format!("{path}: member inserted"), setter(root, Value::Object(ins))));
            for k in m.keys() {
                let mut del = m.clone();
                del.remove(k);
                out.push((format!("{path}/{k}: member deleted"), setter(root, Value::Object(del))));
            }
            for (k, c) in m {
                let p2 = format!("{path}/{k}");
                let k2 = k.clone();
                let m2 = m.clone();
                let set2 = move |r: &Value, nv: Value| {
                    let mut mm = m2.clone();
                    mm.insert(k2.clone(), nv);
                    setter(r, Value::Object(mm))
                };
                mutations(c, &p2, out, root, &set2);
            }
        }
        Value::Array(a) => {
            for (i, c) in a.iter().enumerate() {
                let a2 = a.clone();
                let set2 = move |r: &Value, nv: Value| {
                    let mut aa = a2.clone();
                    aa[i] = nv;
                    setter(r, Value::Array(aa))
                };
                mutations(c, &format!("{path}[{i}]"), out, root, &set2);
            }
            if !a.is_empty() {
                let mut shorter = a.clone();
                shorter.pop();
                out.push((format!("{path}: last element removed"), setter(root, Value::Array(shorter))));
            }
        }
        Value::String(s) => {
            let nv = if s.chars().all(|c| c.is_ascii_hexdigit()) && s.len() >= 2 {
                // keep it valid hex: flip the last digit
                let mut t = s.clone();
                let last = t.pop().unwrap();
                t.push(if last == '0' { '1' } else { '0' });
                t
            } else if s.contains('T') && s.ends_with('Z') {
                s.replacen("20", "21", 1)
            } else {
                format!("{s}x")
            };
            out.push((format!("{path}: string changed"), setter(root, Value::String(nv))));
            if s.chars().all(|c| c.is_ascii_hexdigit()) && s.chars().any(|c| c.is_ascii_lowercase()) {
                // the same bytes in another spelling: the parser keeps the spelling, so the signed form must change with it
                out.push((format!("{path}: hex digits changed to upper case"), setter(root, Value::String(s.to_ascii_uppercase()))));
            }
        }
        Value::Number(n) => out.push((format!("{path}: number changed"), setter(root, json!(n.as_u64().unwrap_or(0) + 1)))),
        Value::Bool(b) => out.push((format!("{path}: boolean flipped"), setter(root, json!(!b)))),
        Value::Null => out.push((format!("{path}: null replaced"), setter(root, json!(0)))),
    }
}

/// mutations that change nothing the client exposes or acts on: the `_type` member of the input is ignored (the tag in the verified form comes
/// from the Rust type), and a member inserted at a level whose unknown members the parser does not keep is simply not seen
fn tolerated(desc: &str, dropped_levels: &[String]) -> bool {
    if desc.starts_with("signed/_type:") {
        return true;
    }
    if let Some(level) = desc.strip_suffix(": member inserted") {
        let ptr = level.trim_start_matches("signed").replace('[', "/").replace(']', "");
        return dropped_levels.iter().any(|d| *d == ptr);
    }
    false
}

struct World {
    consistent: bool,
    keys: Vec<MemKey>, // root, timestamp, snapshot, targets, delegated
    root: Vec<u8>,
    targets_signed: Value,
    deleg_signed: Value,
    snapshot_extra: Value,
}
impl World {
    /// assemble metadata given (possibly mutated) documents; parents are regenerated from the children they describe
    async fn files(&self, deleg_doc: &Value, targets_doc: &Value, snapshot_doc: Option<&Value>, timestamp_doc: Option<&Value>) -> BTreeMap<String, Vec<u8>> {
        let mut f = BTreeMap::new();
        let db = serde_json::to_vec_pretty(deleg_doc).unwrap();
        let tb = serde_json::to_vec_pretty(targets_doc).unwrap();
        let meta = |b: &[u8], v: u64| json!({"length": b.len(), "hashes": {"sha256": hex::encode(sha(b))}, "version": v});
        let tv = targets_doc["signed"]["version"].as_u64().unwrap_or(1);
        let dv = deleg_doc["signed"]["version"].as_u64().unwrap_or(1);
        let own_sn;
        let sn_doc = match snapshot_doc {
            Some(d) => d,
            None => {
                let mut s = self.snapshot_extra.clone();
                s["meta"] = json!({"targets.json": meta(&tb, tv), "A.json": meta(&db, dv)});
                own_sn = sign_value(&s, &[&self.keys[2]]).await;
                &own_sn
            }
        };
        let sb = serde_json::to_vec_pretty(sn_doc).unwrap();
        let sv = sn_doc["signed"]["version"].as_u64().unwrap_or(1);
        let own_ts;
        let ts_doc = match timestamp_doc {
            Some(d) => d,
            None => {
                let t = json!({"_type": "timestamp", "spec_version": "1.0.0", "version": 9, "expires": "2099-01-01T00:00:00Z", "meta": {"snapshot.json": meta(&sb, sv)}, "x-unknown-ts": {"a": 1}});
                own_ts = sign_value(&t, &[&self.keys[1]]).await;
                &own_ts
            }
        };
        let pfx = |v: u64, n: &str| if self.consistent { format!("{v}.{n}") } else { n.to_string() };
        f.insert(pfx(dv, "A.json"), db);
        f.insert(pfx(tv, "targets.json"), tb);
        f.insert(pfx(sv, "snapshot.json"), sb);
        f.insert("timestamp.json".into(), serde_json::to_vec_pretty(ts_doc).unwrap());
        f
    }
    async fn loads(&self, files: &BTreeMap<String, Vec<u8>>) -> std::result::Result<(), String> {
        let d = tempfile::tempdir().unwrap();
        let md = d.path().join("metadata");
        std::fs::create_dir_all(&md).unwrap();
        std::fs::create_dir_all(d.path().join("targets")).unwrap();
        for (n, b) in files {
            std::fs::write(md.join(n), b).unwrap();
        }
        RepositoryLoader::new(&self.root, dir_url(&md), dir_url(&d.path().join("targets"))).load().await.map(|_| ()).map_err(|e| e.to_string())
    }
}

pub async fn op_mutate_signed(sc: Value) -> Value {
    let thorough = sc["thorough"].as_bool().unwrap_or(false);
    let mut dev: Vec<Value> = vec![];
    let mut stats = json!({"mutations": 0, "rejected": 0, "benign_accepted": 0, "base_loads": 0});
    let mut cases = 0u64;
    for consistent in [false, true] {
        let keys: Vec<MemKey> = (0..5).map(|_| MemKey::new()).collect();
        let kidhex = |i: usize| hex::encode(kid(&keys[i].pair()));
        let keyjson = |i: usize| serde_json::to_value(keys[i].pair().tuf_key()).unwrap();
        // root: snapshot and timestamp share key 1 as well (for the role-swap case key 1 is authorised for both)
        let mut rootv = json!({"_type": "root", "spec_version": "1.0.0", "consistent_snapshot": consistent, "version": 1, "expires": "2099-01-01T00:00:00Z",
            "keys": {kidhex(0): keyjson(0), kidhex(1): keyjson(1), kidhex(2): keyjson(2), kidhex(3): keyjson(3)},
            "roles": {"root": {"keyids": [kidhex(0)], "threshold": 1}, "timestamp": {"keyids": [kidhex(1)], "threshold": 1}, "snapshot": {"keyids": [kidhex(2), kidhex(1)], "threshold": 1}, "targets": {"keyids": [kidhex(3)], "threshold": 1}}});
        let mut n = 0u32;
        inject(&mut rootv, &mut n);
        let root = serde_json::to_vec_pretty(&sign_value(&rootv, &[&keys[0]]).await).unwrap();
        let c1 = b"content one".to_vec();
        let c2 = b"second".to_vec();
        let mut deleg = json!({"_type": "targets", "spec_version": "1.0.0", "version": 3, "expires": "2099-01-01T00:00:00Z",
            "targets": {"a/one": {"length": c1.len(), "hashes": {"sha256": hex::encode(sha(&c1))}, "custom": {"k": [1, 2, {"deep": true}]}}}});
        let mut targets = json!({"_type": "targets", "spec_version": "1.0.0", "version": 5, "expires": "2099-01-01T00:00:00Z",
            "targets": {"top": {"length": c2.len(), "hashes": {"sha256": hex::encode(sha(&c2))}}},
            "delegations": {"keys": {kidhex(4): keyjson(4)}, "roles": [{"name": "A", "keyids": [kidhex(4)], "threshold": 1, "paths": ["a/*"], "terminating": false}]}});
        let mut snapshot_extra = json!({"_type": "snapshot", "spec_version": "1.0.0", "version": 7, "expires": "2099-01-01T00:00:00Z", "meta": {}});
        inject(&mut deleg, &mut n);
        inject(&mut snapshot_extra, &mut n);
        // which struct levels of targets.json keep an unknown member (TUF: unknown members must be kept and covered by the signature)?
        let mut levels = vec![];
        struct_levels(&targets, String::new(), &mut levels);
        let mut dropped: Vec<String> = vec![];
        {
            let w0 = World { consistent, keys: keys.clone(), root: root.clone(), targets_signed: targets.clone(), deleg_signed: deleg.clone(), snapshot_extra: snapshot_extra.clone() };
            let dd = sign_value(&w0.deleg_signed, &[&keys[4]]).await;
            for lv in &levels {
                cases += 1;
                let mut t1 = targets.clone();
                let mut k = 1000u32;
                inject_at(&mut t1, &mut k, String::new(), &[], Some(lv.as_str()));
                let td = sign_value(&t1, &[&keys[3]]).await;
                let files = w0.files(&dd, &td, None, None).await;
                if let Err(e) = w0.loads(&files).await {
                    dropped.push(lv.clone());
                    dev.push(json!({"class": "foreign-extra-members", "level": lv, "what": format!("consistent={consistent}: targets.json carrying an unknown member in the object at `signed{lv}`, signed over its full canonical form as another implementation would, is refused: {e}")}));
                }
            }
        }
        inject_at(&mut targets, &mut n, String::new(), &dropped, None);
        let w = World { consistent, keys: keys.clone(), root, targets_signed: targets.clone(), deleg_signed: deleg.clone(), snapshot_extra };
        let deleg_doc = sign_value(&w.deleg_signed, &[&keys[4]]).await;
        let targets_doc = sign_value(&w.targets_signed, &[&keys[3]]).await;
        // ---- base: documents with unknown members at every level, signed over their full canonical form, must load
        let base = w.files(&deleg_doc, &targets_doc, None, None).await;
        cases += 1;
        match w.loads(&base).await {
            Ok(()) => stats["base_loads"] = json!(stats["base_loads"].as_u64().unwrap() + 1),
            Err(e) => {
                dev.push(json!({"class": "foreign-extra-members", "what": format!("consistent={consistent}: documents carrying unknown members at every level, signed over their full canonical form, do not load: {e}")}));
                continue;
            }
        }
        // ---- key objects (left alone by the injection above because a key's id is the digest of the whole key object):
        // (1) a member slipped into a key (or its keyval) of a signed document, signatures kept, must make the document unacceptable;
        // (2) a key that carries an unknown member from the start — id computed over the whole key as another implementation would — must be usable
        for (lvl, in_keyval) in [("/keys/ID/keyval", true), ("/keys/ID", false)] {
            let id4 = kidhex(4);
            cases += 1;
            let mut m1 = targets_doc.clone();
            {
                let k = &mut m1["signed"]["delegations"]["keys"][&id4];
                let obj = if in_keyval { &mut k["keyval"] } else { k };
                obj.as_object_mut().unwrap().insert("zz-inserted-member".into(), json!("not signed by anybody"));
            }
            let files = w.files(&deleg_doc, &m1, None, None).await;
            if w.loads(&files).await.is_ok() {
                dev.push(json!({"class": "key-member-mutation-accepted", "level": lvl, "what": format!("consistent={consistent}: targets.json with a member inserted into the object at `signed/delegations{}` and its original signatures is accepted (parents regenerated to match)", lvl.replace("ID", &id4[..8]))}));
            }
            cases += 1;
            let mut t2 = w.targets_signed.clone();
            let mut kobj = t2["delegations"]["keys"][&id4].clone();
            {
                let obj = if in_keyval { &mut kobj["keyval"] } else { &mut kobj };
                obj.as_object_mut().unwrap().insert("x-unknown-key-member".into(), json!({"kept": true}));
            }
            let newid = hex::encode(sha(&canon(&kobj)));
            {
                let keysmap = t2["delegations"]["keys"].as_object_mut().unwrap();
                keysmap.remove(&id4);
                keysmap.insert(newid.clone(), kobj);
            }
            t2["delegations"]["roles"][0]["keyids"] = json!([newid.clone()]);
            let td2 = sign_value(&t2, &[&keys[3]]).await;
            let mut dd2 = deleg_doc.clone();
            dd2["signatures"][0]["keyid"] = json!(newid);
            let files = w.files(&dd2, &td2, None, None).await;
            if let Err(e) = w.loads(&files).await {
                dev.push(json!({"class": "foreign-key-extra-member-refused", "level": lvl, "what": format!("consistent={consistent}: a delegation key carrying an unknown member in the object at `{lvl}` (key id = digest of the whole key, as another implementation computes it) is refused: {e}")}));
            }
        }
        // ---- values whose spelling matters to the client although a lossy writer could fold it: a hashed-bin delegation (`path_hash_prefixes`)
        // whose hex prefixes are changed to upper case after signing (an upper-case prefix matches no digest, so the delegation is switched off)
        {
            let mut t3 = w.targets_signed.clone();
            {
                let role = t3["delegations"]["roles"][0].as_object_mut().unwrap();
                role.remove("paths");
                role.insert("path_hash_prefixes".into(), json!(["ab", "0c", "ff"]));
            }
            let mut d3 = w.deleg_signed.clone();
            d3["targets"] = json!({});
            let dd3 = sign_value(&d3, &[&keys[4]]).await;
            let td3 = sign_value(&t3, &[&keys[3]]).await;
            cases += 1;
            match w.loads(&w.files(&dd3, &td3, None, None).await).await {
                Err(e) => dev.push(json!({"class": "hash-prefix-delegation-refused", "what": format!("consistent={consistent}: a correctly signed targets.json delegating by path_hash_prefixes does not load: {e}")})),
                Ok(()) => {
                    cases += 1;
                    let mut m3 = td3.clone();
                    m3["signed"]["delegations"]["roles"][0]["path_hash_prefixes"] = json!(["AB", "0C", "FF"]);
                    if w.loads(&w.files(&dd3, &m3, None, None).await).await.is_ok() {
                        dev.push(json!({"class": "mutation-accepted", "what": format!("consistent={consistent}: targets.json whose path_hash_prefixes were changed from [\"ab\",\"0c\",\"ff\"] to upper case after signing (original signatures kept, parents regenerated) is accepted: the client now sees a delegation that matches nothing")}));
                    }
                }
            }
        }
        // ---- benign changes: re-formatting, member order, unrelated signatures
        for (what, f) in [("compact formatting", 0), ("an unrelated extra signature entry", 1), ("extra whitespace and reversed member order", 2)] {
            cases += 1;
            let mut t2 = targets_doc.clone();
            let bytes = match f {
                0 => serde_json::to_vec(&t2).unwrap(),
                1 => {
                    t2["signatures"].as_array_mut().unwrap().push(json!({"keyid": "ab".repeat(32), "sig": "cd".repeat(64)}));
                    serde_json::to_vec_pretty(&t2).unwrap()
                }
                _ => {
                    // reversed order at the top two levels, written by hand
                    let obj = t2.as_object().unwrap();
                    let mut s = String::from("{ \n");
                    let mut first = true;
                    for (k, v) in obj.iter().rev() {
                        if !first { s.push_str(" ,\n") }
                        first = false;
                        if let Value::Object(inner) = v {
                            s.push_str(&format!("  {:?} : {{", k));
                            let mut f2 = true;
                            for (k2, v2) in inner.iter().rev() {
                                if !f2 { s.push(',') }
                                f2 = false;
                                s.push_str(&format!("\n\t{:?}:\t{}", k2, serde_json::to_string(v2).unwrap()));
                            }
                            s.push_str("\n  }");
                        } else {
                            s.push_str(&format!("  {:?} : {}", k, serde_json::to_string(v).unwrap()));
                        }
                    }
                    s.push_str("\n}\n");
                    s.into_bytes()
                }
            };
            // regenerate parents for these bytes
            let reparsed: Value = serde_json::from_slice(&bytes).unwrap();
            let mut files = w.files(&deleg_doc, &reparsed, None, None).await;
            // files() re-serialises targets pretty; put the exact bytes in and fix the snapshot to describe them
            let tv = 5u64;
            let tname = if consistent { format!("{tv}.targets.json") } else { "targets.json".into() };
            files.insert(tname.clone(), bytes.clone());
            let db = files[&if consistent { "3.A.json".to_string() } else { "A.json".to_string() }].clone();
            let meta = |b: &[u8], v: u64| json!({"length": b.len(), "hashes": {"sha256": hex::encode(sha(b))}, "version": v});
            let mut s = w.snapshot_extra.clone();
            s["meta"] = json!({"targets.json": meta(&bytes, tv), "A.json": meta(&db, 3)});
            let sn = sign_value(&s, &[&keys[2]]).await;
            let files2 = w.files(&deleg_doc, &reparsed, Some(&sn), None).await;
            let mut files2 = files2;
            files2.insert(tname, bytes);
            match w.loads(&files2).await {
                Ok(()) => stats["benign_accepted"] = json!(stats["benign_accepted"].as_u64().unwrap() + 1),
                Err(e) => dev.push(json!({"class": "benign-change-rejected", "what": format!("consistent={consistent}: targets.json with {what} (signed content unchanged) is refused: {e}")})),
            }
        }
        // ---- single-point mutations inside the signed portion of each document, parents regenerated to match
        let docs: Vec<(&str, Value)> = vec![("A.json", deleg_doc.clone()), ("targets.json", targets_doc.clone())];
        for (which, doc) in docs {
            let mut muts = vec![];
            let signed = doc["signed"].clone();
            let d0 = doc.clone();
            let setter = move |_r: &Value, nv: Value| {
                let mut d = d0.clone();
                d["signed"] = nv;
                d
            };
            mutations(&signed, "signed", &mut muts, &signed, &setter);
            if !thorough {
                // quick: every 3rd mutation
                muts = muts.into_iter().enumerate().filter(|(i, _)| i % 3 == 0).map(|(_, m)| m).collect();
            }
            for (desc, mutated) in muts {
                cases += 1;
                stats["mutations"] = json!(stats["mutations"].as_u64().unwrap() + 1);
                let files = if which == "A.json" { w.files(&mutated, &targets_doc, None, None).await } else { w.files(&deleg_doc, &mutated, None, None).await };
                match w.loads(&files).await {
                    Err(_) => stats["rejected"] = json!(stats["rejected"].as_u64().unwrap() + 1),
                    Ok(()) if tolerated(&desc, &dropped) => stats["tolerated_without_effect"] = json!(stats["tolerated_without_effect"].as_u64().unwrap_or(0) + 1),
                    Ok(()) => dev.push(json!({"class": "mutation-accepted", "what": format!("consistent={consistent}: {which} with `{desc}` and its original signatures is accepted (parents regenerated to match)")})),
                }
                if dev.len() > 8 { break; }
            }
        }
        // snapshot and timestamp: mutate their own signed portion
        {
            let mut s = w.snapshot_extra.clone();
            let files0 = w.files(&deleg_doc, &targets_doc, None, None).await;
            let tname = if consistent { "5.targets.json" } else { "targets.json" };
            let dname = if consistent { "3.A.json" } else { "A.json" };
            let meta = |b: &[u8], v: u64| json!({"length": b.len(), "hashes": {"sha256": hex::encode(sha(b))}, "version": v});
            s["meta"] = json!({"targets.json": meta(&files0[tname], 5), "A.json": meta(&files0[dname], 3)});
            let sn = sign_value(&s, &[&keys[2]]).await;
            let mut muts = vec![];
            let signed = sn["signed"].clone();
            let d0 = sn.clone();
            let setter = move |_r: &Value, nv: Value| { let mut d = d0.clone(); d["signed"] = nv; d };
            mutations(&signed, "signed", &mut muts, &signed, &setter);
            if !thorough { muts = muts.into_iter().enumerate().filter(|(i, _)| i % 3 == 1).map(|(_, m)| m).collect(); }
            for (desc, mutated) in muts {
                cases += 1;
                stats["mutations"] = json!(stats["mutations"].as_u64().unwrap() + 1);
                let files = w.files(&deleg_doc, &targets_doc, Some(&mutated), None).await;
                match w.loads(&files).await {
                    Err(_) => stats["rejected"] = json!(stats["rejected"].as_u64().unwrap() + 1),
                    Ok(()) if tolerated(&desc, &dropped) => stats["tolerated_without_effect"] = json!(stats["tolerated_without_effect"].as_u64().unwrap_or(0) + 1),
                    Ok(()) => dev.push(json!({"class": "mutation-accepted", "what": format!("consistent={consistent}: snapshot.json with `{desc}` and its original signatures is accepted")})),
                }
            }
            // ---- role swap: a snapshot document (also listing snapshot.json) signed by key 1, which is authorised for snapshot AND timestamp, served as timestamp.json
            cases += 1;
            let sb = serde_json::to_vec_pretty(&sn).unwrap();
            let mut swap = s.clone();
            swap["meta"]["snapshot.json"] = meta(&sb, 7);
            swap["version"] = json!(9);
            let as_ts = sign_value(&swap, &[&keys[1]]).await; // _type is "snapshot"
            let files = w.files(&deleg_doc, &targets_doc, Some(&sn), Some(&as_ts)).await;
            if w.loads(&files).await.is_ok() {
                dev.push(json!({"class": "role-swap", "what": format!("consistent={consistent}: a document signed as _type=snapshot by a key authorised for both roles is accepted as timestamp.json")}));
            }
            // and the same content with the tag rewritten but the old signature kept
            cases += 1;
            let mut retag = as_ts.clone();
            retag["signed"]["_type"] = json!("timestamp");
            let files = w.files(&deleg_doc, &targets_doc, Some(&sn), Some(&retag)).await;
            if w.loads(&files).await.is_ok() {
                dev.push(json!({"class": "role-swap", "what": format!("consistent={consistent}: a snapshot-signed document whose _type was rewritten to timestamp (signature kept) is accepted as timestamp.json")}));
            }
        }
    }
    dev.truncate(10);
    let _ = Map::<String, Value>::new();
    json!({"cases": cases, "stats": stats, "deviations": dev})
}
