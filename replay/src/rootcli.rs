// C20 helpers for the tuftool-root CLI sweep: key files in the formats tuftool accepts, and an independent inspection of a root.json.
use crate::*;
use tough::schema::RoleType;

/// {"dir": "...", "n": k} -> writes key files key0..key{k-1} (Ed25519 / ECDSA pkcs8 DER, alternating); returns their key ids (hex)
pub fn op_gen_keyfiles(sc: Value) -> Value {
    let dir = std::path::PathBuf::from(sc["dir"].as_str().unwrap());
    let n = sc["n"].as_u64().unwrap_or(3);
    let mut out = vec![];
    for i in 0..n {
        let bytes: Vec<u8> = if i % 2 == 0 {
            Ed25519KeyPair::generate_pkcs8(&SystemRandom::new()).unwrap().as_ref().to_vec()
        } else {
            aws_lc_rs::signature::EcdsaKeyPair::generate_pkcs8(&aws_lc_rs::signature::ECDSA_P256_SHA256_ASN1_SIGNING, &SystemRandom::new()).unwrap().as_ref().to_vec()
        };
        let p = dir.join(format!("key{i}"));
        std::fs::write(&p, &bytes).unwrap();
        let kp = tough::sign::parse_keypair(&bytes).unwrap();
        out.push(json!({"path": p.to_string_lossy(), "id": hex::encode(kp.tuf_key().key_id().unwrap())}));
    }
    for f in ["snakeoil.pem", "snakeoil_2.pem"] {
        if let Ok(bytes) = std::fs::read(format!("/repo/tough/tests/data/{f}")) {
            let p = dir.join(f);
            std::fs::write(&p, &bytes).unwrap();
            let kp = tough::sign::parse_keypair(&bytes).unwrap();
            out.push(json!({"path": p.to_string_lossy(), "id": hex::encode(kp.tuf_key().key_id().unwrap())}));
        }
    }
    json!({"keys": out})
}

/// {"path": "root.json"} -> what an independent reader sees
pub fn op_root_check(sc: Value) -> Value {
    let bytes = match std::fs::read(sc["path"].as_str().unwrap()) {
        Ok(b) => b,
        Err(e) => return json!({"exists": false, "error": e.to_string()}),
    };
    let digest = hex::encode(aws_lc_rs::digest::digest(&aws_lc_rs::digest::SHA256, &bytes).as_ref());
    let root: Signed<Root> = match serde_json::from_slice(&bytes) {
        Ok(r) => r,
        Err(e) => return json!({"exists": true, "parses": false, "error": e.to_string(), "sha256": digest}),
    };
    let mut keyids_ok = true;
    for (id, key) in &root.signed.keys {
        if key.key_id().map(|k| k != *id).unwrap_or(true) {
            keyids_ok = false;
        }
    }
    let mut roles = serde_json::Map::new();
    for (rt, rk) in &root.signed.roles {
        roles.insert(rt.to_string(), json!({"threshold": rk.threshold.get(), "keyids": rk.keyids.iter().map(|k| hex::encode(k)).collect::<Vec<_>>()}));
    }
    let self_verifies = root.signed.verify_role(&root).is_ok();
    json!({"exists": true, "parses": true, "sha256": digest, "keyids_ok": keyids_ok, "version": root.signed.version.get(), "expires": root.signed.expires.to_rfc3339(),
           "keys": root.signed.keys.keys().map(|k| hex::encode(k)).collect::<Vec<_>>(), "roles": roles,
           "signatures": root.signatures.iter().map(|s| hex::encode(&s.keyid)).collect::<Vec<_>>(), "self_verifies": self_verifies,
           "has_root_role": root.signed.roles.contains_key(&RoleType::Root)})
}
