// C17 native validation / replay: load a repository, pass it through RepositoryEditor::from_repo, set versions and expirations,
// optionally add targets, sign, write; compare the written metadata member by member with the input.
use crate::repo::*;
use crate::*;
use tough::editor::RepositoryEditor;
use tough::{RepositoryLoader, TargetName};

fn find_file<'a>(dir: &std::path::Path, suffix: &str) -> Option<Vec<u8>> {
    // newest version prefix wins (consistent snapshots leave N.name.json files)
    let mut best: Option<(u64, std::path::PathBuf)> = None;
    for e in std::fs::read_dir(dir).ok()? {
        let p = e.ok()?.path();
        let n = p.file_name()?.to_str()?.to_string();
        if n == suffix {
            if best.is_none() {
                best = Some((0, p.clone()));
            }
        } else if let Some(rest) = n.strip_suffix(suffix) {
            if let Some(v) = rest.strip_suffix('.').and_then(|v| v.parse::<u64>().ok()) {
                if best.as_ref().map_or(true, |b| v >= b.0) {
                    best = Some((v, p.clone()));
                }
            }
        }
    }
    best.and_then(|(_, p)| std::fs::read(p).ok())
}

pub async fn op_update_preserves(sc: Value) -> Value {
    let seed = sc["seed"].as_u64().unwrap_or(0);
    let mut dev: Vec<Value> = vec![];
    let mut cases = 0usize;
    for (label, spec) in menu(seed) {
        for nadd in [0usize, 1, 3] {
            cases += 1;
            let built = build_repo(&spec).await;
            let src = tempfile::tempdir().unwrap();
            built.write_to(src.path());
            let md = src.path().join("metadata");
            let load = |m: std::path::PathBuf, t: std::path::PathBuf, root: Vec<u8>| async move { RepositoryLoader::new(&root, dir_url(&m), dir_url(&t)).load().await };
            let repo = match load(md.clone(), src.path().join("targets"), built.root.clone()).await {
                Ok(r) => r,
                Err(e) => {
                    dev.push(json!({"class": "generator", "what": format!("{label}: generated repository does not load: {e}")}));
                    continue;
                }
            };
            let mut ed = match RepositoryEditor::from_repo(src.path().join("root.json"), repo).await {
                Ok(e) => e,
                Err(e) => {
                    dev.push(json!({"class": "from_repo-refuses", "what": format!("{label}: from_repo failed: {e}")}));
                    continue;
                }
            };
            let top = &spec.roles[0];
            ed.targets_version(nz(top.version + 1)).unwrap().targets_expires(far()).unwrap();
            ed.snapshot_version(nz(spec.snapshot_version + 1)).snapshot_expires(far());
            ed.timestamp_version(nz(spec.timestamp_version + 1)).timestamp_expires(far());
            let mut added: Vec<(String, Value)> = vec![];
            for i in 0..nadd {
                let c = format!("new content {i} {seed}").into_bytes();
                let mut custom = HashMap::new();
                custom.insert("added".to_string(), json!(i));
                let t = Target { length: c.len() as u64, hashes: Hashes { sha256: sha(&c).into(), _extra: HashMap::new() }, custom, _extra: HashMap::new() };
                let name = format!("new/added-{i}.bin");
                added.push((name.clone(), serde_json::to_value(&t).unwrap()));
                ed.add_target(TargetName::new(&name).unwrap(), t).unwrap();
            }
            let signed = match ed.sign(&built.all_keys()).await {
                Ok(s) => s,
                Err(e) => {
                    dev.push(json!({"class": "sign-refuses", "what": format!("{label} +{nadd}: sign failed: {e}")}));
                    continue;
                }
            };
            let out = tempfile::tempdir().unwrap();
            let omd = out.path().join("metadata");
            signed.write(&omd).await.unwrap();
            let mut push = |class: &str, what: String| dev.push(json!({"class": class, "what": format!("{label} +{nadd} new targets: {what}")}));
            // --- unknown top-level members
            for (role_file, extras, class) in [("targets.json", &top.extra, "targets-extra"), ("snapshot.json", &spec.snapshot_extra, "snapshot-extra"), ("timestamp.json", &spec.timestamp_extra, "timestamp-extra")] {
                let Some(b) = find_file(&omd, role_file) else {
                    push("missing-file", format!("{role_file} was not written"));
                    continue;
                };
                let s = signed_of(&b);
                for (k, v) in extras.iter() {
                    if s.get(k) != Some(v) {
                        push(class, format!("unknown member {k:?} of {role_file} is {} after the update", if s.contains_key(k) { "changed" } else { "gone" }));
                    }
                }
            }
            // --- target set of the top-level role
            let old_t = signed_of(find_file(&md, "targets.json").as_ref().unwrap());
            let new_t = signed_of(find_file(&omd, "targets.json").as_ref().unwrap_or(&vec![]));
            let mut want = old_t.get("targets").and_then(|v| v.as_object()).cloned().unwrap_or_default();
            for (n, t) in &added {
                want.insert(n.clone(), t.clone());
            }
            let got = new_t.get("targets").and_then(|v| v.as_object()).cloned().unwrap_or_default();
            if got != want {
                let missing: Vec<&String> = want.keys().filter(|k| !got.contains_key(*k)).collect();
                let changed: Vec<&String> = want.keys().filter(|k| got.contains_key(*k) && got[*k] != want[*k]).collect();
                let surplus: Vec<&String> = got.keys().filter(|k| !want.contains_key(*k)).collect();
                push("target-set", format!("targets of targets.json differ: missing {missing:?}, altered {changed:?}, unexpected {surplus:?}"));
            }
            if new_t.get("delegations") != old_t.get("delegations") {
                push("delegations", "the delegations member of targets.json changed".to_string());
            }
            // --- every delegated role: same signed content, same signatures
            for r in spec.roles.iter().skip(1) {
                let f = format!("{}.json", crate::names::ref_encode(&r.name));
                let old = find_file(&md, &f).map(|b| serde_json::from_slice::<Value>(&b).unwrap());
                let new = find_file(&omd, &f).map(|b| serde_json::from_slice::<Value>(&b).unwrap());
                match (old, new) {
                    (Some(o), Some(n)) => {
                        if o["signed"] != n["signed"] {
                            push("delegated-content", format!("content of delegated role {:?} changed", r.name));
                        }
                        if o["signatures"] != n["signatures"] {
                            push("delegated-signatures", format!("signatures of delegated role {:?} changed", r.name));
                        }
                    }
                    (_, None) => push("delegated-missing", format!("delegated role {:?} was not written", r.name)),
                    _ => {}
                }
            }
            // --- the result loads with the same root and exposes the same targets
            for (n, b) in &built.meta {
                if n.ends_with("root.json") {
                    std::fs::write(omd.join(n), b).unwrap();
                }
            }
            match load(omd.clone(), src.path().join("targets"), built.root.clone()).await {
                Err(e) => push("reload", format!("the updated repository does not load: {e}")),
                Ok(repo2) => {
                    let names: std::collections::BTreeSet<String> = repo2.all_targets().map(|(n, _)| n.raw().to_string()).collect();
                    let mut want_names: std::collections::BTreeSet<String> = spec.roles.iter().flat_map(|r| r.targets.iter().map(|t| t.name.clone())).collect();
                    for (n, _) in &added {
                        want_names.insert(n.clone());
                    }
                    if names != want_names {
                        push("reload-target-set", format!("loaded target names differ: {:?} vs expected {:?}", names.difference(&want_names).collect::<Vec<_>>(), want_names.difference(&names).collect::<Vec<_>>()));
                    }
                }
            }
        }
    }
    let mut classes: Vec<String> = dev.iter().map(|d| d["class"].as_str().unwrap().to_string()).collect();
    classes.sort();
    classes.dedup();
    dev.truncate(12);
    json!({"cases": cases, "deviations": dev, "classes": classes})
}

/// C10 replay of an editing-program counterexample: {"program": [["add", id], ["remove", id], ["clear"]], "listed_before": [ids]}
/// names are "name-<id>"; the source repository lists the names in listed_before; the program runs on RepositoryEditor::from_repo
pub async fn op_editor_program(sc: Value) -> Value {
    let listed: Vec<u64> = sc["listed_before"].as_array().map(|a| a.iter().filter_map(|v| v.as_u64()).collect()).unwrap_or_default();
    let mut top = role("targets", None, None);
    for id in &listed {
        top.targets.push(tgt(&format!("name-{id}"), format!("old content {id}").as_bytes()));
    }
    let spec = RepoSpec { consistent: false, roles: vec![top], snapshot_extra: vec![], timestamp_extra: vec![], root_version: 1, snapshot_version: 1, timestamp_version: 1 };
    let built = build_repo(&spec).await;
    let src = tempfile::tempdir().unwrap();
    built.write_to(src.path());
    let md = src.path().join("metadata");
    let repo = RepositoryLoader::new(&built.root, dir_url(&md), dir_url(&src.path().join("targets"))).load().await.unwrap();
    let mut ed = RepositoryEditor::from_repo(src.path().join("root.json"), repo).await.unwrap();
    ed.targets_version(nz(2)).unwrap().targets_expires(far()).unwrap();
    ed.snapshot_version(nz(2)).snapshot_expires(far());
    ed.timestamp_version(nz(2)).timestamp_expires(far());
    let mut want: std::collections::BTreeMap<String, u64> = listed.iter().map(|id| (format!("name-{id}"), format!("old content {id}").len() as u64)).collect();
    let mut log = vec![];
    for (i, op) in sc["program"].as_array().cloned().unwrap_or_default().iter().enumerate() {
        let kind = op[0].as_str().unwrap_or("");
        let name = format!("name-{}", op[1].as_u64().unwrap_or(0));
        match kind {
            "add" => {
                let c = format!("new content {i} of {name} ............").into_bytes();
                let t = Target { length: c.len() as u64, hashes: Hashes { sha256: sha(&c).into(), _extra: HashMap::new() }, custom: HashMap::new(), _extra: HashMap::new() };
                ed.add_target(TargetName::new(&name).unwrap(), t).unwrap();
                want.insert(name.clone(), c.len() as u64);
                log.push(format!("add {name}"));
            }
            "remove" => {
                ed.remove_target(&TargetName::new(&name).unwrap()).unwrap();
                want.remove(&name);
                log.push(format!("remove {name}"));
            }
            "clear" => {
                ed.clear_targets().unwrap();
                want.clear();
                log.push("clear".into());
            }
            _ => {}
        }
    }
    let signed = match ed.sign(&built.all_keys()).await {
        Ok(s) => s,
        Err(e) => return json!({"error": format!("sign failed: {e}"), "log": log}),
    };
    let out = tempfile::tempdir().unwrap();
    let omd = out.path().join("metadata");
    signed.write(&omd).await.unwrap();
    std::fs::write(omd.join("1.root.json"), &built.root).unwrap();
    let repo2 = match RepositoryLoader::new(&built.root, dir_url(&omd), dir_url(&src.path().join("targets"))).load().await {
        Ok(r) => r,
        Err(e) => return json!({"error": format!("result does not load: {e}"), "log": log}),
    };
    let got: std::collections::BTreeMap<String, u64> = repo2.targets().signed.targets.iter().map(|(n, t)| (n.raw().to_string(), t.length)).collect();
    let mut violations = vec![];
    if got != want {
        violations.push(format!("after [{}] on a repository listing {:?}, the client sees targets {:?} (name -> length), the program leaves {:?}", log.join(", "), listed.iter().map(|i| format!("name-{i}")).collect::<Vec<_>>(), got, want));
    }
    json!({"log": log, "violations": violations})
}

/// C10 cross-party flow: the holder of delegated role A hands over new metadata; the owner incorporates it with update_delegated_targets.
/// Accepted only if it meets A's threshold under the delegating role's keys and does not lower A's version.
pub async fn op_cross_party(sc: Value) -> Value {
    let seed = sc["seed"].as_u64().unwrap_or(0);
    let mut dev: Vec<Value> = vec![];
    let mut cases = 0u64;
    for (label, spec) in menu(seed).into_iter().filter(|(l, _)| l.starts_with("tree")) {
        // A: index 1, 3 keys, threshold 2, version 2
        for (case, nvalid, nforeign, version, expect_ok) in [("genuine, newer", 2usize, 0usize, 3u64, true), ("genuine, same version", 2, 0, 2, true), ("genuine, all three keys", 3, 0, 5, true),
                                                            ("under-signed (1 of threshold 2)", 1, 0, 3, false), ("signed by the wrong keys", 0, 2, 3, false), ("one valid key and one foreign key", 1, 1, 3, false),
                                                            ("genuine but older", 2, 0, 1, false), ("unsigned", 0, 0, 3, false)] {
            cases += 1;
            let built = build_repo(&spec).await;
            let src = tempfile::tempdir().unwrap();
            built.write_to(src.path());
            let md = src.path().join("metadata");
            let repo = RepositoryLoader::new(&built.root, dir_url(&md), dir_url(&src.path().join("targets"))).load().await.unwrap();
            // incoming metadata for A: the currently loaded document with one more target and the given version
            let cur: &Targets = &repo.targets().signed.delegations.as_ref().unwrap().roles.iter().find(|r| r.name == "A").unwrap().targets.as_ref().unwrap().signed;
            let mut inc = cur.clone();
            inc.version = nz(version);
            if let Some(d) = inc.delegations.as_mut() {
                for r in d.roles.iter_mut() {
                    r.targets = None;
                }
            }
            let c = format!("handed over {seed} {case}").into_bytes();
            inc.targets.insert(TargetName::new("a/handed-over").unwrap(), Target { length: c.len() as u64, hashes: Hashes { sha256: sha(&c).into(), _extra: HashMap::new() }, custom: HashMap::new(), _extra: HashMap::new() });
            let mut signers: Vec<Ed25519KeyPair> = built.role_keys[1].iter().take(nvalid).map(|k| k.pair()).collect();
            for _ in 0..nforeign {
                signers.push(kp());
            }
            let refs: Vec<&Ed25519KeyPair> = signers.iter().collect();
            let doc = sign(inc.clone(), &refs).await;
            let incoming = tempfile::tempdir().unwrap();
            std::fs::write(incoming.path().join("A.json"), ser(&doc)).unwrap();
            let mut ed = RepositoryEditor::from_repo(src.path().join("root.json"), repo).await.unwrap();
            let res = ed.update_delegated_targets("A", dir_url(incoming.path()).as_str()).await.map(|_| ());
            let desc = format!("{label}: incoming A metadata {case} (version {version}, current 2, threshold 2 of 3)");
            match (&res, expect_ok) {
                (Ok(()), false) => dev.push(json!({"class": "cross-party-accepted", "what": format!("{desc} was incorporated by update_delegated_targets")})),
                (Err(e), true) => dev.push(json!({"class": "cross-party-refused", "what": format!("{desc} was refused: {e}")})),
                _ => {}
            }
            if res.is_ok() && expect_ok {
                ed.change_delegated_targets("targets").unwrap();
                ed.targets_version(nz(spec.roles[0].version + 1)).unwrap().targets_expires(far()).unwrap();
                ed.snapshot_version(nz(spec.snapshot_version + 1)).snapshot_expires(far());
                ed.timestamp_version(nz(spec.timestamp_version + 1)).timestamp_expires(far());
                match ed.sign(&built.all_keys()).await {
                    Err(e) => dev.push(json!({"class": "cross-party-sign", "what": format!("{desc}: sign after incorporation failed: {e}")})),
                    Ok(signed) => {
                        let out = tempfile::tempdir().unwrap();
                        let omd = out.path().join("metadata");
                        signed.write(&omd).await.unwrap();
                        for (n, b) in &built.meta {
                            if n.ends_with("root.json") {
                                std::fs::write(omd.join(n), b).unwrap();
                            }
                        }
                        match RepositoryLoader::new(&built.root, dir_url(&omd), dir_url(&src.path().join("targets"))).load().await {
                            Err(e) => dev.push(json!({"class": "cross-party-reload", "what": format!("{desc}: the repository written after incorporation does not load: {e}")})),
                            Ok(r2) => {
                                let a2 = &r2.targets().signed.delegations.as_ref().unwrap().roles.iter().find(|r| r.name == "A").unwrap().targets.as_ref().unwrap().signed;
                                if a2.version.get() != version || !a2.targets.contains_key(&TargetName::new("a/handed-over").unwrap()) || a2.targets.len() != inc.targets.len() {
                                    dev.push(json!({"class": "cross-party-content", "what": format!("{desc}: after incorporation role A is not the handed-over document (version {}, {} targets)", a2.version, a2.targets.len())}));
                                }
                                if a2.delegations.as_ref().map(|d| d.roles.iter().filter(|r| r.targets.is_some()).count()) != cur_deleg_loaded(&inc) {
                                    dev.push(json!({"class": "cross-party-subroles", "what": format!("{desc}: the roles delegated by A lost their metadata")}));
                                }
                            }
                        }
                    }
                }
            }
        }
        // ---- late refusal: genuine newer metadata for A that also delegates a role "N" whose metadata is not handed over. The update must be
        // refused (N cannot be fetched) and must leave the editor as it was: the owner signs on, and the written repository loads with A as
        // before and every role delegated by A still carrying its metadata.
        {
            cases += 1;
            let built = build_repo(&spec).await;
            let src = tempfile::tempdir().unwrap();
            built.write_to(src.path());
            let md = src.path().join("metadata");
            let repo = RepositoryLoader::new(&built.root, dir_url(&md), dir_url(&src.path().join("targets"))).load().await.unwrap();
            let cur: &Targets = &repo.targets().signed.delegations.as_ref().unwrap().roles.iter().find(|r| r.name == "A").unwrap().targets.as_ref().unwrap().signed;
            let before_sub: Vec<(String, bool)> = cur.delegations.as_ref().map(|d| d.roles.iter().map(|r| (r.name.clone(), r.targets.is_some())).collect()).unwrap_or_default();
            let before_version = cur.version.get();
            let mut inc = cur.clone();
            inc.version = nz(before_version + 1);
            let nkey = kp();
            let nk = nkey.tuf_key();
            let nid = kid(&nkey);
            let have_deleg = inc.delegations.is_some();
            if have_deleg {
                let d = inc.delegations.as_mut().unwrap();
                for r in d.roles.iter_mut() {
                    r.targets = None;
                }
                d.keys.insert(nid.clone(), nk);
                d.roles.push(DelegatedRole { name: "N".into(), keyids: vec![nid], threshold: nz(1), paths: PathSet::Paths(vec![PathPattern::new("a/n/*").unwrap()]), terminating: false, targets: None });
                let signers: Vec<Ed25519KeyPair> = built.role_keys[1].iter().take(2).map(|k| k.pair()).collect();
                let refs: Vec<&Ed25519KeyPair> = signers.iter().collect();
                let doc = sign(inc.clone(), &refs).await;
                let incoming = tempfile::tempdir().unwrap();
                std::fs::write(incoming.path().join("A.json"), ser(&doc)).unwrap();
                let mut ed = RepositoryEditor::from_repo(src.path().join("root.json"), repo).await.unwrap();
                // no pending targets editor: the owner has signed the role being edited back into the tree
                ed.targets_version(nz(spec.roles[0].version + 1)).unwrap().targets_expires(far()).unwrap();
                let pre = ed.sign_targets_editor(&built.all_keys()).await.map(|_| ());
                let res = ed.update_delegated_targets("A", dir_url(incoming.path()).as_str()).await.map(|_| ());
                let desc = format!("{label}: incoming A metadata genuine and newer, delegating a new role N whose metadata is not handed over");
                if let Err(e) = pre {
                    dev.push(json!({"class": "cross-party-sign", "what": format!("{desc}: sign_targets_editor before the hand-over failed: {e}")}));
                } else if res.is_ok() {
                    dev.push(json!({"class": "cross-party-accepted", "what": format!("{desc} was incorporated although N.json cannot be fetched")}));
                } else {
                    ed.snapshot_version(nz(spec.snapshot_version + 1)).snapshot_expires(far());
                    ed.timestamp_version(nz(spec.timestamp_version + 1)).timestamp_expires(far());
                    match ed.sign(&built.all_keys()).await {
                        Err(e) => dev.push(json!({"class": "cross-party-refused-changed", "what": format!("{desc}: after the refused hand-over the editor no longer signs: {e}")})),
                        Ok(signed) => {
                            let out = tempfile::tempdir().unwrap();
                            let omd = out.path().join("metadata");
                            signed.write(&omd).await.unwrap();
                            for (n, b) in &built.meta {
                                if n.ends_with("root.json") {
                                    std::fs::write(omd.join(n), b).unwrap();
                                }
                            }
                            match RepositoryLoader::new(&built.root, dir_url(&omd), dir_url(&src.path().join("targets"))).load().await {
                                Err(e) => dev.push(json!({"class": "cross-party-refused-changed", "what": format!("{desc}: the hand-over was refused, the owner signed on, and the written repository does not load: {e}")})),
                                Ok(r2) => {
                                    let a2 = &r2.targets().signed.delegations.as_ref().unwrap().roles.iter().find(|r| r.name == "A").unwrap().targets.as_ref().unwrap().signed;
                                    let after_sub: Vec<(String, bool)> = a2.delegations.as_ref().map(|d| d.roles.iter().map(|r| (r.name.clone(), r.targets.is_some())).collect()).unwrap_or_default();
                                    if a2.version.get() != before_version || after_sub != before_sub {
                                        dev.push(json!({"class": "cross-party-refused-changed", "what": format!("{desc}: the hand-over was refused but role A changed: version {} -> {}, delegated roles (name, loaded) {:?} -> {:?}", before_version, a2.version, before_sub, after_sub)}));
                                    }
                                }
                            }
                        }
                    }
                }
            }
        }
    }
    dev.truncate(10);
    json!({"cases": cases, "deviations": dev})
}
fn cur_deleg_loaded(inc: &Targets) -> Option<usize> {
    inc.delegations.as_ref().map(|d| d.roles.len())
}
