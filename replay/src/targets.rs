// C06 / C08 native validation: real Repository::read_target / save_target against a transport that corrupts target bodies.
use crate::*;
use async_trait::async_trait;
use futures::StreamExt;
use std::sync::{Arc, Mutex};
use tough::{Prefix, RepositoryLoader, TargetName, Transport, TransportError, TransportErrorKind};
use url::Url;

type TS = std::pin::Pin<Box<dyn futures::Stream<Item = std::result::Result<bytes::Bytes, TransportError>> + Send>>;

#[derive(Debug, Clone)]
pub enum Body {
    Bytes(Vec<u8>),
    Endless(Vec<u8>),
    FailAfter(Vec<u8>, usize), // error after this many chunks
    NoChunks,
}

#[derive(Debug, Clone, Default)]
pub struct T {
    pub meta: Arc<Mutex<HashMap<String, Vec<u8>>>>,
    pub targets: Arc<Mutex<HashMap<String, Body>>>,
    pub chunk: usize,
    pub log: Arc<Mutex<Vec<String>>>,
    /// body served for any target path that has no entry of its own
    pub default_target: Arc<Mutex<Option<Body>>>,
}

#[async_trait]
impl Transport for T {
    async fn fetch(&self, url: Url) -> std::result::Result<TS, TransportError> {
        let p = url.path().to_string();
        self.log.lock().unwrap().push(p.clone());
        if let Some(b) = self.meta.lock().unwrap().get(&p) {
            return Ok(Box::pin(futures::stream::iter(vec![Ok(bytes::Bytes::from(b.clone()))])));
        }
        let mut body = self.targets.lock().unwrap().get(&p).cloned();
        if body.is_none() && p.starts_with("/t/") {
            body = self.default_target.lock().unwrap().clone();
        }
        let chunk = self.chunk;
        let mk = |b: &Vec<u8>| -> Vec<std::result::Result<bytes::Bytes, TransportError>> {
            let c = if chunk == 0 { b.len().max(1) } else { chunk };
            b.chunks(c).map(|x| Ok(bytes::Bytes::copy_from_slice(x))).collect()
        };
        match body {
            None => Err(TransportError::new(TransportErrorKind::FileNotFound, url)),
            Some(Body::Bytes(b)) => Ok(Box::pin(futures::stream::iter(mk(&b)))),
            Some(Body::NoChunks) => Ok(Box::pin(futures::stream::iter(vec![]))),
            Some(Body::Endless(b)) => {
                let mut items = mk(&b);
                for _ in 0..2048 {
                    items.push(Ok(bytes::Bytes::from(vec![0x41u8; 1024])));
                }
                Ok(Box::pin(futures::stream::iter(items)))
            }
            Some(Body::FailAfter(b, k)) => {
                let mut items = mk(&b);
                items.truncate(k);
                items.push(Err(TransportError::new(TransportErrorKind::Other, url)));
                Ok(Box::pin(futures::stream::iter(items)))
            }
        }
    }
}

fn content(size: usize, salt: u8) -> Vec<u8> {
    (0..size).map(|i| ((i * 31 + 7) as u8) ^ salt).collect()
}
fn sha(b: &[u8]) -> Vec<u8> {
    aws_lc_rs::digest::digest(&aws_lc_rs::digest::SHA256, b).as_ref().to_vec()
}

pub struct Built {
    pub shipped: Vec<u8>,
    pub t: T,
    pub names: Vec<(String, Vec<u8>)>, // target name, genuine content
    pub consistent: bool,
}

/// repository with targets `names[i]` -> content(sizes[i]) (optionally one delegated role "d" holding the last target)
pub async fn build(sizes: &[usize], names: &[String], consistent: bool, delegated_last: bool) -> Built {
    let keys: Vec<Ed25519KeyPair> = (0..5).map(|_| kp()).collect();
    let mut table: HashMap<Decoded<Hex>, Key> = HashMap::new();
    for k in &keys[..4] {
        table.insert(kid(k), k.tuf_key());
    }
    let rk = |k: &Ed25519KeyPair| RoleKeys { keyids: vec![kid(k)], threshold: nz(1), _extra: HashMap::new() };
    let mut roles = HashMap::new();
    roles.insert(RoleType::Root, rk(&keys[0]));
    roles.insert(RoleType::Timestamp, rk(&keys[1]));
    roles.insert(RoleType::Snapshot, rk(&keys[2]));
    roles.insert(RoleType::Targets, rk(&keys[3]));
    let root = Root { spec_version: "1.0.0".into(), consistent_snapshot: consistent, version: nz(1), expires: far(), keys: table, roles, _extra: HashMap::new() };
    let root = sign(root, &[&keys[0]]).await;
    let t = T::default();
    let mut listed = vec![];
    let mut top = Targets::new("1.0.0".into(), nz(1), far());
    top.delegations = None;
    let mut dele = Targets::new("1.0.0".into(), nz(1), far());
    dele.delegations = None;
    for (i, (name, size)) in names.iter().zip(sizes).enumerate() {
        let c = content(*size, i as u8);
        let tgt = Target { length: c.len() as u64, hashes: Hashes { sha256: sha(&c).into(), _extra: HashMap::new() }, custom: HashMap::new(), _extra: HashMap::new() };
        let tn = TargetName::new(name.clone()).unwrap();
        let fname = if consistent { format!("{}.{}", hex::encode(sha(&c)), tn.resolved()) } else { tn.resolved().to_string() };
        t.targets.lock().unwrap().insert(format!("/t/{fname}"), Body::Bytes(c.clone()));
        if delegated_last && i == names.len() - 1 {
            dele.targets.insert(tn, tgt);
        } else {
            top.targets.insert(tn, tgt);
        }
        listed.push((name.clone(), c));
    }
    let mut sn = Snapshot::new("1.0.0".into(), nz(1), far());
    let put = |t: &T, n: &str, b: Vec<u8>| {
        t.meta.lock().unwrap().insert(format!("/m/{n}"), b);
    };
    let pfx = |n: &str| if consistent { format!("1.{n}") } else { n.to_string() };
    let m = |b: &[u8]| Metafile { length: Some(b.len() as u64), hashes: Some(Hashes { sha256: sha(b).into(), _extra: HashMap::new() }), version: nz(1), _extra: HashMap::new() };
    if delegated_last {
        let mut dk = HashMap::new();
        dk.insert(kid(&keys[4]), keys[4].tuf_key());
        top.delegations = Some(Delegations { keys: dk, roles: vec![DelegatedRole { name: "d".into(), keyids: vec![kid(&keys[4])], threshold: nz(1), paths: PathSet::Paths(vec![PathPattern::new("*").unwrap()]), terminating: false, targets: None }] });
        let db = ser(&sign(dele, &[&keys[4]]).await);
        sn.meta.insert("d.json".into(), m(&db));
        put(&t, &pfx("d.json"), db);
    }
    let tb = ser(&sign(top, &[&keys[3]]).await);
    sn.meta.insert("targets.json".into(), m(&tb));
    put(&t, &pfx("targets.json"), tb);
    let sb = ser(&sign(sn, &[&keys[2]]).await);
    let mut ts = Timestamp::new("1.0.0".into(), nz(1), far());
    ts.meta.insert("snapshot.json".into(), m(&sb));
    put(&t, &pfx("snapshot.json"), sb);
    put(&t, "timestamp.json", ser(&sign(ts, &[&keys[1]]).await));
    Built { shipped: ser(&root), t, names: listed, consistent }
}

pub async fn load(b: &Built, chunk: usize) -> tough::Repository {
    let mut t = b.t.clone();
    t.chunk = chunk;
    RepositoryLoader::new(&b.shipped, Url::parse("file:///m/").unwrap(), Url::parse("file:///t/").unwrap()).transport(t).load().await.expect("native validation repository must load")
}

/// drain a target stream: (bytes delivered before the end, ended without error?)
pub async fn drain(repo: &tough::Repository, name: &str) -> std::result::Result<Option<(Vec<u8>, bool)>, String> {
    let tn = TargetName::new(name).map_err(|e| e.to_string())?;
    match repo.read_target(&tn).await {
        Err(e) => Err(e.to_string()),
        Ok(None) => Ok(None),
        Ok(Some(mut s)) => {
            let mut got = vec![];
            let mut n = 0;
            while let Some(item) = s.next().await {
                n += 1;
                match item {
                    Ok(b) => got.extend_from_slice(&b),
                    Err(_) => return Ok(Some((got, false))),
                }
                if n > 100000 {
                    return Err("stream does not end".into());
                }
            }
            Ok(Some((got, true)))
        }
    }
}

pub async fn op_target_stream(sc: Value) -> Value {
    let sizes: Vec<usize> = sc["sizes"].as_array().unwrap().iter().map(|v| v.as_u64().unwrap() as usize).collect();
    let chunkings: Vec<usize> = sc["chunkings"].as_array().unwrap().iter().map(|v| v.as_u64().unwrap() as usize).collect();
    let mut dev = vec![];
    let mut cases = 0;
    for consistent in [false, true] {
        for delegated in [false, true] {
            let mut all_sizes = sizes.clone();
            all_sizes.push(33); // "other" target used for substitution
            let names: Vec<String> = (0..all_sizes.len()).map(|i| format!("dir/file-{i}.bin")).collect();
            let b = build(&all_sizes, &names, consistent, delegated).await;
            let other = b.names.last().unwrap().1.clone();
            for &chunk in &chunkings {
                let repo = load(&b, chunk).await;
                for (name, genuine) in &b.names {
                    let key = {
                        let tn = TargetName::new(name.clone()).unwrap();
                        if consistent { format!("/t/{}.{}", hex::encode(sha(genuine)), tn.resolved()) } else { format!("/t/{}", tn.resolved()) }
                    };
                    let n = genuine.len();
                    let mut variants: Vec<(String, Body, bool)> = vec![("intact".into(), Body::Bytes(genuine.clone()), true)];
                    for p in [0usize, n / 2, n.saturating_sub(1)] {
                        if p < n {
                            let mut c = genuine.clone();
                            c[p] ^= 1;
                            variants.push((format!("bit flip at {p}"), Body::Bytes(c), false));
                            variants.push((format!("truncated to {p} bytes"), Body::Bytes(genuine[..p].to_vec()), false));
                        }
                    }
                    if n > 0 {
                        variants.push(("no chunks at all".into(), Body::NoChunks, false));
                    }
                    for extra in [1usize, 100] {
                        let mut c = genuine.clone();
                        c.extend(std::iter::repeat(0x42u8).take(extra));
                        variants.push((format!("extended by {extra} bytes"), Body::Bytes(c), false));
                    }
                    variants.push(("endless".into(), Body::Endless(genuine.clone()), false));
                    if genuine != &other {
                        variants.push(("substituted by another signed target".into(), Body::Bytes(other.clone()), false));
                    }
                    variants.push(("transport error after the first chunk".into(), Body::FailAfter(genuine.clone(), 1), n <= chunk.max(1) && false));
                    for (what, body, want_ok) in variants {
                        cases += 1;
                        b.t.targets.lock().unwrap().insert(key.clone(), body);
                        b.t.log.lock().unwrap().clear();
                        let r = drain(&repo, name).await;
                        let ctx = format!("target {name} ({n} bytes, chunk {chunk}, consistent {consistent}, delegated {delegated}): {what}");
                        match r {
                            Err(e) => {
                                if want_ok {
                                    dev.push(json!({"what": format!("{ctx}: read_target failed: {e}")}));
                                }
                            }
                            Ok(None) => dev.push(json!({"what": format!("{ctx}: reported as not found")})),
                            Ok(Some((got, ended_ok))) => {
                                if got.len() > n {
                                    dev.push(json!({"what": format!("{ctx}: {} bytes handed to the caller, signed length is {n}", got.len())}));
                                }
                                if ended_ok && &got != genuine {
                                    dev.push(json!({"what": format!("{ctx}: stream ended without error after {} bytes that are not the signed content", got.len())}));
                                }
                                if !want_ok && ended_ok {
                                    dev.push(json!({"what": format!("{ctx}: the served body is not the signed content, yet the stream ended without an error after handing out {} bytes", got.len())}));
                                }
                                if want_ok && !ended_ok {
                                    dev.push(json!({"what": format!("{ctx}: genuine content rejected")}));
                                }
                            }
                        }
                        let log = b.t.log.lock().unwrap().clone();
                        if log.iter().any(|p| p != &key) {
                            dev.push(json!({"what": format!("{ctx}: fetched {log:?}, expected only {key}")}));
                        }
                    }
                    b.t.targets.lock().unwrap().insert(key.clone(), Body::Bytes(genuine.clone()));
                }
                // unknown name: not found, nothing fetched
                cases += 1;
                b.t.log.lock().unwrap().clear();
                match drain(&repo, "no/such/target").await {
                    Ok(None) => {}
                    other => dev.push(json!({"what": format!("unknown target name: expected not-found, got {:?}", other.map(|o| o.map(|x| x.0.len())))})),
                }
                if !b.t.log.lock().unwrap().is_empty() {
                    dev.push(json!({"what": "unknown target name: something was fetched"}));
                }
            }
        }
    }
    dev.truncate(10);
    json!({"cases": cases, "deviations": dev})
}
