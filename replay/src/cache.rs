// C19 native validation / replay: cache a loaded repository, load the copy, compare.
use crate::repo::*;
use crate::roundtrip::DecodingFs;
use crate::*;
use futures::StreamExt;
use std::collections::BTreeMap;
use std::path::Path;
use tough::{Repository, RepositoryLoader, TargetName};

fn files_under(dir: &Path) -> BTreeMap<String, Vec<u8>> {
    fn walk(base: &Path, d: &Path, out: &mut BTreeMap<String, Vec<u8>>) {
        if let Ok(rd) = std::fs::read_dir(d) {
            for e in rd.flatten() {
                let p = e.path();
                if p.is_dir() {
                    walk(base, &p, out);
                } else {
                    out.insert(p.strip_prefix(base).unwrap().to_string_lossy().to_string(), std::fs::read(&p).unwrap_or_default());
                }
            }
        }
    }
    let mut out = BTreeMap::new();
    walk(dir, dir, &mut out);
    out
}

async fn read_all(repo: &Repository, name: &str) -> std::result::Result<Option<Vec<u8>>, String> {
    match repo.read_target(&TargetName::new(name).unwrap()).await {
        Ok(None) => Ok(None),
        Err(e) => Err(e.to_string()),
        Ok(Some(mut s)) => {
            let mut got = vec![];
            while let Some(i) = s.next().await {
                match i {
                    Ok(b) => got.extend_from_slice(&b),
                    Err(e) => return Err(e.to_string()),
                }
            }
            Ok(Some(got))
        }
    }
}

fn versions(r: &Repository) -> BTreeMap<String, u64> {
    let mut m = BTreeMap::new();
    m.insert("root".to_string(), r.root().signed.version.get());
    m.insert("timestamp".to_string(), r.timestamp().signed.version.get());
    m.insert("snapshot".to_string(), r.snapshot().signed.version.get());
    m.insert("targets".to_string(), r.targets().signed.version.get());
    for d in r.targets().signed.signed_delegated_targets() {
        m.insert(format!("delegated:{}", d.signed.name), d.signed.targets.version.get());
    }
    m
}

pub async fn op_cache_roundtrip(sc: Value) -> Value {
    let seed = sc["seed"].as_u64().unwrap_or(0);
    let mut dev: Vec<Value> = vec![];
    let mut known_cases = 0u64;
    let mut known_example: Option<Value> = None;
    let mut cases = 0u64;
    let mut specs = menu(seed);
    // root chains, and a tree whose names are all URL-safe
    for (label, spec) in menu(seed) {
        if label.starts_with("tree") {
            let mut s3 = spec.clone();
            s3.root_version = 3;
            specs.push((format!("{label}/root-v3"), s3));
        }
    }
    for (label, spec) in specs {
        let all_names: Vec<String> = spec.roles.iter().flat_map(|r| r.targets.iter().map(|t| t.name.clone())).collect();
        let subsets: Vec<Option<Vec<String>>> = vec![None, Some(all_names.iter().take(2).cloned().collect()), Some(vec![])];
        for subset in subsets {
            for chain in [false, true] {
                for corrupt in [false, true] {
                    if corrupt && (all_names.is_empty() || chain) {
                        continue;
                    }
                    cases += 1;
                    let built = build_repo(&spec).await;
                    let work = tempfile::tempdir().unwrap();
                    let src = work.path().join("src");
                    built.write_to(&src);
                    let desc = format!("{label} subset={:?} root_chain={chain} corrupt={corrupt}", subset.as_ref().map(|s| s.len()));
                    // the corrupted target: first of the requested ones
                    let requested: Vec<String> = subset.clone().unwrap_or_else(|| all_names.clone());
                    let mut corrupted: Option<String> = None;
                    if corrupt {
                        if let Some(n) = requested.first() {
                            let content = spec.roles.iter().flat_map(|r| r.targets.iter()).find(|t| &t.name == n).unwrap().content.clone();
                            let fname = if spec.consistent { format!("{}.{}", hex::encode(sha(&content)), n) } else { n.clone() };
                            let mut bad = content.clone();
                            if bad.is_empty() { bad.push(1) } else { bad[0] ^= 0x55 }
                            std::fs::write(src.join("targets").join(fname), bad).unwrap();
                            corrupted = Some(n.clone());
                        } else {
                            continue;
                        }
                    }
                    let tdurl = dir_url(&src.join("targets"));
                    let repo = match RepositoryLoader::new(&built.root, dir_url(&src.join("metadata")), tdurl.clone()).transport(DecodingFs(tdurl.path().to_string())).load().await {
                        Ok(r) => r,
                        Err(e) => {
                            dev.push(json!({"class": "generator", "what": format!("{desc}: source does not load: {e}")}));
                            continue;
                        }
                    };
                    let parent = work.path().join("out");
                    std::fs::create_dir_all(&parent).unwrap();
                    std::fs::write(parent.join("sentinel"), b"s").unwrap();
                    let (md, td) = (parent.join("cache-metadata"), parent.join("cache-targets"));
                    let before_src = files_under(&src);
                    let res = match &subset {
                        None => repo.cache(&md, &td, None::<&[&str]>, chain).await,
                        Some(s) => repo.cache(&md, &td, Some(s.as_slice()), chain).await,
                    };
                    // never writes outside the two directories
                    let outside: Vec<String> = files_under(&parent).keys().filter(|k| !k.starts_with("cache-metadata/") && !k.starts_with("cache-targets/") && *k != "sentinel").cloned().collect();
                    if !outside.is_empty() || files_under(&src) != before_src {
                        dev.push(json!({"class": "outside", "what": format!("{desc}: caching wrote outside the two directories: {outside:?}")}));
                    }
                    // a target that failed verification is never stored
                    if let Some(bad) = &corrupted {
                        let stored = files_under(&td);
                        let want = spec.roles.iter().flat_map(|r| r.targets.iter()).find(|t| &t.name == bad).unwrap().content.clone();
                        for (k, v) in &stored {
                            if k.ends_with(bad.rsplit('/').next().unwrap()) && v != &want {
                                dev.push(json!({"class": "unverified-stored", "what": format!("{desc}: the corrupted target {bad:?} was stored in the cache as {k:?}")}));
                            }
                        }
                        if res.is_ok() {
                            dev.push(json!({"class": "corrupt-accepted", "what": format!("{desc}: cache() succeeded although target {bad:?} does not match its digest")}));
                        }
                        continue;
                    }
                    if let Err(e) = res {
                        dev.push(json!({"class": "cache-fails", "what": format!("{desc}: cache() of a loadable repository failed: {e}")}));
                        continue;
                    }
                    // root chain
                    if chain {
                        for v in 1..=spec.root_version {
                            let f = format!("{v}.root.json");
                            let now = std::fs::read(md.join(&f)).ok();
                            if now.as_ref() != built.meta.get(&f) {
                                std::thread::sleep(std::time::Duration::from_millis(200));
                                let later = std::fs::read(md.join(&f)).ok();
                                if later.as_ref() == built.meta.get(&f) {
                                    dev.push(json!({"class": "not-flushed", "what": format!("{desc}: when cache() returned Ok, {f} held {:?} of {} bytes; 200 ms later it was complete (the file is written in the background and never flushed)", now.map(|b| b.len()), later.map(|b| b.len()).unwrap_or(0))}));
                                } else {
                                    dev.push(json!({"class": "root-chain", "what": format!("{desc}: {f} is missing from the cached metadata or differs from the source")}));
                                }
                            }
                        }
                    }
                    // the copy loads with the same root and has identical role versions
                    let ctd = dir_url(&td);
                    let copy = match RepositoryLoader::new(&built.root_latest, dir_url(&md), ctd.clone()).transport(DecodingFs(ctd.path().to_string())).load().await {
                        Ok(r) => r,
                        Err(e) => {
                            dev.push(json!({"class": "copy-does-not-load", "what": format!("{desc}: the cached copy does not load: {e}")}));
                            continue;
                        }
                    };
                    let (mut va, mut vb) = (versions(&repo), versions(&copy));
                    va.remove("root");
                    vb.remove("root");
                    if va != vb {
                        dev.push(json!({"class": "versions", "what": format!("{desc}: role versions differ: source {va:?}, copy {vb:?}")}));
                    }
                    // every requested target reads back byte-identical
                    for n in &requested {
                        let want = spec.roles.iter().flat_map(|r| r.targets.iter()).find(|t| &t.name == n).unwrap().content.clone();
                        match read_all(&copy, n).await {
                            Ok(Some(b)) if b == want => {}
                            other => dev.push(json!({"class": "target-content", "what": format!("{desc}: target {n:?} does not read back identical from the copy: {:?}", other.map(|o| o.map(|b| b.len())))})),
                        }
                    }
                    // through the stock file transport (known finding for names that need percent-encoding)
                    if let Ok(plain) = RepositoryLoader::new(&built.root_latest, dir_url(&md), dir_url(&td)).load().await {
                        for n in &requested {
                            if let Err(e) = read_all(&plain, n).await {
                                let needs = crate::names::ref_encode(&n.replace('/', "")) != n.replace('/', "");
                                let d = json!({"class": if needs { "file-transport-encoded-target-name" } else { "file-transport" }, "what": format!("{desc}: cached target {n:?} cannot be read back through FilesystemTransport: {e}")});
                                if needs {
                                    known_cases += 1;
                                    known_example.get_or_insert(d);
                                } else {
                                    dev.push(d);
                                }
                            }
                        }
                    }
                    if dev.len() > 10 {
                        break;
                    }
                }
            }
        }
    }
    dev.truncate(10);
    if let Some(d) = known_example {
        dev.push(d);
    }
    json!({"cases": cases, "known_cases": known_cases, "deviations": dev})
}
