// C18 native replay: a loopback HTTP server that follows a response script; the real HttpTransport fetches from it.
use crate::*;
use futures::StreamExt;
use std::io::{Read, Write};
use std::sync::atomic::{AtomicUsize, Ordering};
use std::sync::{Arc, Mutex};
use tough::Transport;

fn resource(len: usize) -> Vec<u8> {
    (0..len).map(|i| (i % 251) as u8).collect()
}

pub async fn op_http_script(sc: Value) -> Value {
    let tries = sc["tries"].as_u64().unwrap() as u32;
    let len = sc["resource_len"].as_u64().unwrap() as usize;
    let honours = sc["server_honours_ranges"].as_bool().unwrap_or(false);
    let responses: Vec<Value> = sc["responses"].as_array().cloned().unwrap_or_default();
    let res = resource(len);
    let listener = std::net::TcpListener::bind("127.0.0.1:0").unwrap();
    let port = listener.local_addr().unwrap().port();
    let hits = Arc::new(AtomicUsize::new(0));
    let ranges: Arc<Mutex<Vec<Option<usize>>>> = Arc::new(Mutex::new(vec![]));
    let (h2, r2, res2) = (hits.clone(), ranges.clone(), res.clone());
    std::thread::spawn(move || {
        for s in listener.incoming() {
            let mut s = match s {
                Ok(s) => s,
                Err(_) => continue,
            };
            let i = h2.fetch_add(1, Ordering::SeqCst);
            // one thread per connection: a stalled response must not delay the answer to the retry
            let (responses, r2, res2) = (responses.clone(), r2.clone(), res2.clone());
            std::thread::spawn(move || loop {
            let mut buf = [0u8; 4096];
            let n = s.read(&mut buf).unwrap_or(0);
            let req = String::from_utf8_lossy(&buf[..n]).to_string();
            let range = req.lines().find(|l| l.to_ascii_lowercase().starts_with("range:")).and_then(|l| {
                l.split('=').nth(1).and_then(|v| v.trim().trim_end_matches('-').parse::<usize>().ok())
            });
            r2.lock().unwrap().push(range);
            let r = responses.get(i).cloned().unwrap_or(json!({"status": 500}));
            if r["request_fails"].as_bool().unwrap_or(false) {
                if r["timeout"].as_bool().unwrap_or(false) {
                    std::thread::sleep(std::time::Duration::from_millis(900));
                }
                drop(s);
                break;
            }
            let status = r["status"].as_u64().unwrap_or(200);
            let announce = r["announce"].as_bool().unwrap_or(false);
            if status != 200 {
                let _ = s.write_all(format!("HTTP/1.1 {status} X\r\nContent-Length: 0\r\nConnection: close\r\n\r\n").as_bytes());
                break;
            }
            let start = if honours { range.unwrap_or(0).min(res2.len()) } else { 0 };
            let body = &res2[start..];
            let mut head = format!("HTTP/1.1 {} OK\r\nContent-Length: {}\r\nConnection: close\r\n", if honours && range.is_some() { 206 } else { 200 }, body.len());
            if announce {
                head.push_str("Accept-Ranges: bytes\r\n");
            }
            head.push_str("\r\n");
            let _ = s.write_all(head.as_bytes());
            let mut sent = 0usize;
            let mut broke = false;
            for c in r["chunks"].as_array().cloned().unwrap_or_default() {
                if !c["exists"].as_bool().unwrap_or(false) {
                    break;
                }
                if c["breaks"].as_bool().unwrap_or(false) {
                    broke = true;
                    let _ = s.flush();
                    if c["timeout"].as_bool().unwrap_or(true) {
                        std::thread::sleep(std::time::Duration::from_millis(900));
                    }
                    break;
                }
                let l = (c["len"].as_u64().unwrap_or(0) as usize).min(body.len() - sent);
                let _ = s.write_all(&body[sent..sent + l]);
                let _ = s.flush();
                sent += l;
                std::thread::sleep(std::time::Duration::from_millis(20));
            }
            if !broke && r["tail_breaks"].as_bool().unwrap_or(false) && sent < body.len() {
                let _ = s.flush();
                if r["tail_timeout"].as_bool().unwrap_or(true) {
                    std::thread::sleep(std::time::Duration::from_millis(900));
                }
            } else if !broke {
                let _ = s.write_all(&body[sent..]);
            }
            drop(s);
            break;
            });
        }
    });
    let t = tough::HttpTransportBuilder::new()
        .tries(tries)
        .timeout(std::time::Duration::from_millis(400))
        .connect_timeout(std::time::Duration::from_millis(300))
        .initial_backoff(std::time::Duration::from_millis(1))
        .max_backoff(std::time::Duration::from_millis(2))
        .build();
    let url = url::Url::parse(&format!("http://127.0.0.1:{port}/file")).unwrap();
    let mut got: Vec<u8> = vec![];
    let mut err: Option<String> = None;
    let mut kind = String::new();
    match t.fetch(url).await {
        Err(e) => {
            kind = format!("{:?}", e.kind());
            err = Some(e.to_string());
        }
        Ok(mut s) => {
            while let Some(item) = s.next().await {
                match item {
                    Ok(b) => got.extend_from_slice(&b),
                    Err(e) => {
                        kind = format!("{:?}", e.kind());
                        err = Some(e.to_string());
                        break;
                    }
                }
            }
        }
    }
    let nreq = hits.load(Ordering::SeqCst);
    let rs = ranges.lock().unwrap().clone();
    let mut violations: Vec<String> = vec![];
    if nreq as u32 > tries {
        violations.push(format!("{nreq} requests were sent although tries = {tries}"));
    }
    if got.len() > res.len() || got[..] != res[..got.len()] {
        violations.push(format!("the {} bytes handed out are not a prefix of the {}-byte resource (duplicate or gap)", got.len(), res.len()));
    }
    if err.is_none() && got != res {
        violations.push(format!("the stream ended without error after {} of {} bytes", got.len(), res.len()));
    }
    for (i, r) in rs.iter().enumerate() {
        if let Some(n) = r {
            let announced_before = sc["responses"].as_array().map(|a| a.iter().take(i).any(|x| x["announce"].as_bool().unwrap_or(false) && x["status"].as_u64() == Some(200) && !x["request_fails"].as_bool().unwrap_or(false))).unwrap_or(false);
            if !announced_before {
                violations.push(format!("request {i} carried Range: bytes={n}- although no earlier response announced byte ranges"));
            }
        }
    }
    if let Some(last) = sc["responses"].as_array().and_then(|a| a.get(nreq.saturating_sub(1))) {
        let st = last["status"].as_u64().unwrap_or(200);
        let failed = last["request_fails"].as_bool().unwrap_or(false);
        if !failed && [403, 404, 410].contains(&st) && kind != "FileNotFound" {
            violations.push(format!("status {st} reported as {kind:?} instead of FileNotFound"));
        }
        if !failed && [400, 416].contains(&st) && (err.is_none() || kind == "FileNotFound") {
            violations.push(format!("status {st} not reported as a fatal error (kind {kind:?})"));
        }
    }
    json!({"requests": nreq, "ranges": rs, "delivered": got.len(), "resource": res.len(), "error": err, "kind": kind, "violations": violations})
}
